"""C13 — job billing never exceeds the instance and survives serialisation.

Tie: T + X.
  T  coq/generated/C13/Gen.v is regenerated on every run from
       batch/batch/resources.py, batch/batch/instance_config.py (quantity formulas, worker fraction) and
       batch/batch/cloud/{gcp,azure}/{resources,instance_config}.py (to_dict / from_dict *schemas*, the dispatch
       functions, per-class quantity overrides) by the fail-closed AST extractor harness/translate/c13_schema.py,
     plus the machine / memory-per-core / azure disk tables read from the imported gcp/azure resource_utils modules.
     Billing/GenLemmas.v proves the generated formulas equal to the hand model, runs the (proved sound) round-trip
     checker on the generated schemas and closes the finite table obligations by vm_compute.
  X  the real GCPSlimInstanceConfig / AzureSlimInstanceConfig (create -> to_dict -> JSON -> from_dict ->
     quantified_resources) against the generated definitions, for every machine type x disk option x packing.
Oracle (implementation only): the clauses of the theorems evaluated on the real classes for every machine type of both tables
  (+ EXTRA_CORES, + corpus/C13), comparing with the instance's actual resources (res_info) in exact integers; see _check_config.
"""
import ast
import json

from harness.core import Corr, Disagreement, Failure, TieBroken, coq_eval, zlit, listlit
from harness.translate import c13_schema as T

ID = 'C13'
SRC_RES = 'batch/batch/resources.py'
SRC_IC = 'batch/batch/instance_config.py'
SRC_CLOUD = {'gcp': ('batch/batch/cloud/gcp/resources.py', 'batch/batch/cloud/gcp/instance_config.py', 'gcp_resource_from_dict', 'GCPSlimInstanceConfig'),
             'azure': ('batch/batch/cloud/azure/resources.py', 'batch/batch/cloud/azure/instance_config.py', 'azure_resource_from_dict', 'AzureSlimInstanceConfig')}
COQ_PROPS = 'theories/Billing/Props_C13.v'
READY = True
META = dict(
    design_ref='§5.B C13',
    technique='Coq proofs about billing-quantity formulas and serialisation schemas regenerated from the Python classes (fail-closed AST '
              'extractor) + finite machine tables read from the imported modules; proved-sound symbolic round-trip checker; '
              'differential run of the real instance-config classes',
    level_text='Machine-checked theorems (Coq 8.16, closed under the global context) about definitions regenerated from the current source: '
               'for both clouds, every machine size, every resource of the worker (compute, memory, boot/data/local-ssd disk, vm, ip fee, '
               'service fee, support fees, accelerators) and EVERY set of jobs whose cores and memory fit on the worker, the billed quantities '
               'add up to at most the whole worker\'s (C13_packed_le_whole); for every worker size (power of two or not) and every job the '
               '1024ths of the worker it is billed are its exact share of the cores rounded DOWN to a whole 1024th, never a whole 1024th '
               'less (C13_job_share_floor); packable requests that fill ALL the cores of a power-of-two pool worker (<= 256 cores) are '
               'billed, together, exactly the whole worker (C13_pool_exact_packing); on the real gcp/azure pool tables, for all packings of packable '
               'core requests (250 mcpu * 2^k, memory derived from the cores) the same holds with the machine table\'s memory '
               '(C13_pool_packing_*; the float memory conversion equals the integer formula on every packable count of every worker type, '
               'finite domain swept completely); a job with all cores and memory is billed exactly the full amount of every resource and the '
               'all-cores pool job is the whole worker; the per-job external disk is billed by the request alone; for every well-formed '
               'instance config (all field values, all resource lists) from_dict(to_dict cfg) = cfg, so it bills identical quantities '
               '(proved-sound symbolic checker run on the regenerated schemas). '
               'Search on the real classes (oracle): every machine type of the gcp and azure MACHINE_TYPE_TO_PARTS tables read at run time '
               '(pool shapes and job-private shapes with 12/20/24/48/72/96 cores) plus an explicit list of odd core counts set by hand on a '
               'real job-private configuration, with the all-cores job and jobs of any size (halves, thirds, 250 mcpu, one core, cores-1, '
               'all single / quarter cores, random splits); the billed quantities are compared in exact integers with the instance\'s ACTUAL '
               'resources read from the resource objects (disk GiB x 1024, 1024/1024 of vm and ip fee, accelerator count x 1024, cores x 1000, '
               'memory MiB), not with what quantified_resources makes of the all-cores job: failure classes whole-worker-underbilled / '
               '-overbilled, packed-exceeds-instance (the property text), and - only when a proof obligation or the tie is already broken, to '
               'turn the broken theorem into a concrete input - job-underbilled and full-pool-worker-underbilled (run-time forms of '
               'C13_job_share_floor / C13_pool_exact_packing, which say more than the property text).',
    level_note='Trusted: Coq kernel; the AST extractor harness/translate/c13_schema.py (class bodies -> formulas/schemas; fail-closed, and the real '
               'classes are run against the generated definitions on every run); JSON encode/decode taken as the identity on int/str/bool/dict '
               '(exercised through json.dumps/loads in the run); ProductVersions stubbed (resource names only). Pool workers whose core count '
               'is not a power of two (<= 256) trip the assertion in quantified_resources and bill nothing: excluded, as in the code '
               '(job-private configurations of any core count are covered). The oracle\'s table class name -> billing kind '
               '(KIND_OF_CLASS) mirrors GenLemmas.kind_of_class; an unknown class disables the absolute comparison for that configuration '
               '(counted in the evidence) while the translator / classes_covered fail closed on it.',
    partial=False,
)
TRUSTED = ['extractor harness/translate/c13_schema.py (Python class bodies -> quantity formulas and to_dict/from_dict schemas), smoke-tested '
           'against the real classes on every run',
           'loader (stubbed third-party packages); ProductVersions replaced by a table in which every product has version 1']
ASSUMPTIONS = ['pool jobs carry packable core requests (250 mcpu * 2^k) and the memory PoolConfig.convert_requests_to_resources derives from them; '
               'job-private jobs carry the machine type\'s cores and memory (JobPrivateInstanceManagerConfig.convert_requests_to_resources)',
               'disk sizes and accelerator counts stored in a resource are non-negative',
               'the serialised form survives JSON storage unchanged (ints, strings, booleans, string->string maps)']


# ------------------------------------------------------------------------------------------------ rendering helpers

def cstr(s):
    assert '"' not in s
    return '"' + s + '"'


def fv_lit(v):
    if isinstance(v, bool):
        return f'(FBool {"true" if v else "false"})'
    if isinstance(v, int):
        return f'(FInt {zlit(v)})'
    if isinstance(v, str):
        return f'(FStr {cstr(v)})'
    if isinstance(v, dict):
        return '(FMap [' + '; '.join(f'({cstr(k)}, {cstr(x)})' for k, x in v.items()) + '])'
    raise TieBroken(T.NAME, f'unsupported field value {v!r}')


def schema_lit(arity, to_entries, alts):
    def t(e):
        return f'TField {e[1]}' if e[0] == 'field' else f'TConst {fv_lit(e[1])}'

    def a(e):
        return f'ALookup {cstr(e[1])}' if e[0] == 'lookup' else f'AConst {fv_lit(e[1])}'
    to_s = '; '.join(f'({cstr(k)}, {t(e)})' for k, e in to_entries)
    alts_s = ';\n      '.join('mkAlt [' + '; '.join(f'({cstr(k)}, {fv_lit(c)})' for k, c in g) + '] [' + '; '.join(a(x) for x in args) + ']'
                              for g, args in alts)
    return f'mkSchema {arity} [{to_s}]\n     [{alts_s}]'


# ------------------------------------------------------------------------------------------------ T: generate

def _extract(ctx):
    """everything the generated file is made of, as plain data (also used by correspond for class indices)"""
    res_tree = ast.parse(ctx.read_repo(SRC_RES))
    ic_tree = ast.parse(ctx.read_repo(SRC_IC))
    base_classes = T.class_defs(res_tree)
    ic_cls = T.class_defs(ic_tree).get('InstanceConfig')
    if ic_cls is None or T.method(ic_cls, 'quantified_resources') is None:
        raise TieBroken(T.NAME, 'InstanceConfig.quantified_resources not found')
    data = {'wf': T.worker_fraction_expr(T.method(ic_cls, 'quantified_resources')), 'mixins': {}, 'clouds': {}}
    # mixins of resources.py
    for name, cls in base_classes.items():
        fn = T.method(cls, 'to_quantified_resource')
        if fn is None:
            continue
        body = [s for s in fn.body if not T._is_docstring(s)]
        if len(body) == 1 and isinstance(body[0], ast.Raise):
            continue
        attrs = [s.target.id for s in cls.body if isinstance(s, ast.AnnAssign) and isinstance(s.target, ast.Name)
                 and ast.unparse(s.annotation) == 'int']
        info = T.quantity_formula(fn, attrs)
        if info['uses_super'] or info['uses_disk']:
            raise TieBroken(T.NAME, f'{name}: unexpected super()/disk use in a mixin')
        data['mixins'][name] = dict(attrs=[a for a in attrs if f'self_{a}' in info['expr']], **info)
    for cloud, (res_rel, ic_rel, dispatch_name, cfg_name) in SRC_CLOUD.items():
        tree = ast.parse(ctx.read_repo(res_rel))
        consts = T.module_constants(tree)
        cdefs = T.class_defs(tree)
        all_defs = dict(base_classes)
        all_defs.update(cdefs)
        classes = {}
        for name, cls in cdefs.items():
            cc = T.class_constants(cls)
            if 'TYPE' not in cc:
                continue      # abstract cloud base class (GCPResource / AzureResource)
            params, attr_of, entries, _ = T.to_dict_schema(cls, consts)
            alts = T.from_dict_schema(cls, consts, len(params))
            owner, fn = T.mro_quantity_method(name, all_defs)
            if owner == name:
                int_attrs = [p for p in params if p in ('storage_in_gib', 'number')]
                info = T.quantity_formula(fn, int_attrs)
                sup = None
                if info['uses_super']:
                    # next concrete definition after the class itself
                    sup = None
                    for b in cls.bases:
                        if isinstance(b, ast.Name):
                            try:
                                sup, _ = T.mro_quantity_method(b.id, all_defs)
                                break
                            except TieBroken:
                                continue
                    if sup is None or sup not in data['mixins']:
                        raise TieBroken(T.NAME, f'{name}: super().to_quantified_resource not resolvable to a mixin of resources.py')
                q = dict(own=True, sup=sup, **info)
            else:
                if owner not in data['mixins']:
                    raise TieBroken(T.NAME, f'{name}: inherits to_quantified_resource from {owner}, which is not a translated mixin')
                q = dict(own=False, mixin=owner)
            classes[name] = dict(TYPE=cc['TYPE'], params=params, attr_of=attr_of, to=entries, alts=alts, q=q)
        disp_fn = next((s for s in tree.body if isinstance(s, ast.FunctionDef) and s.name == dispatch_name), None)
        if disp_fn is None:
            raise TieBroken(T.NAME, f'{dispatch_name} not found')
        disp = T.dispatch_table(disp_fn, classes)
        order = [c for _, c in disp]
        missing = [c for c in classes if c not in order]
        if missing:
            raise TieBroken(T.NAME, f'{dispatch_name} does not dispatch to {missing}')
        # instance config
        ictree = ast.parse(ctx.read_repo(ic_rel))
        icconsts = T.module_constants(ictree)
        cfg_cls = T.class_defs(ictree).get(cfg_name)
        if cfg_cls is None:
            raise TieBroken(T.NAME, f'{cfg_name} not found')
        cparams, cattr_of, centries, list_key = T.to_dict_schema(cfg_cls, icconsts, list_field='resources')
        if list_key is None or cparams[-1] != 'resources':
            raise TieBroken(T.NAME, f'{cfg_name}: resources list is not the last constructor parameter / not serialised')
        calts = T.from_dict_schema(cfg_cls, icconsts, len(cparams), list_param=len(cparams) - 1, list_key=list_key, dispatch=dispatch_name)
        calts = [(g, [x for x in args if x[0] != 'list']) for g, args in calts]
        data['clouds'][cloud] = dict(classes=classes, order=order, dispatch=disp,
                                     cfg=dict(name=cfg_name, params=cparams[:-1], to=centries, alts=calts, list_key=list_key))
    return data


def _q_def(name, attrs, info, sup_name=None, sup_attrs=()):
    params = ''.join(f' (self_{a} : Z)' for a in attrs)
    if info.get('uses_disk'):
        params += ' (disk_sizes : list Z)'
    body = f'Billed {info["expr"]}'
    if info.get('uses_disk'):
        body = f'match azure_disk_size disk_sizes external_storage_in_gib with Some disk_size => {body} | None => Raises end'
    if info.get('uses_super'):
        sup_args = ''.join(f' self_{a}' for a in sup_attrs)
        body = (f'match q_{sup_name}{sup_args} cpu_in_mcpu memory_in_bytes worker_fraction_in_1024ths external_storage_in_gib with\n'
                f'    | Billed super_quantity => {body} | _ => Raises end')
    if info.get('none_if_zero_ext'):
        body = f'if external_storage_in_gib =? 0 then NotBilled else {body}'
    return (f'Definition q_{name}{params} (cpu_in_mcpu memory_in_bytes worker_fraction_in_1024ths external_storage_in_gib : Z) : qres :=\n'
            f'  {body}.\n')


def _render(data, tables):
    out = ['(* GENERATED by harness/props/C13.py from batch/batch/{resources,instance_config}.py and batch/batch/cloud/{gcp,azure}/*.py — do not edit *)',
           'From Coq Require Import ZArith List String.', 'From HailV Require Import Billing.Model Billing.Serial.',
           'Import ListNotations.', 'Open Scope string_scope.', 'Open Scope Z_scope.', '',
           '(* InstanceConfig.quantified_resources *)',
           f'Definition worker_fraction_in_1024ths (cores cpu_in_mcpu : Z) : Z := {data["wf"]}.', '',
           '(* resources.py: the mixins *)']
    for name, m in data['mixins'].items():
        out.append(_q_def(name, m['attrs'], m))
    all_class_names = []
    for cloud, cd in data['clouds'].items():
        out.append(f'(* ---------------------------------------------------------------- {cloud} *)')
        for name in cd['order']:
            c = cd['classes'][name]
            q = c['q']
            if q['own']:
                attrs = [a for a in c['params'] if f'self_{a}' in q['expr']]
                sup_attrs = data['mixins'][q['sup']]['attrs'] if q.get('sup') else ()
                if q.get('sup') and sup_attrs:
                    raise TieBroken(T.NAME, f'{name}: super mixin needs attributes {sup_attrs}')
                out.append(_q_def(name, attrs, q, q.get('sup'), sup_attrs))
                c['q_attrs'] = attrs
                c['q_disk'] = q.get('uses_disk')
            else:
                attrs = data['mixins'][q['mixin']]['attrs']
                out.append(f'Definition q_{name} := q_{q["mixin"]}.\n')
                c['q_attrs'] = attrs
                c['q_disk'] = None
            for a in c['q_attrs']:
                if a not in c['attr_of']:
                    raise TieBroken(T.NAME, f'{name}: quantity uses self.{a}, which is not a constructor field')
            out.append(f'Definition schema_{name} : schema :=\n  {schema_lit(len(c["params"]), c["to"], c["alts"])}.\n')
            all_class_names.append(name)
        out.append(f'Definition {cloud}_classes : classes :=\n  [' + ';\n   '.join(f'({cstr(cd["classes"][n]["TYPE"])}, schema_{n})' for n in cd['order']) + '].\n')
        out.append(f'Definition {cloud}_class_names : list string := [' + '; '.join(cstr(n) for n in cd['order']) + '].\n')
        cfg = cd['cfg']
        out.append(f'Definition schema_{cfg["name"]} : schema :=\n  {schema_lit(len(cfg["params"]), cfg["to"], cfg["alts"])}.\n')
        out.append(f'Definition {cloud}_config_fields : list string := [' + '; '.join(cstr(p) for p in cfg['params']) + '].')
        out.append(f'Definition {cloud}_config_list_key : string := {cstr(cfg["list_key"])}.\n')
        # quantity of a resource given as (class index, fields)
        arms = []
        for i, n in enumerate(cd['order']):
            c = cd['classes'][n]
            args = ''.join(f' (fv_int (nth {c["params"].index(a)} (snd r) dflt))' for a in c['q_attrs'])
            if c['q_disk']:
                args += f' (disk_sizes_of (fv_str (nth {c["params"].index(c["q_disk"])} (snd r) dflt)))'
            arms.append(f'  | {i}%nat => q_{n}{args} cpu mem wf ext')
        out.append(f'Definition {cloud}_q_resource (disk_sizes_of : string -> list Z) (r : resource) (cpu mem wf ext : Z) : qres :=\n'
                   f'  match fst r with\n' + '\n'.join(arms) + '\n  | _ => Raises\n  end.\n')
    out.append('Definition all_class_names : list string := [' + '; '.join(cstr(n) for n in all_class_names) + '].\n')
    # ---- tables
    G, A = tables['gcp'], tables['azure']
    out.append('(* ---------------------------------------------------------------- tables read from the imported modules *)')
    out.append('(* gcp MACHINE_TYPE_TO_PARTS: (machine type, worker type, cores, memory bytes, gpus) *)')
    out.append('Definition gcp_machines : list (string * string * Z * Z * Z) :=\n  [' +
               ';\n   '.join(f'({cstr(n)}, {cstr(wt)}, {c}, {m}, {gp})' for n, fam, wt, c, m, gp in G['machines']) + '].\n')
    out.append('(* gcp pools: (worker type, worker cores, machine type, in MACHINE_TYPE_TO_PARTS, memory per core MiB) *)')
    out.append('Definition gcp_pool_machines : list (string * Z * string * bool * Z) :=\n  [' +
               ';\n   '.join(f'({cstr(wt)}, {c}, {cstr(mt)}, {"true" if ok else "false"}, {mib})' for wt, c, mt, ok, mib in G['pool_machine']) + '].\n')
    out.append('(* gcp_cores_mcpu_to_memory_bytes on every packable core count: (worker type, mcpu, bytes) *)')
    out.append('Definition gcp_job_memory : list (string * Z * Z) :=\n  [' +
               '; '.join(f'({cstr(wt)}, {c}, {b})' for wt, c, b in G['job_memory']) + '].\n')
    out.append('Definition azure_machines : list (string * string * Z * Z) :=\n  [' +
               ';\n   '.join(f'({cstr(n)}, {cstr(fam)}, {c}, {m})' for n, fam, c, m in A['machines']) + '].\n')
    out.append('(* azure pools: (worker type, worker cores, local ssd, machine type, in table, memory per core MiB) *)')
    out.append('Definition azure_pool_machines : list (string * Z * bool * string * bool * Z) :=\n  [' +
               ';\n   '.join(f'({cstr(wt)}, {c}, {"true" if ssd else "false"}, {cstr(mt)}, {"true" if ok else "false"}, {mib})'
                             for wt, c, ssd, mt, ok, mib in A['pool_machine']) + '].\n')
    out.append('Definition azure_job_memory : list (string * Z * Z) :=\n  [' +
               '; '.join(f'({cstr(wt)}, {c}, {b})' for wt, c, b in A['job_memory']) + '].\n')
    out.append('(* azure_disks_by_disk_type: sizes in GiB, ascending *)')
    out.append('Definition azure_disk_sizes : list (string * list Z) :=\n  [' +
               '; '.join(f'({cstr(f)}, [{"; ".join(map(str, s))}])' for f, s in sorted(A['disk_sizes'].items())) + '].\n')
    out.append('Definition azure_disk_sizes_of (family : string) : list Z :=\n'
               '  match find (fun p => String.eqb (fst p) family) azure_disk_sizes with Some p => snd p | None => [] end.\n')
    out.append('(* azure_disk_from_storage_in_gib at the boundary points: (family, request GiB, Some size | None) *)')
    out.append('Definition azure_disk_lookup_samples : list (string * Z * option Z) :=\n  [' +
               '; '.join(f'({cstr(f)}, {g}, {"None" if s is None else f"Some {s}"})' for f, g, s in A['disk_lookup']) + '].\n')
    return '\n'.join(out) + '\n'


def _tables(ctx):
    return ctx.run_impl('c13_billing.py', {'mode': 'tables'}, timeout=120)


def generate(ctx):
    data = _extract(ctx)
    tables = _tables(ctx)
    ctx.c13_data = data
    ctx.c13_tables = tables
    ctx.write_generated('Gen.v', _render(data, tables))


# ------------------------------------------------------------------------------------------------ cases

def _get_tables(ctx):
    if not hasattr(ctx, 'c13_tables'):
        ctx.c13_tables = _tables(ctx)
    return ctx.c13_tables


def _get_data(ctx):
    if not hasattr(ctx, 'c13_data'):
        ctx.c13_data = _extract(ctx)
    return ctx.c13_data


def _is_pow2(n):
    return n > 0 and n & (n - 1) == 0


def _is_packable(mcpu):
    return mcpu >= 250 and mcpu % 250 == 0 and _is_pow2(mcpu // 250)


def _packings(rng, cores, n_random):
    """lists of packable core requests (mcpu) that fit on a worker with `cores` cores"""
    cap = cores * 1000
    out = [[cap], [250] * (cap // 250)]
    half = []
    c = cap // 2
    while c >= 250:
        half.append(c)
        c //= 2
    out.append(half + ([250] if half else []))      # cap/2 + cap/4 + ... + 250 + 250 = cap
    for _ in range(n_random):
        left = cap
        p = []
        while left >= 250 and len(p) < 40:
            ks = [k for k in range(0, 12) if 250 * 2 ** k <= left]
            c = 250 * 2 ** rng.choice(ks)
            p.append(c)
            left -= c
            if rng.random() < 0.1:
                break
        out.append(p)
    return out


MIB = 1024 * 1024

# core counts that are not powers of two (job-private machine shapes of either cloud, present or future) + two large powers of
# two: billed through the real classes with `cores` set by hand, in case the machine tables lose their odd shapes
EXTRA_CORES = [3, 6, 12, 20, 24, 40, 48, 72, 96, 104, 112, 192, 208, 416, 128, 512]


def _general_packings(rng, cores, memory, n_random, heavy=True):
    """sets of jobs (cpu, memory, external disk) of ANY size — not only packable ones — that fit on a worker with `cores` cores
    and `memory` bytes: the whole worker, halves, thirds, one core / 250 mcpu next to the rest, all single cores, all quarter
    cores, random splits.  The memory of a job is its share of the machine's, rounded down to a whole MiB."""
    cap = cores * 1000

    def job(cpu, ext=0):
        return [cpu, memory if cpu == cap else (memory * cpu // cap) // MIB * MIB, ext]

    third = cap // 3
    splits = [[cap], [cap // 2, cap - cap // 2], [third, third, cap - 2 * third], [cap - 250, 250]]
    if cores > 1:
        splits.append([cap - 1000, 1000])
        splits.append([(cores - 1) * 1000])                      # cores-1: leaves a core unused
    if heavy:                                                    # once per (cloud, core count): the formulas read nothing else of the machine
        splits.append([1000] * cores)
        if cap // 250 <= 400:
            splits.append([250] * (cap // 250))
    splits.append([cap // 3])                                    # a lone 1/3-ish job
    for _ in range(n_random):
        left, p = cap, []
        while left > 0 and len(p) < 12:
            cpu = min(left, rng.choice([250, 333, 500, 1000, 1500, rng.randint(1, cap), rng.randint(1, max(1, cap // 4))]))
            p.append(cpu)
            left -= cpu
            if rng.random() < 0.15:
                break
        splits.append(p)
    return [[job(cpu, rng.choice([0, 0, 0, 0, 10, 375])) if len(p) > 1 else job(cpu) for cpu in p] for p in splits]


def _corpus_configs(ctx):
    import glob
    import os
    out = []
    t = _get_tables(ctx)
    shape = {('gcp', x[0]): (x[3], x[4]) for x in t['gcp']['machines']}
    shape.update({('azure', x[0]): (x[2], x[3]) for x in t['azure']['machines']})
    for f in sorted(glob.glob(os.path.join(ctx.verif, 'corpus', ID, '*.json'))):
        doc = json.load(open(f))
        for e in doc.get('configs', []):
            c = dict(e['config'])
            if (c['cloud'], c['machine_type']) not in shape:
                continue          # a machine type the current tables do not have
            cores, memory = shape[(c['cloud'], c['machine_type'])]
            cap = c.get('cores_override', cores) * 1000
            c.setdefault('missing_products', [])
            # a job's memory given as null = its share of the machine's memory (all of it for the all-cores job), in whole MiB
            c['jobs'] = [[j[0], (memory if j[0] == cap else memory * j[0] // cap // MIB * MIB) if j[1] is None else j[1], j[2]]
                         for j in e['jobs']]
            c['packings'] = [list(range(len(c['jobs'])))]
            out.append(c)
    return out


def _configs(ctx, n_random_packings, general=False):
    """general=True (the oracle): job-private configurations additionally carry jobs of any size (_general_packings), every
    EXTRA_CORES count is billed through a job-private configuration of each cloud, and the corpus comes first"""
    t = _get_tables(ctx)
    rng = ctx.rng
    full = ctx.thorough
    cfgs = _corpus_configs(ctx) if general else []
    heavy_seen = set()
    job_mem = {('gcp', wt, c): b for wt, c, b in t['gcp']['job_memory']}
    job_mem.update({('azure', wt, c): b for wt, c, b in t['azure']['job_memory']})
    pool_mt = {('gcp', mt): wt for wt, c, mt, ok, mib in t['gcp']['pool_machine'] if ok}
    pool_mt.update({('azure', mt): wt for wt, c, ssd, mt, ok, mib in t['azure']['pool_machine'] if ok})

    def add(cloud, mt, cores, memory, preemptible, ssd, data, boot, job_private, location, missing=(), cores_override=None):
        jobs = []
        packs = []
        if not job_private and _is_pow2(cores) and cores <= 256 and (cloud, mt) in pool_mt:
            wt = pool_mt[(cloud, mt)]
            for p in _packings(rng, cores, n_random_packings):
                exts = [rng.choice([0, 0, 0, 10, 11, 20, 375, 1024, 5000]) for _ in p]
                packs.append(list(range(len(jobs), len(jobs) + len(p))))
                for c, e in zip(p, exts):
                    jobs.append([c, job_mem[(cloud, wt, c)], e])
        else:
            jobs.append([cores * 1000, memory, 0])
            if job_private:
                packs.append([0])
                if general:
                    heavy = (cloud, cores) not in heavy_seen
                    heavy_seen.add((cloud, cores))
                    for p in _general_packings(rng, cores, memory, n_random_packings if heavy else max(1, n_random_packings // 4), heavy)[1:]:
                        packs.append(list(range(len(jobs), len(jobs) + len(p))))
                        jobs.extend(p)
        cfg = dict(cloud=cloud, machine_type=mt, preemptible=preemptible, local_ssd_data_disk=ssd, data_disk_size_gb=data,
                   boot_disk_size_gb=boot, job_private=job_private, location=location, missing_products=list(missing),
                   jobs=jobs, packings=packs)
        if cores_override is not None:
            cfg['cores_override'] = cores_override
        cfgs.append(cfg)

    for n, fam, wt, c, m, gp in t['gcp']['machines']:
        combos = [(True, False, 100, 10, False), (False, True, 375, 10, True)]
        if full:
            combos += [(True, True, 375, 20, False), (False, False, 3000, 100, False), (True, False, 10, 10, True)]
        for pre, ssd, data, boot, jp in combos:
            add('gcp', n, c, m, pre, ssd, data, boot, jp, rng.choice(['us-central1-a', 'australia-southeast1-b']))
    add('gcp', 'n1-standard-8', 8, 8 * 3840 * 2 ** 20, True, False, 100, 10, False, 'us-central1-a',
        missing=['disk/pd-ssd/us-central1', 'compute/n1-preemptible/us-central1', 'memory/n1-preemptible/us-central1'])
    for n, fam, c, m in t['azure']['machines']:
        combos = [(True, False, 100, 30, False), (False, True, 0, 10, True)]
        if full:
            combos += [(True, True, 0, 128, False), (False, False, 4000, 200, False)]
        for pre, ssd, data, boot, jp in combos:
            add('azure', n, c, m, pre, ssd, data, boot, jp, rng.choice(['eastus', 'westeurope']))
    if general:
        # every core count of the tables is covered above through its own machine types; the explicit list rides on one plain and
        # one accelerator machine of gcp and one azure machine (the quantity formulas read only `cores` and the resources)
        in_tables = {c for _, _, _, c, _, _ in t['gcp']['machines']} | {c for _, _, c, _ in t['azure']['machines']}
        bases = []
        gm = t['gcp']['machines']
        plain = next((x for x in gm if x[5] == 0), None)
        gpu = max((x for x in gm if x[5] > 0), key=lambda x: x[5], default=None)
        bases += [('gcp', x[0], x[4]) for x in (plain, gpu) if x is not None]
        if t['azure']['machines']:
            x = t['azure']['machines'][0]
            bases.append(('azure', x[0], x[3]))
        for k in EXTRA_CORES:
            for cloud, mt, m in (bases if k not in in_tables or full else bases[:1]):
                add(cloud, mt, k, m, False, True, 375 if cloud == 'gcp' else 0, 10, True,
                    'us-central1-a' if cloud == 'gcp' else 'eastus', cores_override=k)
    return cfgs


def _run_bill(ctx, cfgs):
    """every job is billed with its external disk and, separately, without (worker resources only)"""
    send = []
    for c in cfgs:
        d = {k: v for k, v in c.items() if k != 'packings'}
        d['jobs'] = c['jobs'] + [[j[0], j[1], 0] for j in c['jobs']]
        send.append(d)
    res = []
    for i in range(0, len(send), 200):
        res += ctx.run_impl('c13_billing.py', {'mode': 'bill', 'configs': send[i:i + 200]}, timeout=600)['results']
    for r in res:
        if r.get('billed_reloaded') == 'same':
            r['billed_reloaded'] = r['billed']
    return res


# ------------------------------------------------------------------------------------------------ X: correspondence

HEADER = ('From HailV Require Import Common.Prelude Billing.Model Billing.Serial Billing.GenLemmas.\n'
          'From Coq Require Import String.\nFrom HailG Require C13.Gen.\nOpen Scope string_scope. Open Scope Z_scope.\n'
          'Definition bills (c : cloud) (cores : Z) (rs : list resource) (js : list job) := map (fun j => map (fun r => billed_for c cores r j) rs) js.\n')


def _res_lit(data, cloud, res):
    order = data['clouds'][cloud]['order']
    out = []
    for cls, fields in res:
        if cls not in order:
            raise TieBroken('C13-correspondence', f'real object of class {cls} unknown to the extracted dispatch table')
        out.append(f'({order.index(cls)}%nat, {listlit([fv_lit(f) for f in fields])})')
    return listlit(out)


def _model_dict(v):
    """parsed Coq dict value [(k, FInt 3); ...] -> python dict"""
    out = {}
    for k, x in v:
        tag, val = x if isinstance(x, tuple) else (x, None)
        if tag == 'FMap':
            out[k] = {a: b for a, b in val}
        else:
            out[k] = val
    return out


def correspond(ctx):
    data = _get_data(ctx)
    cfgs = _configs(ctx, ctx.scale(2, 8))
    res = _run_bill(ctx, cfgs)
    exprs, idx = [], []
    dis = []
    hist = {'created': 0, 'create_failed': 0}
    for k, (c, r) in enumerate(zip(cfgs, res)):
        if r['create'] != 'ok':
            hist['create_failed'] += 1
            continue
        hist['created'] += 1
        cl = 'GCP' if c['cloud'] == 'gcp' else 'Azure'
        rs = _res_lit(data, c['cloud'], r['resources'])
        jobs = r['jobs'] + [[r['cores'] * 1000, r['memory'], 0]]
        js = listlit([f'({zlit(j[0])}, {zlit(j[1])}, {zlit(j[2])})' for j in jobs])
        exprs.append(f'bills {cl} {r["cores"]} {rs} {js}')
        idx.append(('bills', k))
        scal = listlit([fv_lit(f) for f in r['scalar_fields']])
        exprs.append(f'cfg_to_dict (cloud_schema {cl}) (cloud_classes {cl}) ({scal}, {rs})')
        idx.append(('to_dict', k))
        exprs.append(f'cfg_from_dict (cloud_schema {cl}) (cloud_classes {cl}) (cfg_to_dict (cloud_schema {cl}) (cloud_classes {cl}) ({scal}, {rs}))')
        idx.append(('roundtrip', k))
    vals = coq_eval(ctx, HEADER, exprs, shard=40)
    n_eval = 0
    distinct = set()
    for (kind, k), v in zip(idx, vals):
        c, r = cfgs[k], res[k]
        if kind == 'bills':
            impl_all = r['billed'] + [r['whole']]
            for j, (mrow, irow) in enumerate(zip(v, impl_all)):
                n_eval += 1
                if irow == 'AssertionError' and not c['job_private'] and not (_is_pow2(r['cores']) and r['cores'] <= 256):
                    continue      # the power-of-two assertion of quantified_resources (pool workers), not part of the model
                m = [x[1] for x in mrow if isinstance(x, tuple) and x[0] == 'Billed']
                if any(x == 'Raises' for x in mrow):
                    m = 'AssertionError'
                i = irow if isinstance(irow, str) else [q for _, q in irow]
                if m != i:
                    jobs = r['jobs'] + [[r['cores'] * 1000, r['memory'], 0]]
                    dis.append(Disagreement('Gen.billed_for~InstanceConfig.quantified_resources',
                                            {'config': {a: b for a, b in c.items() if a not in ('jobs', 'packings')}, 'job': jobs[j]}, m, i))
                distinct.add((c['cloud'], c['machine_type'], c['local_ssd_data_disk'], tuple((r['jobs'] + [[0, 0, 0]])[j])))
        elif kind == 'to_dict':
            n_eval += 1
            scal, rlist = v
            md = _model_dict(scal)
            md[data['clouds'][c['cloud']]['cfg']['list_key']] = [_model_dict(x) for x in rlist]
            if md != r['to_dict']:
                dis.append(Disagreement('Serial.cfg_to_dict~InstanceConfig.to_dict', {a: b for a, b in c.items() if a not in ('jobs', 'packings')},
                                        md, r['to_dict']))
        else:
            n_eval += 1
            ok_model = isinstance(v, tuple) and v[0] == 'Some'
            ok_impl = r['reload'] == 'ok' and r.get('to_dict_again') == r['to_dict']
            if ok_model != ok_impl:
                dis.append(Disagreement('Serial.cfg_from_dict~InstanceConfig.from_dict', {a: b for a, b in c.items() if a not in ('jobs', 'packings')},
                                        'reloads' if ok_model else 'fails', r['reload']))
    sample = next((dict(config={a: b for a, b in c.items() if a not in ('jobs', 'packings')}, first_job=r['jobs'][0], billed=r['billed'][0])
                   for c, r in zip(cfgs, res) if r['create'] == 'ok'), None)
    return Corr(evaluations=n_eval, distinct_nontrivial=len(distinct),
                rule='(cloud, machine type, disk option, job): every machine type of both clouds x disk / preemptible / job-private options x '
                     'packings of packable core requests (+ random ones); real create()/quantified_resources/to_dict/from_dict vs the generated '
                     'Gallina definitions under vm_compute: every billed quantity, the serialised dict and whether it reloads',
                samples=[sample] if sample else [], disagreements=dis, histograms={'configs': hist}, exhaustive=False,
                names=['Gen.billed_for~InstanceConfig.quantified_resources', 'Serial.cfg_to_dict~InstanceConfig.to_dict',
                       'Serial.cfg_from_dict~InstanceConfig.from_dict'])


# ------------------------------------------------------------------------------------------------ oracle

def _cfg_key(c):
    return {a: b for a, b in c.items() if a not in ('jobs', 'packings')}


# how each resource class is billed (mirror of GenLemmas.kind_of_class, which the lemma classes_covered ties to the classes the
# extractor finds): 'disk' GiB x 1024ths, 'frac' 1024ths, 'accel' count x 1024ths, 'cpu' millicores, 'mem' MiB, 'ext' the job's own disk
KIND_OF_CLASS = {
    'GCPStaticSizedDiskResource': 'disk', 'GCPLocalSSDStaticSizedDiskResource': 'disk', 'AzureStaticSizedDiskResource': 'disk',
    'GCPDynamicSizedDiskResource': 'ext', 'AzureDynamicSizedDiskResource': 'ext',
    'GCPComputeResource': 'cpu', 'GCPServiceFeeResource': 'cpu', 'AzureServiceFeeResource': 'cpu', 'GCPSupportLogsSpecsAndFirewallFees': 'cpu',
    'GCPMemoryResource': 'mem', 'GCPAcceleratorResource': 'accel', 'GCPIPFeeResource': 'frac', 'AzureIPFeeResource': 'frac',
    'AzureVMResource': 'frac'}


def _instance_resources(r):
    """the ACTUAL resources of the instance, from the resource objects themselves (never through quantified_resources), in the
    order quantified_resources lists them for a job without external disk: [(name, kind, unit, full amount)], where a job holding
    wf 1024ths is billed unit x wf of the 'disk'/'frac'/'accel' kinds and the whole instance is `full` (the right-hand side of
    C13_whole_is_whole).  None when a resource class is unknown (the translator and classes_covered fail closed on that)."""
    out = []
    for cls, name, attrs in r.get('res_info') or []:
        kind = KIND_OF_CLASS.get(cls)
        if kind is None:
            return None
        if kind == 'ext':
            continue
        if kind == 'disk' or kind == 'accel':
            unit = attrs.get('storage_in_gib' if kind == 'disk' else 'number')
            if not isinstance(unit, int) or unit < 0:
                return None
            out.append((name, kind, unit, unit * 1024))
        elif kind == 'frac':
            out.append((name, kind, 1, 1024))
        elif kind == 'cpu':
            out.append((name, kind, None, r['cores'] * 1000))
        else:
            out.append((name, kind, None, r['memory'] // MIB))
    return out


def _check_config(c, r, strict=True):
    """the property's clauses on the real classes' output for one configuration; returns list of (key, what, case, expected, observed).
    The property TEXT bounds the billing from above (packed <= whole) and fixes the all-cores job (= the whole worker); the two clauses
    `job-underbilled` and `full-pool-worker-underbilled` are the run-time forms of the PROVED theorems C13_job_share_floor /
    C13_pool_exact_packing about the code as it is, i.e. more than the text demands: they are evaluated only with strict=True, which the
    oracle sets when a proof obligation or the tie is already broken (to turn the broken theorem into a concrete input) and replay always."""
    out = []
    ck = _cfg_key(c)
    if r['create'] != 'ok':
        return out       # a configuration the code itself refuses to create
    n = len(c['jobs'])
    billed_ext, billed_0 = r['billed'][:n], r['billed'][n:]
    whole = r['whole']
    pool_ok = c['job_private'] or (_is_pow2(r['cores']) and r['cores'] <= 256)
    if not pool_ok:
        return out       # quantified_resources asserts on this pool worker: nothing is billed at all
    if isinstance(whole, str):
        return [('whole-raises', f'quantified_resources of the whole worker raised {whole}', {'config': ck}, 'quantities', whole)]
    cap = r['cores'] * 1000
    whole_job = [cap, r['memory'], 0]
    inst = _instance_resources(r)
    if inst is not None and [nm for nm, _ in whole] != [nm for nm, _, _, _ in inst]:
        out.append(('different-resources', 'the whole worker is billed other resources than the instance has', {'config': ck, 'job': whole_job},
                    [nm for nm, _, _, _ in inst], [nm for nm, _ in whole]))
        inst = None
    if inst is not None:
        # whole = whole, against the instance's ACTUAL resources in exact integers (C13_whole_is_whole): all of every disk, all the
        # millicores, 1024/1024 of the vm / ip fee, every accelerator, all the MiB — for every machine shape, power of two or not
        for (nm, wq), (_, kind, unit, full) in zip(whole, inst):
            if wq != full:
                under = wq < full
                out.append(('whole-worker-underbilled' if under else 'whole-worker-overbilled',
                            f'a job using the whole worker ({r["cores"]} cores) is billed {wq} of {nm} ({kind}); the instance has {full}',
                            {'config': ck, 'job': whole_job, 'resource': nm}, full, wq))
                break
    # serialisation
    if r['reload'] != 'ok':
        out.append(('reload-fails', f'from_dict(to_dict(cfg)) raised {r["reload"]}', {'config': ck, 'to_dict': r['to_dict']}, 'a configuration', r['reload']))
    else:
        if r['whole_reloaded'] != whole or r['billed_reloaded'] != r['billed'] or r['cores2'] != r['cores'] or r['memory2'] != r['memory']:
            bad = next((j for j, (a, b) in enumerate(zip(r['billed'], r['billed_reloaded'] or [])) if a != b), None)
            out.append(('reload-bills-differently', 'the reloaded configuration bills different quantities',
                        {'config': ck, 'job': None if bad is None else (c['jobs'] + c['jobs'])[bad]},
                        whole if bad is None else r['billed'][bad], r['whole_reloaded'] if bad is None else r['billed_reloaded'][bad]))
        if r['to_dict_again'] != r['to_dict']:
            out.append(('reload-not-identical', 'to_dict(from_dict(to_dict(cfg))) differs from to_dict(cfg)', {'config': ck}, r['to_dict'], r['to_dict_again']))
    for j, (be, b0) in enumerate(zip(billed_ext, billed_0)):
        job = c['jobs'][j]
        if isinstance(b0, str) or isinstance(be, str):
            out.append(('job-raises', f'quantified_resources raised for a valid job', {'config': ck, 'job': job}, 'quantities', be if isinstance(be, str) else b0))
            continue
        if [nm for nm, _ in b0] != [nm for nm, _ in whole]:
            out.append(('different-resources', 'a job without external disk is billed other resources than the whole worker', {'config': ck, 'job': job},
                        [nm for nm, _ in whole], [nm for nm, _ in b0]))
            continue
        if strict and inst is not None and 0 <= job[0] < cap:      # (the all-cores job: whole-worker-underbilled above)
            # no under-billing (C13_job_share_floor): the 1024ths billed are the job's exact share 1024*cpu/(cores*1000) rounded DOWN —
            # a whole 1024th or more below the share (or fewer millicores / MiB than the job has) is billed to nobody
            for (nm, q), (_, kind, unit, full) in zip(b0, inst):
                if kind in ('disk', 'frac', 'accel'):
                    bad = (q + unit) * cap <= unit * 1024 * job[0] if unit > 0 else q < 0
                    want = f'> {unit} * (1024 * {job[0]} / {cap} - 1), i.e. >= {unit * (1024 * job[0] // cap)}'
                elif kind == 'cpu':
                    bad, want = q < job[0], f'>= {job[0]}'
                else:
                    bad, want = q < job[1] // MIB, f'>= {job[1] // MIB}'
                if bad:
                    out.append(('job-underbilled', f'a job with {job[0]} of the {cap} mcpu of the worker is billed {q} of {nm} ({kind}): '
                                                   'less than its share rounded down to a 1024th of the worker',
                                {'config': ck, 'job': job, 'resource': nm}, want, q))
                    break
        # external disk: exactly one extra entry when ext > 0, none otherwise, worth at least the request
        extra = list(be)
        for e in b0:
            if e in extra:
                extra.remove(e)
        if job[2] == 0 and (extra or be != b0):
            out.append(('external-disk-without-request', 'a job without external disk is billed one', {'config': ck, 'job': job}, b0, be))
        if job[2] > 0 and (len(extra) != 1 or len(be) != len(b0) + 1 or extra[0][1] < job[2] * 1024):
            out.append(('external-disk-wrong', 'external disk not billed as exactly one entry of at least the requested MiB', {'config': ck, 'job': job},
                        f'one entry >= {job[2] * 1024}', extra))
    # packed <= whole, position by position
    for p in c['packings']:
        rows = [billed_0[j] for j in p]
        if any(isinstance(x, str) or len(x) != len(whole) for x in rows):
            continue
        for pos, (nm, wq) in enumerate(whole):
            s = sum(row[pos][1] for row in rows)
            if s > wq:
                out.append(('packed-exceeds-whole', f'jobs packed on one worker are billed {s} of {nm}, the whole worker {wq}',
                            {'config': ck, 'jobs': [c['jobs'][j] for j in p]}, f'<= {wq}', s))
                break
        total_cpu = sum(c['jobs'][j][0] for j in p)
        total_mem = sum(c['jobs'][j][1] for j in p)
        if inst is not None and total_cpu <= cap and total_mem <= r['memory']:
            # ... and never more than the instance actually HAS (the whole worker of C13_whole_is_whole), whatever
            # quantified_resources makes of the all-cores job
            for pos, (nm, kind, unit, full) in enumerate(inst):
                s = sum(row[pos][1] for row in rows)
                if s > full:
                    out.append(('packed-exceeds-instance', f'jobs packed on one worker are billed {s} of {nm}, the instance has {full}',
                                {'config': ck, 'jobs': [c['jobs'][j] for j in p], 'resource': nm}, f'<= {full}', s))
                    break
                # a pool worker packed EXACTLY with packable requests is billed in full (C13_pool_exact_packing)
                if strict and not c['job_private'] and total_cpu == cap and s < full and all(_is_packable(c['jobs'][j][0]) for j in p) \
                        and (kind != 'mem' or total_mem == r['memory']):
                    out.append(('full-pool-worker-underbilled', f'packable jobs filling all {r["cores"]} cores of a pool worker are billed {s} of {nm}, '
                                                                f'the instance has {full}: the rest is billed to nobody',
                                {'config': ck, 'jobs': [c['jobs'][j] for j in p], 'resource': nm}, full, s))
                    break
        if len(p) == 1 and total_cpu == r['cores'] * 1000 and c['jobs'][p[0]][1] == r['memory'] and rows[0] != whole:
            out.append(('whole-not-whole', 'a job using the whole worker is not billed exactly the whole worker',
                        {'config': ck, 'job': c['jobs'][p[0]]}, whole, rows[0]))
        if len(p) == 1 and total_cpu == r['cores'] * 1000 and c['jobs'][p[0]][1] != r['memory']:
            out.append(('whole-job-memory', 'the job asking for all cores does not get the whole memory of the machine',
                        {'config': ck, 'job': c['jobs'][p[0]]}, r['memory'], c['jobs'][p[0]][1]))
    return out


def oracle(ctx, budget):
    cfgs = _configs(ctx, ctx.scale(4, 16) * budget, general=True)
    res = _run_bill(ctx, cfgs)
    fails = []
    n = 0
    distinct = set()
    cores_hist = {}
    unclassified = 0
    for c, r in zip(cfgs, res):
        n += len(c['jobs']) * 2 + 3
        for p in c['packings']:
            distinct.add((c['cloud'], c['machine_type'], c.get('cores_override'), c['local_ssd_data_disk'], c['job_private'],
                          tuple(c['jobs'][j][0] for j in p)))
        if r['create'] == 'ok':
            k = ('pow2:' if _is_pow2(r['cores']) else 'other:') + str(r['cores'])
            cores_hist[k] = cores_hist.get(k, 0) + 1
            if _instance_resources(r) is None:
                unclassified += 1
        for key, what, case, exp, obs in _check_config(c, r, strict=budget > 1):
            fails.append(Failure(key, what, case, exp, obs))
    return fails, {'evaluations': n, 'distinct_nontrivial': len(distinct),
                   'rule': 'oracle: per configuration of the real classes (every machine type of both tables, job-private ones with jobs of any '
                           'size, + explicit odd core counts) — the all-cores job = the instance\'s actual resources in exact integers, packed <= '
                           'whole and <= the instance position by position, no job billed a whole 1024th below its share, full pool workers '
                           'billed in full, external disk billed per job only, from_dict(to_dict) reloads and bills identically (json.dumps/loads)',
                   'histograms': {'oracle_configs': {'n': len(cfgs), 'resource_class_unknown': unclassified}, 'oracle_worker_cores': cores_hist}}


def replay(ctx, doc):
    case = doc.get('case') or {}
    cfg = dict(case.get('config') or {})
    jobs = case.get('jobs') or ([case['job']] if case.get('job') else [])
    if not cfg:
        return {'note': 'stored case has no configuration', 'case': case}
    cfg['jobs'] = [list(j) for j in jobs]
    cfg['packings'] = [list(range(len(jobs)))] if jobs else []
    r = _run_bill(ctx, [cfg])[0]
    return {'config': _cfg_key(cfg), 'jobs': jobs, 'create': r['create'], 'cores': r.get('cores'), 'memory': r.get('memory'),
            'instance_resources': r.get('res_info'), 'reload': r.get('reload'), 'billed': r.get('billed'),
            'billed_reloaded': r.get('billed_reloaded'), 'whole': r.get('whole'), 'whole_reloaded': r.get('whole_reloaded'),
            'violations': [dict(key=k, what=w, expected=e, observed=o) for k, w, _, e, o in _check_config(cfg, r)]}
