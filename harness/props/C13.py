"""C13 — job billing never exceeds the instance and survives serialisation.

Tie: T + X.
  T  coq/generated/C13/Gen.v is regenerated on every run from
       batch/batch/resources.py, batch/batch/instance_config.py (quantity formulas, worker fraction) and
       batch/batch/cloud/{gcp,azure}/{resources,instance_config}.py (to_dict / from_dict *schemas*, the dispatch
       functions, per-class quantity overrides) by the fail-closed AST extractor harness/translate/c13_schema.py,
     plus the machine / memory-per-core / azure disk tables read from the imported gcp/azure resource_utils modules.
     Billing/GenLemmas.v proves the generated formulas equal to the hand model, runs the (proved sound) round-trip
     checker on the generated schemas and closes the finite table obligations by vm_compute.
  X  the real GCPSlimInstanceConfig / AzureSlimInstanceConfig (create -> to_dict -> JSON -> from_dict ->
     quantified_resources) against the generated definitions, for every machine type x disk option x packing.
"""
import ast
import json

from harness.core import Corr, Disagreement, Failure, TieBroken, coq_eval, zlit, listlit
from harness.translate import c13_schema as T

ID = 'C13'
SRC_RES = 'batch/batch/resources.py'
SRC_IC = 'batch/batch/instance_config.py'
SRC_CLOUD = {'gcp': ('batch/batch/cloud/gcp/resources.py', 'batch/batch/cloud/gcp/instance_config.py', 'gcp_resource_from_dict', 'GCPSlimInstanceConfig'),
             'azure': ('batch/batch/cloud/azure/resources.py', 'batch/batch/cloud/azure/instance_config.py', 'azure_resource_from_dict', 'AzureSlimInstanceConfig')}
COQ_PROPS = 'theories/Billing/Props_C13.v'
READY = False
META = dict(
    design_ref='§5.B C13',
    technique='Coq proofs about billing-quantity formulas and serialisation schemas regenerated from the Python classes (fail-closed AST '
              'extractor) + finite machine tables read from the imported modules; proved-sound symbolic round-trip checker; '
              'differential run of the real instance-config classes',
    level_text='',
    level_note='',
    partial=False,
)
TRUSTED = ['extractor harness/translate/c13_schema.py (Python class bodies -> quantity formulas and to_dict/from_dict schemas), smoke-tested '
           'against the real classes on every run',
           'loader (stubbed third-party packages); ProductVersions replaced by a table in which every product has version 1']
ASSUMPTIONS = []


# ------------------------------------------------------------------------------------------------ rendering helpers

def cstr(s):
    assert '"' not in s
    return '"' + s + '"'


def fv_lit(v):
    if isinstance(v, bool):
        return f'(FBool {"true" if v else "false"})'
    if isinstance(v, int):
        return f'(FInt {zlit(v)})'
    if isinstance(v, str):
        return f'(FStr {cstr(v)})'
    if isinstance(v, dict):
        return '(FMap [' + '; '.join(f'({cstr(k)}, {cstr(x)})' for k, x in v.items()) + '])'
    raise TieBroken(T.NAME, f'unsupported field value {v!r}')


def schema_lit(arity, to_entries, alts):
    def t(e):
        return f'TField {e[1]}' if e[0] == 'field' else f'TConst {fv_lit(e[1])}'

    def a(e):
        return f'ALookup {cstr(e[1])}' if e[0] == 'lookup' else f'AConst {fv_lit(e[1])}'
    to_s = '; '.join(f'({cstr(k)}, {t(e)})' for k, e in to_entries)
    alts_s = ';\n      '.join('mkAlt [' + '; '.join(f'({cstr(k)}, {fv_lit(c)})' for k, c in g) + '] [' + '; '.join(a(x) for x in args) + ']'
                              for g, args in alts)
    return f'mkSchema {arity} [{to_s}]\n     [{alts_s}]'


# ------------------------------------------------------------------------------------------------ T: generate

def _extract(ctx):
    """everything the generated file is made of, as plain data (also used by correspond for class indices)"""
    res_tree = ast.parse(ctx.read_repo(SRC_RES))
    ic_tree = ast.parse(ctx.read_repo(SRC_IC))
    base_classes = T.class_defs(res_tree)
    ic_cls = T.class_defs(ic_tree).get('InstanceConfig')
    if ic_cls is None or T.method(ic_cls, 'quantified_resources') is None:
        raise TieBroken(T.NAME, 'InstanceConfig.quantified_resources not found')
    data = {'wf': T.worker_fraction_expr(T.method(ic_cls, 'quantified_resources')), 'mixins': {}, 'clouds': {}}
    # mixins of resources.py
    for name, cls in base_classes.items():
        fn = T.method(cls, 'to_quantified_resource')
        if fn is None:
            continue
        body = [s for s in fn.body if not T._is_docstring(s)]
        if len(body) == 1 and isinstance(body[0], ast.Raise):
            continue
        attrs = [s.target.id for s in cls.body if isinstance(s, ast.AnnAssign) and isinstance(s.target, ast.Name)
                 and ast.unparse(s.annotation) == 'int']
        info = T.quantity_formula(fn, attrs)
        if info['uses_super'] or info['uses_disk']:
            raise TieBroken(T.NAME, f'{name}: unexpected super()/disk use in a mixin')
        data['mixins'][name] = dict(attrs=[a for a in attrs if f'self_{a}' in info['expr']], **info)
    for cloud, (res_rel, ic_rel, dispatch_name, cfg_name) in SRC_CLOUD.items():
        tree = ast.parse(ctx.read_repo(res_rel))
        consts = T.module_constants(tree)
        cdefs = T.class_defs(tree)
        all_defs = dict(base_classes)
        all_defs.update(cdefs)
        classes = {}
        for name, cls in cdefs.items():
            cc = T.class_constants(cls)
            if 'TYPE' not in cc:
                continue      # abstract cloud base class (GCPResource / AzureResource)
            params, attr_of, entries, _ = T.to_dict_schema(cls, consts)
            alts = T.from_dict_schema(cls, consts, len(params))
            owner, fn = T.mro_quantity_method(name, all_defs)
            if owner == name:
                int_attrs = [p for p in params if p in ('storage_in_gib', 'number')]
                info = T.quantity_formula(fn, int_attrs)
                sup = None
                if info['uses_super']:
                    # next concrete definition after the class itself
                    sup = None
                    for b in cls.bases:
                        if isinstance(b, ast.Name):
                            try:
                                sup, _ = T.mro_quantity_method(b.id, all_defs)
                                break
                            except TieBroken:
                                continue
                    if sup is None or sup not in data['mixins']:
                        raise TieBroken(T.NAME, f'{name}: super().to_quantified_resource not resolvable to a mixin of resources.py')
                q = dict(own=True, sup=sup, **info)
            else:
                if owner not in data['mixins']:
                    raise TieBroken(T.NAME, f'{name}: inherits to_quantified_resource from {owner}, which is not a translated mixin')
                q = dict(own=False, mixin=owner)
            classes[name] = dict(TYPE=cc['TYPE'], params=params, attr_of=attr_of, to=entries, alts=alts, q=q)
        disp_fn = next((s for s in tree.body if isinstance(s, ast.FunctionDef) and s.name == dispatch_name), None)
        if disp_fn is None:
            raise TieBroken(T.NAME, f'{dispatch_name} not found')
        disp = T.dispatch_table(disp_fn, classes)
        order = [c for _, c in disp]
        missing = [c for c in classes if c not in order]
        if missing:
            raise TieBroken(T.NAME, f'{dispatch_name} does not dispatch to {missing}')
        # instance config
        ictree = ast.parse(ctx.read_repo(ic_rel))
        icconsts = T.module_constants(ictree)
        cfg_cls = T.class_defs(ictree).get(cfg_name)
        if cfg_cls is None:
            raise TieBroken(T.NAME, f'{cfg_name} not found')
        cparams, cattr_of, centries, list_key = T.to_dict_schema(cfg_cls, icconsts, list_field='resources')
        if list_key is None or cparams[-1] != 'resources':
            raise TieBroken(T.NAME, f'{cfg_name}: resources list is not the last constructor parameter / not serialised')
        calts = T.from_dict_schema(cfg_cls, icconsts, len(cparams), list_param=len(cparams) - 1, list_key=list_key, dispatch=dispatch_name)
        calts = [(g, [x for x in args if x[0] != 'list']) for g, args in calts]
        data['clouds'][cloud] = dict(classes=classes, order=order, dispatch=disp,
                                     cfg=dict(name=cfg_name, params=cparams[:-1], to=centries, alts=calts, list_key=list_key))
    return data


def _q_def(name, attrs, info, sup_name=None, sup_attrs=()):
    params = ''.join(f' (self_{a} : Z)' for a in attrs)
    if info.get('uses_disk'):
        params += ' (disk_sizes : list Z)'
    body = f'Billed {info["expr"]}'
    if info.get('uses_disk'):
        body = f'match azure_disk_size disk_sizes external_storage_in_gib with Some disk_size => {body} | None => Raises end'
    if info.get('uses_super'):
        sup_args = ''.join(f' self_{a}' for a in sup_attrs)
        body = (f'match q_{sup_name}{sup_args} cpu_in_mcpu memory_in_bytes worker_fraction_in_1024ths external_storage_in_gib with\n'
                f'    | Billed super_quantity => {body} | _ => Raises end')
    if info.get('none_if_zero_ext'):
        body = f'if external_storage_in_gib =? 0 then NotBilled else {body}'
    return (f'Definition q_{name}{params} (cpu_in_mcpu memory_in_bytes worker_fraction_in_1024ths external_storage_in_gib : Z) : qres :=\n'
            f'  {body}.\n')


def _render(data, tables):
    out = ['(* GENERATED by harness/props/C13.py from batch/batch/{resources,instance_config}.py and batch/batch/cloud/{gcp,azure}/*.py — do not edit *)',
           'From Coq Require Import ZArith List String.', 'From HailV Require Import Billing.Model Billing.Serial.',
           'Import ListNotations.', 'Open Scope string_scope.', 'Open Scope Z_scope.', '',
           '(* InstanceConfig.quantified_resources *)',
           f'Definition worker_fraction_in_1024ths (cores cpu_in_mcpu : Z) : Z := {data["wf"]}.', '',
           '(* resources.py: the mixins *)']
    for name, m in data['mixins'].items():
        out.append(_q_def(name, m['attrs'], m))
    all_class_names = []
    for cloud, cd in data['clouds'].items():
        out.append(f'(* ---------------------------------------------------------------- {cloud} *)')
        for name in cd['order']:
            c = cd['classes'][name]
            q = c['q']
            if q['own']:
                attrs = [a for a in c['params'] if f'self_{a}' in q['expr']]
                sup_attrs = data['mixins'][q['sup']]['attrs'] if q.get('sup') else ()
                if q.get('sup') and sup_attrs:
                    raise TieBroken(T.NAME, f'{name}: super mixin needs attributes {sup_attrs}')
                out.append(_q_def(name, attrs, q, q.get('sup'), sup_attrs))
                c['q_attrs'] = attrs
                c['q_disk'] = q.get('uses_disk')
            else:
                attrs = data['mixins'][q['mixin']]['attrs']
                out.append(f'Definition q_{name} := q_{q["mixin"]}.\n')
                c['q_attrs'] = attrs
                c['q_disk'] = None
            for a in c['q_attrs']:
                if a not in c['attr_of']:
                    raise TieBroken(T.NAME, f'{name}: quantity uses self.{a}, which is not a constructor field')
            out.append(f'Definition schema_{name} : schema :=\n  {schema_lit(len(c["params"]), c["to"], c["alts"])}.\n')
            all_class_names.append(name)
        out.append(f'Definition {cloud}_classes : classes :=\n  [' + ';\n   '.join(f'({cstr(cd["classes"][n]["TYPE"])}, schema_{n})' for n in cd['order']) + '].\n')
        out.append(f'Definition {cloud}_class_names : list string := [' + '; '.join(cstr(n) for n in cd['order']) + '].\n')
        cfg = cd['cfg']
        out.append(f'Definition schema_{cfg["name"]} : schema :=\n  {schema_lit(len(cfg["params"]), cfg["to"], cfg["alts"])}.\n')
        out.append(f'Definition {cloud}_config_fields : list string := [' + '; '.join(cstr(p) for p in cfg['params']) + '].')
        out.append(f'Definition {cloud}_config_list_key : string := {cstr(cfg["list_key"])}.\n')
        # quantity of a resource given as (class index, fields)
        arms = []
        for i, n in enumerate(cd['order']):
            c = cd['classes'][n]
            args = ''.join(f' (fv_int (nth {c["params"].index(a)} (snd r) dflt))' for a in c['q_attrs'])
            if c['q_disk']:
                args += f' (disk_sizes_of (fv_str (nth {c["params"].index(c["q_disk"])} (snd r) dflt)))'
            arms.append(f'  | {i}%nat => q_{n}{args} cpu mem wf ext')
        out.append(f'Definition {cloud}_q_resource (disk_sizes_of : string -> list Z) (r : resource) (cpu mem wf ext : Z) : qres :=\n'
                   f'  match fst r with\n' + '\n'.join(arms) + '\n  | _ => Raises\n  end.\n')
    out.append('Definition all_class_names : list string := [' + '; '.join(cstr(n) for n in all_class_names) + '].\n')
    # ---- tables
    G, A = tables['gcp'], tables['azure']
    out.append('(* ---------------------------------------------------------------- tables read from the imported modules *)')
    out.append('(* gcp MACHINE_TYPE_TO_PARTS: (machine type, worker type, cores, memory bytes, gpus) *)')
    out.append('Definition gcp_machines : list (string * string * Z * Z * Z) :=\n  [' +
               ';\n   '.join(f'({cstr(n)}, {cstr(wt)}, {c}, {m}, {gp})' for n, fam, wt, c, m, gp in G['machines']) + '].\n')
    out.append('(* gcp pools: (worker type, worker cores, machine type, in MACHINE_TYPE_TO_PARTS, memory per core MiB) *)')
    out.append('Definition gcp_pool_machines : list (string * Z * string * bool * Z) :=\n  [' +
               ';\n   '.join(f'({cstr(wt)}, {c}, {cstr(mt)}, {"true" if ok else "false"}, {mib})' for wt, c, mt, ok, mib in G['pool_machine']) + '].\n')
    out.append('(* gcp_cores_mcpu_to_memory_bytes on every packable core count: (worker type, mcpu, bytes) *)')
    out.append('Definition gcp_job_memory : list (string * Z * Z) :=\n  [' +
               '; '.join(f'({cstr(wt)}, {c}, {b})' for wt, c, b in G['job_memory']) + '].\n')
    out.append('Definition azure_machines : list (string * string * Z * Z) :=\n  [' +
               ';\n   '.join(f'({cstr(n)}, {cstr(fam)}, {c}, {m})' for n, fam, c, m in A['machines']) + '].\n')
    out.append('(* azure pools: (worker type, worker cores, local ssd, machine type, in table, memory per core MiB) *)')
    out.append('Definition azure_pool_machines : list (string * Z * bool * string * bool * Z) :=\n  [' +
               ';\n   '.join(f'({cstr(wt)}, {c}, {"true" if ssd else "false"}, {cstr(mt)}, {"true" if ok else "false"}, {mib})'
                             for wt, c, ssd, mt, ok, mib in A['pool_machine']) + '].\n')
    out.append('Definition azure_job_memory : list (string * Z * Z) :=\n  [' +
               '; '.join(f'({cstr(wt)}, {c}, {b})' for wt, c, b in A['job_memory']) + '].\n')
    out.append('(* azure_disks_by_disk_type: sizes in GiB, ascending *)')
    out.append('Definition azure_disk_sizes : list (string * list Z) :=\n  [' +
               '; '.join(f'({cstr(f)}, [{"; ".join(map(str, s))}])' for f, s in sorted(A['disk_sizes'].items())) + '].\n')
    out.append('Definition azure_disk_sizes_of (family : string) : list Z :=\n'
               '  match find (fun p => String.eqb (fst p) family) azure_disk_sizes with Some p => snd p | None => [] end.\n')
    out.append('(* azure_disk_from_storage_in_gib at the boundary points: (family, request GiB, Some size | None) *)')
    out.append('Definition azure_disk_lookup_samples : list (string * Z * option Z) :=\n  [' +
               '; '.join(f'({cstr(f)}, {g}, {"None" if s is None else f"Some {s}"})' for f, g, s in A['disk_lookup']) + '].\n')
    return '\n'.join(out) + '\n'


def _tables(ctx):
    return ctx.run_impl('c13_billing.py', {'mode': 'tables'}, timeout=120)


def generate(ctx):
    data = _extract(ctx)
    tables = _tables(ctx)
    ctx.c13_data = data
    ctx.c13_tables = tables
    ctx.write_generated('Gen.v', _render(data, tables))
