"""C33 — value binary encoding round-trips and matches the engine layout
(hail/python/hail/expr/types.py::_convert_to_encoding/_convert_from_encoding, hail/python/hail/utils/byte_reader.py,
hail/hail/src/is/hail/types/encoded/EType.scala::fromPythonTypeEncoding).

Python side — model coq/theories/HailEncoding/Model.v, tie X: the real `_to_encoding` / `_convert_from_encoding` of
$VERIF_REPO and the model's `encode` / `decode` (vm_compute) on the same typed values (numpy arrays in C and Fortran
order): identical bytes, identical decoded value, identical number of bytes consumed when more bytes follow.
Engine side — NOT executable here (no Scala): `etype_of` is regenerated (T) from the `case` table of
EType.fromPythonTypeEncoding by harness/translate/scala_etype.py; the decoders of the encoded types are a hand
transcription (coq/theories/HailEncoding/Engine.v) whose Scala sources are fingerprinted (fail closed when they change).
The engine model is additionally evaluated on the (model = real) bytes of every case (smoke test of the generated table).
"""
import glob
import hashlib
import json
import os
import re

from harness.core import Corr, Disagreement, Failure, TieBroken, coq_eval, listlit, zlit
from harness.hailfe import gen as G
from harness.hailfe import engine_ref
from harness.translate import scala_etype

ID = 'C33'
SRC = ['hail/python/hail/expr/types.py', 'hail/python/hail/utils/byte_reader.py', 'hail/python/hail/utils/struct.py',
       'hail/hail/src/is/hail/types/encoded/EType.scala']
COQ_PROPS = 'theories/HailEncoding/Props_C33.v'
READY = True
META = dict(
    design_ref='§5.F C33',
    technique='Coq proofs by nested induction over Hail types about a hand model of the Python encoder/decoder (tied by a differential '
              'run on the real code) and about a model of the engine decoders whose type table is regenerated from EType.scala',
    level_text='Machine-checked theorems (Coq 8.16, closed under the global context): for every Hail type (arbitrary nesting incl. locus, '
               'interval, call, set, dict, tuple, struct, numeric ndarray of any rank), every non-missing value the encoding can carry '
               '(missing elements/fields/keys/values anywhere inside) and every continuation of the buffer, decode t (encode t v ++ rest) = '
               '(v, rest); the engine decoder model for EType.fromPythonTypeEncoding(t) (table regenerated from the Scala source on every '
               'run) reads exactly those bytes and the same data (missing-bit bytes, little-endian fixed width, length-prefixed UTF-8, '
               'dict = unsorted array of required key/value structs, shape + column-major elements, bit-packed int32 calls); UTF-8, '
               'missing-bit packing, the row/column-major permutation and the call packing are proved inverse for all inputs.',
    level_note='PARTIAL: the Scala engine cannot be executed here. Its decoders (EArray, EBaseStruct, EBinary, EInt32/64, EFloat32/64, '
               'EBoolean, ENDArrayColumnMajor, EUnsortedSet, EDictAsUnsortedArrayOfPairs over StreamInputBuffer) are a hand transcription, '
               'fingerprinted against the source; only the fromPythonTypeEncoding case table is translated. Floats are bit patterns (NaN '
               'canonical); native byte order is taken to be little-endian; the float sqrt of allele_pair_sqrt is modelled by the exact '
               'integer square root (exercised at triangular-number boundaries by the tie). Python-side tie is a correspondence run.',
    partial=True,
)
TRUSTED = ['hand model coq/theories/HailEncoding/Model.v tied to types.py/byte_reader.py by the correspondence run (X)',
           'harness/translate/scala_etype.py (Scala case table -> Gallina), its class-hierarchy table and textual checks',
           'hand transcription of the Scala decoders in coq/theories/HailEncoding/Engine.v (MODELLED, never executed); '
           'source fingerprints in harness/props/C33.py',
           'loader (numpy from /verif/.deps, shims), harness/impl/hail_values.py, harness/hailfe/engine_ref.py (oracle-side reader)',
           'CPython struct, str.encode/bytes.decode, numpy nditer/ndarray']
ASSUMPTIONS = ['little-endian host (struct "=" formats; Memory.loadInt on the JVM)',
               'float32 values are exactly representable (they come from float32 data); NaNs are canonical quiet NaNs',
               'call allele numbers within the engine bound (genotype index < 2^29, alleles <= 0xffff)',
               'set elements / dict keys pairwise distinct under Python equality; iteration order of a set is whatever the Python object has '
               '(the model is evaluated on the order the implementation reports)']

HEADER = ('From HailV Require Import Common.Prelude HailValues.Model HailEncoding.Model HailEncoding.Engine.\n'
          'From HailG Require C33.Gen.\nOpen Scope Z_scope.\n')

ENGINE_FINGERPRINTS = {
    'EArray': {'_buildDecoder': 'fcaaf57f6951f8d4', '_buildSkip': 'cda1127319c1e3aa'},
    'EBaseStruct': {'_buildDecoder': '0366958e3fbe6d13', '_buildInplaceDecoder': '37143e2961cedc81', '_buildSkip': 'e36c69edc91fdc14'},
    'EBinary': {'_buildDecoder': '975abe3829bca26f', '_buildSkip': '9b0cff366479d74c'},
    'EInt32': {'_buildDecoder': '74c0dfa8507ff0f6', '_buildSkip': '2ddd9fe4beaa7aeb'},
    'EInt64': {'_buildDecoder': '2363e81349056f3a', '_buildSkip': '7b306d6162a3436d'},
    'EFloat32': {'_buildDecoder': 'eb1eddeb57283f45', '_buildSkip': 'b5a2a49f46522233'},
    'EFloat64': {'_buildDecoder': 'b529cf66de3ac91e', '_buildSkip': '259cc1c4eb8f11fc'},
    'EBoolean': {'_buildDecoder': 'bca8d2147e3b1714', '_buildSkip': '3745295d3692f034'},
    'ENDArrayColumnMajor': {'_buildDecoder': 'be50c0b08b46dd38', '_buildSkip': '8d89e2b846d33d15'},
    'EUnsortedSet': {'_buildDecoder': 'c55f113a511f4a54', '_buildSkip': '141050f5be528605'},
    'EDictAsUnsortedArrayOfPairs': {'_buildDecoder': 'b95c4e03f519f8b1', '_buildSkip': '141050f5be528605'},
}
STREAM_INPUT_BUFFER = 'e55f7df2533724bd'


def _h(text):
    return hashlib.sha256(re.sub(r'\s+', ' ', text).strip().encode()).hexdigest()[:16]


def _check_engine_sources(ctx):
    for f, want in ENGINE_FINGERPRINTS.items():
        rel = f'hail/hail/src/is/hail/types/encoded/{f}.scala'
        try:
            txt = ctx.read_repo(rel)
        except OSError as e:
            raise TieBroken('engine-transcription', f'{rel}: {e}')
        for name, hx in want.items():
            m = re.search(r'\n  override def %s\b.*?(?=\n  (?:override |private |protected |final )*(?:def|val|lazy val)\b|\n\}\s*(?:\n|$))'
                          % name, txt, re.S)
            got = _h(m.group(0)) if m else 'missing'
            if got != hx:
                raise TieBroken('engine-transcription',
                                f'{rel}::{name} changed (fingerprint {got}, transcribed from {hx}): the hand model of the decoder in '
                                'coq/theories/HailEncoding/Engine.v must be re-transcribed')
    txt = ctx.read_repo('hail/hail/src/is/hail/io/InputBuffers.scala')
    m = re.search(r'final class StreamInputBuffer.*?\n\}', txt, re.S)
    if not m or _h(m.group(0)) != STREAM_INPUT_BUFFER:
        raise TieBroken('engine-transcription', 'StreamInputBuffer changed: fixed-width reads of the engine model must be re-checked')


def generate(ctx):
    text, used, cases = scala_etype.translate(ctx.read_repo)
    ctx.write_generated('Gen.v', text)
    ctx.notes.append(f'fromPythonTypeEncoding cases in source order: {cases}; dispatch: {used}')
    _check_engine_sources(ctx)


# ------------------------------------------------------------------------------------------------ cases

def _n(s):
    return G.cps(s)


def _tri(k):
    return k * (k + 1) // 2


HAND = [
    {'t': ['array', 'int32'], 'v': ['arr', [['i', 1], None, ['i', 3]]]},
    {'t': ['struct', [[_n('self'), 'int32']]], 'v': ['struct', [['i', 1]]]},
    {'t': ['dict', 'str', ['array', 'int32']], 'v': ['dict', [[['s', _n('a')], None], [None, ['arr', [['i', 1], None]]]]]},
    {'t': 'str', 'v': ['s', _n('aé€\U0001f600\x00')]}, {'t': 'str', 'v': ['s', []]},
    {'t': 'str', 'v': ['s', [0x7f, 0x80, 0x7ff, 0x800, 0xd7ff, 0xe000, 0xffff, 0x10000, 0x10ffff]]},
    {'t': 'float64', 'v': ['f', 'nan', None]}, {'t': 'float32', 'v': ['f', 'nan', None]}, {'t': 'float32', 'v': ['f', '-inf', None]},
    {'t': 'float64', 'v': ['f', 'fin', 0x8000000000000000]}, {'t': 'float32', 'v': ['f', 'fin', 0x3dcccccd]},
    {'t': 'int32', 'v': ['i', -2**31]}, {'t': 'int64', 'v': ['i', -2**63]}, {'t': 'int64', 'v': ['i', 2**63 - 1]},
    {'t': 'bool', 'v': ['b', True]},
    {'t': 'call', 'v': ['call', False, []]}, {'t': 'call', 'v': ['call', True, []]}, {'t': 'call', 'v': ['call', True, [0]]},
    {'t': 'call', 'v': ['call', False, [2**29 - 1]]}, {'t': 'call', 'v': ['call', True, [3, 1]]},
    {'t': 'call', 'v': ['call', False, [7, 8]]}, {'t': 'call', 'v': ['call', False, [8, 8]]}, {'t': 'call', 'v': ['call', False, [0, 8]]},
    {'t': 'call', 'v': ['call', False, [0, 32767]]}, {'t': 'call', 'v': ['call', False, [32766, 32766]]},
    {'t': 'call', 'v': ['call', True, [16000, 16766]]}, {'t': 'call', 'v': ['call', False, [23169, 23170]]},
    {'t': ['locus', _n('GRCh37')], 'v': ['locus', _n('1'), 12345]},
    {'t': ['interval', ['locus', _n('R1')]], 'v': ['iv', ['locus', _n('X'), 1], None, True, True]},
    {'t': ['interval', 'int32'], 'v': ['iv', None, None, False, False]},
    {'t': ['set', ['array', 'float64']], 'v': ['set', [['arr', [['f', 'nan', None], None]], None, ['arr', []]]]},
    {'t': ['tuple', []], 'v': ['tuple', []]}, {'t': ['struct', []], 'v': ['struct', []]},
    {'t': ['array', ['struct', []]], 'v': ['arr', [['struct', []], None, ['struct', []]]]},
    {'t': ['ndarray', 'float64', 2], 'v': ['nd', [2, 3], [['f', 'fin', 0x3ff0000000000000 + i] for i in range(6)], 'F']},
    {'t': ['ndarray', 'float64', 2], 'v': ['nd', [2, 3], [['f', 'fin', 0x3ff0000000000000 + i] for i in range(6)], 'C']},
    {'t': ['ndarray', 'int32', 3], 'v': ['nd', [2, 3, 2], [['i', i] for i in range(12)], 'C']},
    {'t': ['ndarray', 'int64', 3], 'v': ['nd', [2, 3, 2], [['i', i] for i in range(12)], 'F']},
    {'t': ['ndarray', 'int32', 0], 'v': ['nd', [], [['i', 7]], 'C']},
    {'t': ['ndarray', 'bool', 3], 'v': ['nd', [2, 0, 3], [], 'C']},
    {'t': ['ndarray', 'float32', 1], 'v': ['nd', [2], [['f', 'fin', 0x3dcccccd], ['f', 'inf', None]], 'C']},
    {'t': ['array', 'bool'], 'v': ['arr', [['b', i % 3 == 0] if i % 5 else None for i in range(17)]]},
    {'t': ['tuple', ['int32'] * 9], 'v': ['tuple', [None if i in (0, 8) else ['i', i] for i in range(9)]]},
]


def _corpus(ctx):
    out = []
    for p in sorted(glob.glob(os.path.join(ctx.verif, 'corpus', ID, '*.json'))):
        doc = json.load(open(p))
        out += doc if isinstance(doc, list) else [doc]
    out = [c.get('case', c) for c in out]
    return [{'t': c['t'], 'v': c['v']} for c in out]


def _cases(ctx, n):
    rng = ctx.rng
    opts = G.Opts(binary=True, big_containers=True)
    cases = _corpus(ctx) + [dict(c) for c in HAND]
    # genotype-index boundaries: k(k+1)/2 - 1, k(k+1)/2, k(k+1)/2 + k  (float sqrt of allele_pair_sqrt vs exact arithmetic)
    for k in [8, 9, 100, 1000, 4095, 23169, 23170, 32766, 32767]:
        for j in (0, 1, k - 1, k):
            if _tri(k) + j < 2**29:
                cases.append({'t': 'call', 'v': ['call', False, [j, k]]})
                cases.append({'t': 'call', 'v': ['call', True, [j, k - j]]})
    while len(cases) < n:
        depth = rng.choice([0, 1, 1, 2, 2, 3, 3])
        t = G.gen_type(rng, depth)
        cases.append({'t': t, 'v': G.gen_present(rng, t, opts, rng.choice([0.0, 0.15, 0.3]))})
    return cases


# ------------------------------------------------------------------------------------------------ implementation / model runs

def _run_impl(ctx, cases):
    res, junk = [], None
    for i in range(0, len(cases), 500):
        out = ctx.run_impl('c33_encoding.py', {'cases': cases[i:i + 500]}, timeout=300)
        res += out['results']
        junk = out['junk']
    for c, r in zip(cases, res):
        if 'build_exc' in r:
            raise RuntimeError(f'harness could not build case {c}: {r["build_exc"]}')
        if G.canon_value(c['t'], r['built']) != G.canon_value(c['t'], c['v']):
            raise RuntimeError(f'value built by the harness differs from the description: {c} vs {r["built"]}')
    return res, junk


def _blist(bs):
    return listlit([zlit(b) for b in bs])


def read_evalue(x):
    n, a = G._ctor(x)
    if n in ('EVInt', 'EVFloat', 'EVBool', 'EVBinary'):
        return [n, a[0]]
    if n in ('EVArray', 'EVStruct'):
        return [n, [None if y is None else read_evalue(y[1]) for y in a[0]]]
    if n == 'EVNDArray':
        return [n, a[0], [read_evalue(y) for y in a[1]]]
    raise ValueError(n)


def _model(ctx, cases, impl, junk):
    """model on the value in the iteration order the implementation actually encoded.
    The engine-decoder model is evaluated with the HAND table Engine.etype_of on the model's own bytes and only for
    in-domain cases: there theorem C33_layout guarantees termination with small lengths.  (Evaluating a decoder model on
    foreign bytes or with a mutated table can read a garbage length and build an astronomically large unary number in
    vm_compute; the regenerated table is tied by the lemma GenEq.generated_etype_of_eq instead.)"""
    import resource
    exprs = []
    for c, r in zip(cases, impl):
        T, V = G.coq_type(c['t']), G.coq_value(c['t'], r['built'])
        exprs.append(f'(let ok := wf_ty {T} && wt_enc {T} {V} && negb (is_na {V}) in if ok then '
                     f'(ok, encode {T} {V}, decode {T} (encode {T} {V} ++ {_blist(junk)}), '
                     f'edecode (etype_of {T}) (encode {T} {V} ++ {_blist(junk)}), erase {T} {V}) '
                     f'else (ok, [], None, None, EVInt 0))')
    old = resource.getrlimit(resource.RLIMIT_AS)
    try:
        resource.setrlimit(resource.RLIMIT_AS, (6 * 2**30, old[1]))      # inherited by the coqc children
        return coq_eval(ctx, HEADER, exprs, shard=120, timeout=300)
    finally:
        resource.setrlimit(resource.RLIMIT_AS, old)


def correspond(ctx):
    cases = _cases(ctx, ctx.scale(600, 7000))
    impl, junk = _run_impl(ctx, cases)
    model = _model(ctx, cases, impl, junk)
    dis, distinct, kinds = [], set(), {}
    orders = {'C': 0, 'F': 0}
    for c, m, r in zip(cases, model, impl):
        t = c['t']
        if G.type_size(t) >= 2:
            distinct.add(json.dumps(c, sort_keys=True))
        for k in G.type_kinds(t):
            kinds[k] = kinds.get(k, 0) + 1
        for o in re.findall(r'"([CF])"\]', json.dumps(c['v'])):
            orders[o] += 1
        ok, mbytes, mdec, edec, erased = m
        if ok is not True:
            raise RuntimeError(f'generated case is outside the model domain: {c}')
        if 'bytes' not in r:
            dis.append(Disagreement('encode~_to_encoding', c, mbytes, r.get('enc_exc')))
            continue
        if mbytes != r['bytes']:
            dis.append(Disagreement('encode~_to_encoding', c, mbytes, r['bytes']))
            continue
        want = G.canon_value(t, r['built'])
        mv = None if mdec is None else (G.canon_value(t, G.read_value(t, mdec[1][0])), mdec[1][1])
        if 'back_with_rest' not in r:
            dis.append(Disagreement('decode~_convert_from_encoding', c, mv, r.get('dec_exc') or r.get('rest_exc')))
            continue
        iv = (G.canon_value(t, r['back_with_rest']), junk[:] if r['consumed'] == len(r['bytes']) else ['consumed', r['consumed']])
        if mv is None or [mv[0], mv[1]] != [iv[0], iv[1]]:
            dis.append(Disagreement('decode~_convert_from_encoding', c, mv, iv))
            continue
        # the engine model reads these bytes (they equal the real ones at this point)
        if edec is None or edec[1][1] != junk or read_evalue(edec[1][0]) != read_evalue(erased):
            dis.append(Disagreement('edecode(bytes)~erase', c, None if edec is None else edec[1], erased))
    return Corr(evaluations=3 * len(cases), distinct_nontrivial=len(distinct),
                rule='(type, value) pairs: corpus + hand-written edge cases + genotype-index boundaries + seeded random nested types (depth <= 3, '
                     'containers up to 17 entries to cross missing-byte boundaries); non-trivial = nested type; each pair compares the bytes, the '
                     'decoded value + bytes consumed (junk appended) between real types.py and the Gallina model, and runs the engine-decoder '
                     'model on those bytes',
                samples=[{'case': c, 'impl': {k: v for k, v in r.items() if k != 'built'}} for c, r in list(zip(cases, impl))[-3:]],
                disagreements=dis,
                histograms={'type_constructors': dict(sorted(kinds.items())), 'ndarray_memory_order': orders},
                names=['encode~_to_encoding', 'decode~_convert_from_encoding', 'edecode(bytes)~erase'])


# ------------------------------------------------------------------------------------------------ oracle

def _has_self_field(t):
    k = G.kind(t)
    if k == 'struct':
        return any(G.uncps(f[0]) == 'self' or _has_self_field(f[1]) for f in t[1])
    if k in ('interval', 'array', 'set'):
        return _has_self_field(t[1])
    if k == 'dict':
        return _has_self_field(t[1]) or _has_self_field(t[2])
    if k == 'tuple':
        return any(_has_self_field(x) for x in t[1])
    return False


def _exc_key(side, c, e):
    if 'Struct.__init__' in e.get('msg', '') and _has_self_field(c['t']):
        return f'{side}-raises:struct-field-named-self'
    return f'{side}-raises:{e["exc"]}:{e["where"]}'


def _first_kind_diff(t, a, b):
    return (G.diff_path(t, a, b) or ['?'])[-1]


def _judge(c, r):
    t = c['t']
    want = G.canon_value(t, r['built'])
    if 'enc_exc' in r:
        e = r['enc_exc']
        return [(_exc_key('encode', c, e), f'_to_encoding raised {e["exc"]} at {e["where"]}: {e["msg"]}', want, e)]
    if 'dec_exc' in r:
        e = r['dec_exc']
        return [(_exc_key('decode', c, e), f'_from_encoding raised {e["exc"]} at {e["where"]}: {e["msg"]}', want, e)]
    out = []
    got = G.canon_value(t, r['back'])
    if got != want:
        out.append((f'roundtrip-differs:{_first_kind_diff(t, want, got)}', 'decoded value differs from the encoded one', want, got))
    elif not r['eq']:
        out.append(('roundtrip-not-equal', 'canonical forms agree but the Python objects are not equal (container class changed?)', want, got))
    elif 'rest_exc' in r:
        e = r['rest_exc']
        out.append((_exc_key('decode-with-trailing-bytes', c, e), f'decoding with trailing bytes raised {e["exc"]}: {e["msg"]}', want, e))
    elif r['consumed'] != len(r['bytes']) or G.canon_value(t, r['back_with_rest']) != want:
        out.append(('decoder-consumes-wrong-length', f'decoder consumed {r["consumed"]} of {len(r["bytes"])} bytes when more bytes follow',
                    len(r['bytes']), r['consumed']))
    if out:
        return out
    # layout: what the engine decoders would read from these bytes (reference reader, written from the property text)
    try:
        ev, used = engine_ref.engine_read(t, r['bytes'])
        ev = G.canon_value(t, ev)
        if used != len(r['bytes']):
            out.append(('layout-length', f'engine layout reads {used} of {len(r["bytes"])} bytes', len(r['bytes']), used))
        elif ev != want:
            out.append((f'layout-differs:{_first_kind_diff(t, want, ev)}', 'bytes read with the engine layout give a different value', want, ev))
    except engine_ref.LayoutError as e:
        out.append(('layout-unreadable', f'bytes cannot be read with the engine layout: {e}', want, r['bytes'][:64]))
    return out


def oracle(ctx, budget):
    cases = _cases(ctx, ctx.scale(900, 10000) * budget)
    impl, _ = _run_impl(ctx, cases)
    fails = []
    for c, r in zip(cases, impl):
        for key, what, exp, obs in _judge(c, r):
            fails.append(Failure(key, what, c, exp, obs))
    fails.sort(key=lambda f: len(json.dumps(f.case)))
    return fails, {'evaluations': 2 * len(cases),
                   'distinct_nontrivial': len({json.dumps(c, sort_keys=True) for c in cases if G.type_size(c['t']) >= 2}),
                   'rule': 'oracle: _from_encoding(_to_encoding(v)) == v, exact consumption with trailing bytes, and an independent reader '
                           'of the engine layout on the real bytes',
                   'samples': [{'case': cases[-1], 'bytes': impl[-1].get('bytes')}]}


def replay(ctx, doc):
    case = doc['case']
    case = {'t': case['t'], 'v': case['v']}
    impl, junk = _run_impl(ctx, [case])
    r = impl[0]
    out = {'case': case, 'impl': r, 'property_failures': [dict(key=k, what=w) for k, w, _, _ in _judge(case, r)]}
    try:
        generate(ctx)
        m = _model(ctx, [case], impl, junk)[0]
        out['model'] = {'in_domain': m[0], 'encode': m[1],
                        'decode': None if m[2] is None else [G.canon_value(case['t'], G.read_value(case['t'], m[2][1][0])), m[2][1][1]],
                        'engine_model_on_these_bytes': None if m[3] is None else [read_evalue(m[3][1][0]), m[3][1][1]]}
    except Exception as e:  # noqa: BLE001
        out['model'] = f'model evaluation failed: {e}'
    return out
