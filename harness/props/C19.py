"""C19 — client spec bunching preserves order and limits (hailtop/batch_client/aioclient.py::Batch._create_bunches
and the submission path Batch._submit that SENDS the bunches).

Tie: T for `_create_bunches` (its loop is translated from the current source into coq/generated/C19/Gen.v; Lemmas.v proves
it equal to the hand model and the three bunching theorems over *all* spec lists and limits) and X for the submission path:
Bunches/Model.v `submit` is a hand model of _submit / _create_fast / _update_fast / _submit_job_group_bunches /
_submit_job_bunches / _submit_job_groups / _submit_jobs / _submit_spec_bunch (the list of HTTP requests with the specs each
body carries); SubmitLemmas.v proves that `submit` applied to the GENERATED bunching sends every spec exactly once, in order,
groups before jobs, within the limits, for every completion order of the concurrent job requests.  The correspondence run
drives the real Batch._submit / Batch.submit against a recording fake BatchClient (harness/impl/c19_submit.py) and compares
the recorded requests with `submit` evaluated by vm_compute; the oracle judges the recorded requests alone.
"""
import ast

from harness.core import Corr, Disagreement, Failure, TieBroken, coq_eval, zlit, listlit
from harness.translate.pyast import PyToCoq, find_function, Unsupported

ID = 'C19'
SRC = 'hail/python/hailtop/batch_client/aioclient.py'
COQ_PROPS = 'theories/Bunches/Props_C19.v'
READY = True
META = dict(
    design_ref='§5.D C19',
    technique='Coq proof (induction over the spec list) about a model regenerated from the Python source by a fail-closed AST translator; '
              'hand model of the submission path (which HTTP request carries which specs) proved correct on top of the generated '
              'bunching and tied to Batch._submit by a correspondence run against a recording fake client',
    level_text='Machine-checked theorems (Coq 8.16, closed under the global context) that for every list of job-group and job specs, '
               'every byte-size function and all positive limits the bunches concatenate to groups++jobs in order, every bunch is '
               'non-empty, holds at most max_bunch_size specs and strictly fewer than max_bunch_bytesize bytes (under the code\'s own '
               'assertion that each single spec is below the byte limit). The model the theorems are about is regenerated from '
               '_create_bunches on every run and proved equal to the hand model; the real method is run against it as a smoke test. '
               'What is SENT: six further theorems (C19_sent_exactly, C19_sent_any_completion_order, C19_sent_limits, '
               'C19_sent_limits_any_completion_order, C19_sent_stages, C19_sent_happens_before) about the hand model Model.submit of Batch._submit composed with the GENERATED bunching: '
               'on the fast path (create-fast / update-fast, at most one bunch) and on the slow path (job-groups/create per bunch sequentially, '
               'then jobs/create per bunch concurrently, then commit), for a new batch or an update, the job-group payloads concatenate to '
               'the job-group specs in order, every job spec is sent exactly once for EVERY completion order of the concurrent job requests, '
               'every group-carrying request precedes every job-carrying request, and every request carries <= max_bunch_size specs and '
               '< max_bunch_bytesize bytes of specs. Happens-before is explicit: Model.submit_stages lists the stages of a submission (a '
               'request starts only after every request of every earlier stage has completed): create; ONE stage per job-groups/create '
               'request in bunch order (sequential); all jobs/create requests together; commit; and in every order compatible with it in '
               'which the server can receive the requests the job groups arrive in their original order and every job once. '
               'Model.submit / submit_stages are NOT generated from the source: it is tied by the correspondence run '
               '(real Batch._submit and public create_job_group/create_job + Batch.submit against a recording fake client, request by request, '
               'small-scope grid + random + >1024-spec and >1 MiB submissions with the client\'s default limits; the recorded (start, end) '
               'intervals of the requests are compared with the stages, the fake server answering adversarially - later requests faster - , '
               'randomly or at once; in the oracle the fake server also applies the front end\'s rule to nested job groups made with the public '
               'API: a job group landing before its parent, or a job before its job group, is refused), i.e. checked on the '
               'explored inputs, not proved.',
    level_note='Trusted: Coq kernel; harness/translate/pyast.py (Python-ast subset -> Gallina) and the structural check that the two list '
               'comprehensions are order-preserving maps; orjson shim (json.dumps) only determines byte sizes, which the theorems quantify over.',
    partial=False,
)
TRUSTED = ['translator harness/translate/pyast.py (+ C19 structural checks on the two list comprehensions)',
           'hand model Bunches/Model.v submit of the submission path, tied to Batch._submit by correspondence only (fake BatchClient '
           'harness/impl/c19_submit.py parses each request body with orjson.loads and identifies specs by their serialised bytes)',
           'loader shim orjson->json (byte sizes only; theorems hold for every size function)']
ASSUMPTIONS = ['specs are abstract elements with an arbitrary byte size n_bytes : A -> Z; serialisation itself is not modelled',
               'submission path: requests succeed (no HTTP errors / retries / cancellation); the limits theorems about requests assume '
               'non-negative byte sizes; the byte limit is on the sum of the spec bytes (as in _create_bunches), not on the framed body']


def _check_comprehension(stmt, target, src_name, kind):
    """`target = [SpecBytes(orjson.dumps(spec), SpecType.KIND) for spec in src_name]`"""
    ok = (isinstance(stmt, ast.Assign) and len(stmt.targets) == 1 and isinstance(stmt.targets[0], ast.Name)
          and stmt.targets[0].id == target and isinstance(stmt.value, ast.ListComp))
    if ok:
        lc = stmt.value
        ok = (len(lc.generators) == 1 and not lc.generators[0].ifs and isinstance(lc.generators[0].iter, ast.Name)
              and lc.generators[0].iter.id == src_name and isinstance(lc.generators[0].target, ast.Name))
        if ok:
            v = lc.generators[0].target.id
            e = lc.elt
            ok = (isinstance(e, ast.Call) and isinstance(e.func, ast.Name) and e.func.id == 'SpecBytes' and len(e.args) == 2
                  and ast.unparse(e.args[0]) == f'orjson.dumps({v})' and ast.unparse(e.args[1]) == f'SpecType.{kind}')
    if not ok:
        raise TieBroken('py-translator', f'line {stmt.lineno}: expected order-preserving comprehension for {target}, got `{ast.unparse(stmt)[:100]}`')


def generate(ctx):
    src = ctx.read_repo(SRC)
    fn = find_function(src, 'Batch._create_bunches')
    params = [a.arg for a in fn.args.args]
    if params != ['self', 'job_group_specs', 'job_specs', 'max_bunch_bytesize', 'max_bunch_size']:
        raise TieBroken('py-translator', f'unexpected parameters {params}')
    body = [s for s in fn.body if not (isinstance(s, ast.Expr) and isinstance(s.value, ast.Constant))]
    # leading asserts on the limits, then the two comprehensions
    pre = []
    while body and isinstance(body[0], ast.Assert):
        pre.append(body.pop(0))
    if len(body) < 2:
        raise TieBroken('py-translator', 'body too short')
    _check_comprehension(body[0], 'job_group_byte_specs', 'job_group_specs', 'JOB_GROUP')
    _check_comprehension(body[1], 'job_byte_specs', 'job_specs', 'JOB')
    # SpecBytes.n_bytes must be len(spec_bytes)
    cls_src = src
    sb = find_function(cls_src, 'SpecBytes.n_bytes')
    if ast.unparse(sb.body[-1]) != 'return len(self.spec_bytes)':
        raise TieBroken('py-translator', 'SpecBytes.n_bytes is no longer len(spec_bytes)')
    tr = PyToCoq(sorts={'job_group_byte_specs': 'list', 'job_byte_specs': 'list', 'max_bunch_bytesize': 'Z', 'max_bunch_size': 'Z'},
                 attrs={'n_bytes': ('n_bytes', 'Z')})
    pre_tr = PyToCoq(sorts={'max_bunch_bytesize': 'Z', 'max_bunch_size': 'Z'})
    pre_conds = [pre_tr.truth(*pre_tr.expr(a.test), a.test) for a in pre]
    code = tr.block(body[2:], 'tt')
    loop_pre = tr.preconditions
    if len(loop_pre) != 1:
        raise TieBroken('py-translator', f'expected exactly one per-spec assertion inside the loop, found {len(loop_pre)}')
    text = f'''(* GENERATED by harness/props/C19.py from {SRC}::Batch._create_bunches — do not edit *)
From Coq Require Import ZArith List Bool.
Import ListNotations.
Open Scope Z_scope.

Section Gen.
  Context {{elem : Type}}.
  Variable n_bytes : elem -> Z.

  Definition create_bunches (job_group_byte_specs job_byte_specs : list elem)
      (max_bunch_bytesize max_bunch_size : Z) : list (list elem) :=
{code}.

  (* assertions of the source: on the limits ... *)
  Definition limits_ok (max_bunch_bytesize max_bunch_size : Z) : bool :=
    {' && '.join(pre_conds) if pre_conds else 'true'}.
  (* ... and on every spec (inside the loop) *)
  Definition spec_ok (max_bunch_bytesize : Z) (spec : elem) : bool :=
    let n_bytes := n_bytes spec in {loop_pre[0]}.
End Gen.
'''
    ctx.write_generated('Gen.v', text)


def _cases(ctx, n):
    rng = ctx.rng
    out = []
    # exhaustive small scope: sizes in {1,2,3}, up to 4 specs, limits small
    for mb in (2, 3, 4, 6):
        for ms in (1, 2, 3):
            for ng in range(0, 3):
                for nj in range(0, 3):
                    sizes = [1 + ((i * 7 + mb + ms) % (mb - 1)) for i in range(ng + nj)]
                    out.append((sizes[:ng], sizes[ng:], mb, ms))
    while len(out) < n:
        mb = rng.choice([2, 3, 5, 10, 50, 1000, 1024 * 1024])
        ms = rng.choice([1, 2, 3, 7, 100])
        k = rng.randint(0, 12)
        hi = mb - 1
        sizes = [rng.choice([1, hi, max(1, hi // 2), rng.randint(1, hi)]) for _ in range(k)]
        ng = rng.randint(0, k)
        out.append((sizes[:ng], sizes[ng:], mb, ms))
    return out


def _run_impl(ctx, cases):
    return ctx.run_impl('c19_bunches.py', {'cases': cases})


# ------------------------------------------------------------------------------------------------
# the submission path (Batch._submit): cases, canonical form, oracle clauses

SUBMIT_MIN = 20          # smallest serialised size of an identifiable spec {"i":<id>,"p":"..."} (harness/impl/c19_submit.py)


def _submit_cases(ctx, n_random, n_big):
    """dict cases for harness/impl/c19_submit.py: small-scope grid (count-driven and byte-driven bunching, new batch and
    update), seeded random, the public API, and submissions above the client's DEFAULT limits (>1024 specs, >1 MiB)."""
    rng = ctx.rng
    out = []

    def case(g, j, mb, ms, created, mode='specs', nest=None, delay=None):
        # answer delays: adversarial (the later a request is started the faster it is answered), random, none - by turns
        delay = delay or ('decreasing', 'random', 'decreasing', 'zero', 'random')[len(out) % 5]
        out.append({'g': list(g), 'j': list(j), 'mb': mb, 'ms': ms, 'created': bool(created), 'seed': len(out) * 7919 + 1, 'mode': mode,
                    'nest': nest, 'delay': delay})

    # count-driven: every (n_groups, n_jobs) around the bunch boundaries
    for created in (False, True):
        for ms in (1, 2, 3, 4, 5, 8):
            for ng in range(0, 7):
                for nj in range(0, 10):
                    case([SUBMIT_MIN + (i % 3) for i in range(ng)], [SUBMIT_MIN + 2 + (i % 5) for i in range(nj)], None, ms, created)
    # byte-driven
    for created in (False, True):
        for mb in (41, 64, 100, 150, 400):
            for ng in (0, 1, 2, 3, 5):
                for nj in (0, 1, 2, 4, 9):
                    sizes = [SUBMIT_MIN + ((i * 7 + mb) % min(mb - SUBMIT_MIN, 60)) for i in range(ng + nj)]
                    case(sizes[:ng], sizes[ng:], mb, 1000 if (ng + nj) % 2 else 3, created)
    # public API (create_job_group / create_job / submit): sizes are paddings
    for created in (False, True):
        for ms in (1, 2, 3, 5):
            for ng, nj in ((0, 0), (0, 1), (1, 0), (1, 1), (1, 2), (2, 3), (3, 2), (4, 7), (5, 5)):
                case([i % 4 for i in range(ng)], [i % 6 for i in range(nj)], None, ms, created, mode='api')
            # NESTED job groups (a child names its parent by in_update_parent_id; the fake server refuses a child whose parent has
            # not landed), spread over several bunches, every delay mode
            for nest in ('chain', 'tree'):
                for ng, nj in ((2, 0), (3, 1), (5, 3), (7, 3), (9, 0), (13, 5)):
                    for delay in ('decreasing', 'random', 'zero'):
                        case([i % 4 for i in range(ng)], [i % 6 for i in range(nj)], None, ms, created, mode='api', nest=nest, delay=delay)
    for _ in range(n_random):
        mb = rng.choice([41, 50, 64, 100, 1000, None])
        ms = rng.choice([1, 2, 3, 5, 7, 16, None])
        k = rng.randint(0, 40)
        hi = (mb or 4000) - 1
        sizes = [rng.choice([SUBMIT_MIN, hi, max(SUBMIT_MIN, hi // 2), rng.randint(SUBMIT_MIN, hi)]) for _ in range(k)]
        ng = rng.choice([0, k, rng.randint(0, k), rng.randint(0, k)])
        case(sizes[:ng], sizes[ng:], mb, ms, rng.random() < 0.5)
    # above the client's default limits (ms = mb = None): > 1024 and > 2048 specs; > 1 MiB of specs
    big = [(1000, 1500), (1, 1024), (1024, 1), (1023, 2), (1025, 1025), (0, 2049), (2049, 0), (500, 524), (1536, 1536), (3, 3000)]
    for t, (ng, nj) in enumerate(big[:n_big]):
        case([SUBMIT_MIN + (i % 7) for i in range(ng)], [SUBMIT_MIN + 3 + (i % 11) for i in range(nj)], None, None, t % 2)
    heavy = [(2, 12), (11, 11), (0, 25)]
    for t, (ng, nj) in enumerate(heavy[:max(1, n_big // 3)]):
        case([100_000 + i for i in range(ng)], [99_000 + 17 * i for i in range(nj)], None, None, (t + 1) % 2)
    return out


def _run_submit(ctx, cases):
    return ctx.run_impl('c19_submit.py', {'cases': cases})['results']


def _canonical_trace(res):
    """Recorded requests as [kind, group ids, job ids] in the order they were STARTED; a maximal run of consecutive jobs/create
    requests (they are spawned concurrently) is sorted by first job id."""
    evs = sorted(res['events'], key=lambda e: e['s'])
    out, run = [], []
    for e in evs:
        item = [e['k'], e['g'], e['j']]
        if e['k'] == 6:
            run.append(item)
        else:
            out += sorted(run, key=lambda it: it[2][:1])
            run = []
            out.append(item)
    out += sorted(run, key=lambda it: it[2][:1])
    return out


def _submit_failures(case, res):
    """The property on what was SENT, judged on the recorded requests alone."""
    fails = []

    def fail(key, what, expected=None):
        fails.append(Failure(key, what, case, expected, {'error': res['error'], 'events': res['events'][:40], 'mb': res['mb'], 'ms': res['ms']}))

    evs = sorted(res['events'], key=lambda e: e['s'])
    # happens-before (C19_sent_stages): a request carrying job groups may only START after every earlier request carrying job groups has
    # COMPLETED (a job group must land after its parent, and the landing order of requests in flight together is the server's choice)
    gev = [e for e in evs if e['g']]
    for a, b in zip(gev, gev[1:]):
        if a['e'] is None or a['e'] > b['s']:
            fail('sent-order:job-groups-concurrent', 'a request carrying job groups was started before the previous request carrying job groups '
                                                     'had completed: the order in which the job groups reach the server is no longer their order',
                 'each job-groups/create request awaited before the next is sent')
            break
    for what, ident, missing in res.get('refusals', []):
        # the real front end's rule, applied by the fake server when a request lands
        fail('server-refused:' + what, f'the server refused {what.split("-before-")[0].replace("-", " ")} {ident}: '
                                       f'{what.split("-before-")[1].replace("-", " ")} {missing} had not reached it yet')
        break
    if res.get('refusals'):
        return fails
    if res['error'] is not None:
        # the code asserts that every single spec is below the byte limit; our cases respect it
        fail('submit-raises', f'Batch._submit raised {res["error"]}')
        return fails
    ng, nj = len(res['gsizes']), len(res['jsizes'])
    mb, ms = res['mb'], res['ms']
    landed_g = [x for e in sorted(gev, key=lambda e: e['e']) for x in e['g']]
    if landed_g != [x for e in gev for x in e['g']]:
        fail('sent-job-groups:landing-order', 'the job-group specs reached the server (completion order of the requests) in another order than '
                                              'they were sent in', [x for e in gev for x in e['g']])
    sent_g = [x for e in evs for x in e['g']]
    want_g = list(range(ng))
    if sent_g != want_g:
        kind = ('foreign' if any(x not in want_g for x in sent_g) else 'missing' if set(sent_g) != set(want_g)
                else 'duplicated' if len(sent_g) != len(want_g) else 'order')
        fail('sent-job-groups:' + kind, 'the job-group specs sent, in request order, are not the original job-group specs', want_g)
    want_j = list(range(ng, ng + nj))
    sent_j = [x for e in evs for x in e['j']]
    if sorted(sent_j) != want_j:
        kind = ('foreign' if any(x not in want_j for x in sent_j) else 'missing' if set(sent_j) != set(want_j) else 'duplicated')
        fail('sent-jobs:' + kind, 'the job specs sent are not exactly the original job specs, each once', want_j)
    elif any(e['j'] != list(range(e['j'][0], e['j'][0] + len(e['j']))) for e in evs if e['j']):
        fail('sent-jobs:order', 'a request carries job specs out of their original order', want_j)
    carriers = [e for e in evs if e['g'] or e['j'] or e['k'] in (3, 4, 5, 6)]
    for e in carriers:
        n = len(e['g']) + len(e['j'])
        if n > ms or sum(e['gb']) + sum(e['jb']) >= mb or (e['k'] in (5, 6) and n == 0):
            fail('sent-limits', 'a request is empty or carries more specs / bytes than the limits allow')
            break
    for a in evs:
        if a['j'] and any(b is not a and b['g'] and (b['e'] is None or b['e'] > a['s']) for b in evs):
            fail('sent-order:job-before-job-groups', 'a request carrying jobs was started before every request carrying job groups had completed')
            break
    for c in evs:
        if c['k'] == 2 and any(b['e'] is None or b['e'] > c['s'] for b in carriers):
            fail('sent-order:commit-before-specs', 'the update was committed before every spec-carrying request had completed')
            break
        if c['k'] in (0, 1) and any(b['s'] < (c['e'] or 10**9) for b in carriers if b['k'] in (5, 6)):
            fail('sent-order:specs-before-update', 'a spec-carrying request was started before the batch/update was created')
            break
    return fails


def _submit_correspond(ctx, cases, results):
    header = ('From Coq Require Import ZArith List. Import ListNotations. From HailV Require Import Bunches.Model. '
              'From HailG Require Import C19.Gen. Open Scope Z_scope.\n'
              'Definition run (created : bool) (g j : list (Z * Z)) (mb ms : Z) :=\n'
              '  map (map (fun '"'"'(k, a, b) => (k, map fst a, map fst b)))\n'
              '      (encode_stages (submit_stages created (create_bunches (fun e : (Z * Z) * bool => snd (fst e)) (tag false g) (tag true j) mb ms))).')
    exprs, used = [], []
    for c, r in zip(cases, results):
        if r['error'] is not None:
            continue
        ng = len(r['gsizes'])
        ge = listlit([f'({i}, {s})' for i, s in enumerate(r['gsizes'])])
        je = listlit([f'({ng + i}, {s})' for i, s in enumerate(r['jsizes'])])
        exprs.append(f'run {"true" if c["created"] else "false"} {ge} {je} {r["mb"]} {r["ms"]}')
        used.append((c, r))
    model = coq_eval(ctx, header, exprs)
    dis = []
    hist = {}
    for (c, r), m in zip(used, model):
        canon = _canonical_trace(r)
        path = 'fast' if any(e['k'] in (3, 4) for e in r['events']) else 'slow' if any(e['k'] == 2 for e in r['events']) else 'empty'
        hist[path] = hist.get(path, 0) + 1
        stages = [[[k, list(a), list(b)] for k, a, b in st] for st in m]
        flat = [x for st in stages for x in st]         # = Model.submit (C19_sent_stages: concat stages = submit)
        if flat != canon:
            dis.append(Disagreement('Model.submit~Batch._submit', c, flat, canon))
            continue
        # the model's happens-before relation against the recorded intervals: every request of a stage must have been STARTED
        # after every request of every earlier stage had COMPLETED (logical clock of the fake server)
        todo = sorted(r['events'], key=lambda e: e['s'])
        done_before = 0
        bad = None
        for si, st in enumerate(stages):
            evs = []
            for item in st:
                e = next((e for e in todo if [e['k'], e['g'], e['j']] == item), None)
                if e is not None:
                    todo.remove(e)
                    evs.append(e)
            early = [e for e in evs if e['s'] < done_before]
            if early:
                bad = {'stage': si, 'request': [early[0]['k'], early[0]['g'], early[0]['j']], 'started': early[0]['s'],
                       'earlier_stages_completed': done_before}
                break
            done_before = max([done_before] + [e['e'] if e['e'] is not None else 10 ** 9 for e in evs])
        if bad:
            dis.append(Disagreement('Model.submit_stages~Batch._submit (happens-before)', c, {'stages': stages[:12]},
                                    {'violation': bad, 'intervals': [[e['k'], e['g'], e['j'], e['s'], e['e']] for e in r['events'][:12]]}))
    return dis, hist, len(used)


def correspond(ctx):
    n = ctx.scale(300, 3000)
    cases = _cases(ctx, n)
    impl = _run_impl(ctx, cases)['results']
    header = 'From Coq Require Import ZArith List. Import ListNotations. From HailG Require Import C19.Gen. Open Scope Z_scope.'
    exprs = []
    for g, j, mb, ms in cases:
        # elements are (index, size) pairs so that identity and order are observable
        ge = listlit([f'({i}, {s})' for i, s in enumerate(g)])
        je = listlit([f'({len(g) + i}, {s})' for i, s in enumerate(j)])
        exprs.append(f'map (map fst) (create_bunches (@snd Z Z) {ge} {je} {mb} {ms})')
    model = coq_eval(ctx, header, exprs)
    dis = []
    distinct = set()
    hist = {}
    for c, m, i in zip(cases, model, impl):
        shape = tuple(len(b) for b in i) if isinstance(i, list) else i
        distinct.add((tuple(c[0]), tuple(c[1]), c[2], c[3]))
        hist[len(i) if isinstance(i, list) else 'err'] = hist.get(len(i) if isinstance(i, list) else 'err', 0) + 1
        if m != i:
            dis.append(Disagreement('Gen.create_bunches~Batch._create_bunches', c, m, i))
    nontrivial = sum(1 for c in distinct if len(c[0]) + len(c[1]) >= 2)
    # the submission path: real Batch._submit against the recording fake client vs Model.submit on the generated bunching
    scases = _submit_cases(ctx, ctx.scale(60, 600), ctx.scale(3, 10))
    if not ctx.thorough:      # the model side costs ~1 ms per spec: keep every third grid case in the quick tier (the oracle runs all)
        scases = [c for t, c in enumerate(scases) if t % 3 == 0 or len(c['g']) + len(c['j']) > 40 or c['mode'] == 'api']
    sres = _run_submit(ctx, scases)
    sdis, shist, sused = _submit_correspond(ctx, scases, sres)
    snontrivial = len({(tuple(r['gsizes']), tuple(r['jsizes']), r['mb'], r['ms'], c['created']) for c, r in zip(scases, sres)
                       if len(r['gsizes']) + len(r['jsizes']) >= 2})
    return Corr(evaluations=len(cases) + sused, distinct_nontrivial=nontrivial + snontrivial,
                rule='(group sizes, job sizes, max_bytes, max_size): small-scope grid + seeded random; non-trivial = at least 2 specs; '
                     'real Batch._create_bunches (specs padded to the requested serialised size) vs generated Gallina evaluated by vm_compute'
                     ' | submission path: (group sizes, job sizes, limits, new batch/update, private _submit or public API, answer-delay seed); '
                     'requests recorded by a fake BatchClient from the real Batch._submit / Batch.submit vs Model.submit composed with the '
                     'generated bunching, request by request (concurrent jobs/create runs sorted by first job id), and the recorded '
                     '(start, end) intervals against the happens-before stages of Model.submit_stages',
                samples=[{'case': c, 'bunches': i} for c, i in list(zip(cases, impl))[-3:]]
                        + [{'case': {k: (v if not isinstance(v, list) or len(v) < 12 else f'{len(v)} sizes') for k, v in c.items()},
                            'requests': _canonical_trace(r)[:6]} for c, r in list(zip(scases, sres))[200:203]],
                disagreements=dis + sdis,
                histograms={'n_bunches': {str(k): v for k, v in sorted(hist.items(), key=lambda kv: str(kv[0]))}, 'submit_path': shist},
                names=['Gen.create_bunches~Batch._create_bunches', 'Model.submit~Batch._submit', 'Model.submit_stages~Batch._submit (happens-before)'])


def oracle(ctx, budget):
    """Property statement evaluated directly on the implementation."""
    cases = _cases(ctx, ctx.scale(400, 4000) * budget)
    impl = _run_impl(ctx, cases)['results']
    fails = []
    for (g, j, mb, ms), res in zip(cases, impl):
        ids = list(range(len(g) + len(j)))
        sizes = g + j
        if not isinstance(res, list):
            fails.append(Failure('raises', f'_create_bunches raised {res}', [g, j, mb, ms], 'bunches', res))
            continue
        flat = [x for b in res for x in b]
        if flat != ids:
            fails.append(Failure('concat', 'bunches do not concatenate to groups++jobs in order', [g, j, mb, ms], ids, res))
        for b in res:
            if len(b) == 0 or len(b) > ms or sum(sizes[x] for x in b) >= mb:
                fails.append(Failure('limits', 'a bunch is empty or exceeds the count/byte limit', [g, j, mb, ms], None, res))
                break
    scases = _submit_cases(ctx, ctx.scale(150, 1500) * budget, ctx.scale(6, 10))
    sres = _run_submit(ctx, scases)
    paths = {}
    for c, r in zip(scases, sres):
        fails += _submit_failures(c, r)
        n_carry = sum(1 for e in r['events'] if e['k'] in (3, 4, 5, 6))
        k = 'fast' if any(e['k'] in (3, 4) for e in r['events']) else f'slow:{min(n_carry, 8)}{"+" if n_carry > 8 else ""}-requests' if n_carry else 'empty'
        paths[k] = paths.get(k, 0) + 1
    return fails, {'evaluations': len(cases) + len(scases),
                   'distinct_nontrivial': len({str(c) for c in cases if len(c[0]) + len(c[1]) >= 2})
                                          + len({str(c) for c in scases if len(c['g']) + len(c['j']) >= 2}),
                   'rule': 'oracle: concat/limits recomputed in Python on the real method output; what Batch._submit SENT to a recording fake '
                           'client: job-group payloads in request order = job-group specs, job payloads = each job spec once and in order, '
                           'job-carrying requests start after all group-carrying requests completed, each group-carrying request starts after the previous one '
                           'completed, landing order of job groups = their order, no nested job group / job refused by the fake server for '
                           'arriving before its parent / job group, commit last, limits per request',
                   'histograms': {'oracle_submit_path': dict(sorted(paths.items()))}}


def replay(ctx, doc):
    case = doc['case']
    if isinstance(case, dict):     # a submission-path case
        res = _run_submit(ctx, [case])[0]
        return {'case': case, 'requests': _canonical_trace(res), 'error': res['error'],
                'failures': [{'key': f.key, 'what': f.what} for f in _submit_failures(case, res)]}
    return {'case': case, 'impl': _run_impl(ctx, [case])['results'][0]}
