"""C27 — database transactions retry only transient errors, atomically (gear/gear/database.py).

Tie:
  T  the retry classification (`exception_log_level_if_retryable`, the three module tables it reads, the walrus truthiness
     test of the retry wrapper), the commit-or-rollback choice of `Transaction._aexit_1` and whether a failing rollback can
     replace the body's exception are regenerated from the current source into coq/generated/C27/Gen.v; Lemmas.v proves the
     classification equal to the literal specification (1040/1213/2003/2013 operational, 1205 internal).
     The Database.* helpers (just_execute, execute_update, execute_insertone, execute_and_fetchone, select_and_fetchone,
     execute_many, check_call_procedure) and the Transaction methods they call are walked too: each helper must be
     `@retry_transient_mysql_errors` around exactly ONE `async with self.start(..) as tx:` block whose only statement hands the
     helper's parameters UNCHANGED to one Transaction method, which sends them in exactly one cursor.execute /
     cursor.executemany on every path; the statement plan of that single transaction (`[x]`, resp. the whole argument array)
     is emitted as Gen.helper_plan and proved equal to the hand specification DbTx.Model.helper_stmts.  Anything else
     (a loop, a second transaction, a slice of the array) fails closed.
  X  the REAL gear.database code (`transaction` decorator, `Database.*` helpers, `Transaction`, `TransactionAsyncContextManager`,
     `retry_transient_mysql_errors`) runs over a recording fake aiomysql pool/connection/cursor (harness/impl/c27_dbtx.py, the
     trusted stand-in for aiomysql + InnoDB, with the pymysql.err shim) under injected faults at acquire / START TRANSACTION /
     every statement / COMMIT / ROLLBACK for up to 3 consecutive attempts; per attempt the exception that reached the retry
     wrapper and the committed log are compared with the Coq model (DbTx/Model.v instantiated with the generated pieces).
     Database.execute_many is driven with argument arrays of 1001 and 2500 rows (one statement per row, and aiomysql's bulk
     path with multi-row statements) with faults at the first / middle / last row, rows 999-1001 and 1999-2001 and at COMMIT.
Oracle: the property statement evaluated on the real code + fake only (no model): judged by the committed log of the fake
     database and by which injected faults actually fired.  The fault plan is indexed by the attempt of the RETRY WRAPPER
     (boundary = gear.database.sleep_before_try) and by the number of statements the attempt has executed so far on whatever
     connections / transactions the code chooses, so the verdict does not depend on how the code scopes its transactions.
"""
import ast
import concurrent.futures
import itertools
import json
import logging
import os

from harness.core import (Corr, Disagreement, Failure, TieBroken, coq_eval, zlit, listlit, natlit)
from harness.translate.pyast import find_function, Unsupported

ID = 'C27'
SRC = 'gear/gear/database.py'
COQ_PROPS = 'theories/DbTx/Props_C27.v'
COQ_EXTRA = ['theories/DbTx/Inst.v']
READY = True
META = dict(
    design_ref='§5.C C27',
    technique='Coq proofs (invariant over all fault histories) about a model of the transaction wrapper over a trusted model of '
              'aiomysql/InnoDB; retry classification and commit/rollback choice regenerated from the source (T); whole stack tied by a '
              'correspondence run of the real gear.database code over a fault-injecting fake aiomysql pool (X)',
    level_text='Machine-checked theorems (Coq 8.16, closed under the global context), for EVERY statement list, every initial '
               'database log, every clean pool state and EVERY history of injected faults (per attempt: at acquire, START TRANSACTION, '
               'any statement with statement-only / transaction-rolled-back / connection-lost effect, COMMIT, ROLLBACK): the wrapper '
               'starts another attempt iff the exception that ended the attempt is OperationalError 1040/1213/2003/2013 or '
               'InternalError 1205 (classification regenerated from database.py and proved equal to this literal table); the exception '
               'that ends an attempt whose body failed is the body\'s exception, even when the rollback fails too; after every failed '
               'attempt the committed log equals the initial one, after success it is initial ++ all statements exactly once; the pool '
               'never holds a connection with an open transaction. The same is proved for the Database.* helpers (just_execute, '
               'execute_update, execute_insertone, execute_and_fetchone, select_and_fetchone, check_call_procedure and execute_many over '
               'an argument array of ANY length), modelled as the retry wrapper around ONE transaction that runs the statement plan '
               'regenerated from the helper\'s source (proved equal to: the single statement, resp. the WHOLE array, one statement per '
               'row): C27_helper_retry_iff_transient_no_partial_writes / C27_helper_all_or_nothing / C27_helper_rows_exactly_once (every '
               'row value occurs in the final table once more than before per occurrence in the array after success, as often as before '
               'after failure); C27_execute_many_fault_anywhere (for every array length n, the first attempt struck at acquire, START '
               'TRANSACTION, ANY row index < n with any effect, or COMMIT, and any continuation: nothing is committed by that attempt; a '
               'non-transient error ends the call at once with log = initial; a transient one continues exactly like a fresh call of the '
               'whole array on the unchanged log) and C27_execute_many_retried_exactly_once; C27_execute_many_bulk_statements (however '
               'aiomysql cuts the array into multi-row wire statements, the table gains all rows once or nothing); '
               'C27_attempt_fails_iff_fault. The real code is run against the model on enumerated and random fault histories, including '
               'Database.execute_many with 1001 and 2500 rows struck at the first / middle / last row, rows 999-1001 and 1999-2001, and at '
               'COMMIT.',
    level_note='InnoDB/aiomysql are MODELLED, not verified: atomic COMMIT/ROLLBACK, server-side rollback for deadlock victims and lost '
               'connections, "an error from COMMIT means nothing was committed", START TRANSACTION implicitly commits, aiomysql closes '
               'in-transaction connections on release and raises InterfaceError on a lost connection, Cursor.executemany sends one '
               'statement per row (or multi-row statements on its bulk INSERT path). That each helper IS one transaction around one '
               'Transaction method that sends its parameters unchanged is established by the (trusted) AST walker, which fails closed, '
               'and by the correspondence run — the Coq model has no notion of a helper that opens several transactions. ONLY CHECKED BY '
               'THE RUN (oracle on the real code over the recording fake, no theorem): argument arrays of 1000..3001 and 12000 rows '
               '(thorough: 50001) with non-transient and transient faults at every row class (first, second, middle, the rows around '
               'every multiple of 1000, last) and at COMMIT, alone and in sequences of up to 3 faulty attempts, judged by the committed '
               'log of the fake database per attempt of the retry wrapper (nothing after a failed/retried attempt, every row exactly once '
               'after success) independently of how the code scopes its transactions; single-statement helpers with 1001/2500-element '
               'argument tuples; and the two async generators execute_and_fetchall / select_and_fetchall, which are NOT wrapped in the '
               'retry decorator by design (rows may already have been yielded): for them only all-or-nothing and error propagation are '
               'checked, not retry. Cancellation is out of scope. The theorems target database.py WITH fixes/C27.diff applied; on the '
               'unfixed file the check reports the lost-connection finding.',
    partial=True,
)
TRUSTED = ['fake aiomysql pool/connection/cursor in harness/impl/c27_dbtx.py = stand-in for aiomysql 0.3 + MySQL/InnoDB transaction semantics',
           'pymysql.err shim (harness/loader/shims/pymysql/err.py): exception hierarchy as in PyMySQL 1.x (compared with DbTx.Model.is_instance on every run)',
           'C27 AST walkers in harness/props/C27.py (classification function, _aexit_1 shape, retry wrapper shape, shape of the Database.* '
           'helpers and of the Transaction methods they call)',
           'CPython asyncio; gear.database.sleep_before_try replaced by a zero-delay hook that also marks the boundary between two '
           'attempts of the retry wrapper for the fault injector']
ASSUMPTIONS = ['an error reported by COMMIT means the transaction was not committed (a lost connection during COMMIT is in reality ambiguous)',
               'the body of the transactional function does not catch database errors itself: the first failing statement ends the attempt',
               'one connection slot is enough to represent the pool (connections are independent)',
               'Cursor.executemany(sql, rows) has the effect of executing the statement once per row, in order, inside the current '
               'transaction; a fault strikes one wire statement (a row, or a multi-row chunk on the bulk path)']

PY_CLASSES = ['MySQLError', 'Warning', 'Error', 'InterfaceError', 'DatabaseError', 'DataError', 'OperationalError', 'IntegrityError',
              'InternalError', 'ProgrammingError', 'NotSupportedError']
COQ_CLASS = {c: ('PyWarning' if c == 'Warning' else c) for c in PY_CLASSES}
COQ_CLASS['AppException'] = 'AppException'


# ------------------------------------------------------------------------------------------------ T

def _bad(node, why):
    raise Unsupported(node, why)


def _module_consts(tree):
    """module-level NAME = tuple/dict literal of ints / logging.X"""
    out = {}
    for node in tree.body:
        if isinstance(node, ast.Assign) and len(node.targets) == 1 and isinstance(node.targets[0], ast.Name):
            out.setdefault(node.targets[0].id, []).append(node.value)
    return out


def _log_level(node):
    if isinstance(node, ast.Attribute) and isinstance(node.value, ast.Name) and node.value.id == 'logging' and node.attr.isupper():
        v = getattr(logging, node.attr, None)
        if isinstance(v, int):
            return v
    if isinstance(node, ast.Constant) and isinstance(node.value, int) and not isinstance(node.value, bool):
        return node.value
    _bad(node, 'expected logging.<LEVEL>')


class _Classifier:
    """translate `exception_log_level_if_retryable` into Gallina over (cls : eclass) (code : option Z)"""

    def __init__(self, consts, exc):
        self.consts = consts
        self.exc = exc
        self.used_tuples = {}
        self.used_dicts = {}

    def _is_args0(self, n):
        return ast.unparse(n) == f'{self.exc}.args[0]'

    def _tuple(self, name, node):
        vals = self.consts.get(name)
        if not vals or len(vals) != 1 or not isinstance(vals[0], (ast.Tuple, ast.List, ast.Set)):
            _bad(node, f'{name} is not a single module-level tuple literal')
        items = []
        for e in vals[0].elts:
            if not (isinstance(e, ast.Constant) and isinstance(e.value, int) and not isinstance(e.value, bool)):
                _bad(e, 'non-int retry code')
            items.append(e.value)
        self.used_tuples[name] = items
        return name

    def _dict(self, name, node):
        vals = self.consts.get(name)
        if not vals or len(vals) != 1 or not isinstance(vals[0], ast.Dict):
            _bad(node, f'{name} is not a single module-level dict literal')
        items = []
        for k, v in zip(vals[0].keys, vals[0].values):
            if not (isinstance(k, ast.Constant) and isinstance(k.value, int) and not isinstance(k.value, bool)):
                _bad(vals[0], 'non-int key')
            items.append((k.value, _log_level(v)))
        if len({k for k, _ in items}) != len(items):
            _bad(vals[0], 'duplicate keys')
        self.used_dicts[name] = items
        return name

    def cond(self, n):
        if isinstance(n, ast.BoolOp):
            op = ' && ' if isinstance(n.op, ast.And) else ' || '
            return '(' + op.join(self.cond(v) for v in n.values) + ')'
        if isinstance(n, ast.UnaryOp) and isinstance(n.op, ast.Not):
            return f'(negb {self.cond(n.operand)})'
        if isinstance(n, ast.Call) and isinstance(n.func, ast.Name) and n.func.id == 'isinstance' and len(n.args) == 2 and not n.keywords:
            if not (isinstance(n.args[0], ast.Name) and n.args[0].id == self.exc):
                _bad(n, 'isinstance on something else than the exception')
            k = n.args[1]
            if ast.unparse(k).startswith('pymysql.err.') and isinstance(k, ast.Attribute) and k.attr in PY_CLASSES:
                return f'(is_instance cls {COQ_CLASS[k.attr]})'
            _bad(n, 'isinstance against a class outside pymysql.err')
        if isinstance(n, ast.Compare) and len(n.ops) == 1 and isinstance(n.ops[0], (ast.In, ast.NotIn)) and self._is_args0(n.left) \
                and isinstance(n.comparators[0], ast.Name):
            t = f'(code_in code {self._tuple(n.comparators[0].id, n)})'
            return t if isinstance(n.ops[0], ast.In) else f'(negb {t})'
        _bad(n, 'condition')

    def value(self, n):
        if isinstance(n, ast.Constant) and n.value is None:
            return 'None'
        if isinstance(n, ast.Call) and isinstance(n.func, ast.Attribute) and n.func.attr == 'get' and isinstance(n.func.value, ast.Name) \
                and len(n.args) == 2 and not n.keywords and self._is_args0(n.args[0]):
            return f'(Some (dict_get code {self._dict(n.func.value.id, n)} {zlit(_log_level(n.args[1]))}))'
        return f'(Some {zlit(_log_level(n))})'

    def body(self, stmts):
        stmts = [s for s in stmts if not (isinstance(s, ast.Expr) and isinstance(s.value, ast.Constant))]
        if not stmts:
            return 'None'       # falling off the end returns None
        s, rest = stmts[0], stmts[1:]
        if isinstance(s, ast.Return):
            if rest:
                _bad(s, 'code after return')
            return 'None' if s.value is None else self.value(s.value)
        if isinstance(s, ast.If):
            c = self.cond(s.test)
            a = self.body(list(s.body) + list(rest)) if not _ends_in_return(s.body) else self.body(s.body)
            b = self.body(list(s.orelse) + list(rest))
            return f'(if {c} then {a} else {b})'
        _bad(s, 'statement')


def _ends_in_return(stmts):
    return bool(stmts) and isinstance(stmts[-1], ast.Return)


def _is_call(node, text):
    return isinstance(node, ast.Expr) and isinstance(node.value, ast.Await) and ast.unparse(node.value.value) == text


def _benign(stmts):
    for s in stmts:
        for n in ast.walk(s):
            if isinstance(n, (ast.Raise, ast.Return, ast.Break, ast.Continue, ast.Await, ast.Yield, ast.YieldFrom, ast.While, ast.For,
                              ast.Try, ast.With, ast.AsyncWith, ast.AsyncFor)):
                return False
    return True


def _exit_shape(src):
    """Transaction._aexit_1 -> (action when exc_type is truthy, action otherwise, rollback_guarded)"""
    fn = find_function(src, 'Transaction._aexit_1')
    if [a.arg for a in fn.args.args] != ['self', 'exc_type']:
        raise TieBroken('py-translator', '_aexit_1: unexpected parameters')
    body = [s for s in fn.body if not (isinstance(s, ast.Expr) and isinstance(s.value, ast.Constant))]
    if len(body) != 1 or not isinstance(body[0], ast.Try):
        raise TieBroken('py-translator', '_aexit_1: body is not a single try statement')
    t = body[0]
    if t.orelse:
        raise TieBroken('py-translator', '_aexit_1: try/else not understood')
    # handlers must re-raise (a swallowed commit error would report success without a commit)
    for h in t.handlers:
        if not (h.body and isinstance(h.body[-1], ast.Raise) and h.body[-1].exc is None and _benign(h.body[:-1])):
            raise TieBroken('py-translator', f'line {h.lineno}: outer handler of _aexit_1 does not simply log and re-raise')
    for s in t.finalbody:
        for n in ast.walk(s):
            if isinstance(n, (ast.Raise, ast.Return, ast.Await)):
                raise TieBroken('py-translator', f'line {s.lineno}: finally block of _aexit_1 raises/returns/awaits')
    if len(t.body) != 1 or not isinstance(t.body[0], ast.If) or ast.unparse(t.body[0].test) != 'self.conn is not None' or t.body[0].orelse:
        raise TieBroken('py-translator', '_aexit_1: expected `if self.conn is not None:`')
    inner = t.body[0].body
    if len(inner) != 1 or not isinstance(inner[0], ast.If) or ast.unparse(inner[0].test) != 'exc_type':
        raise TieBroken('py-translator', '_aexit_1: expected `if exc_type: ... else: ...`')

    def action(stmts):
        """-> (DoCommit|DoRollback, guarded)"""
        if len(stmts) != 1:
            raise TieBroken('py-translator', f'_aexit_1: branch has {len(stmts)} statements')
        s = stmts[0]
        guarded = False
        if isinstance(s, ast.Try):
            if s.orelse or s.finalbody or len(s.body) != 1 or len(s.handlers) != 1:
                raise TieBroken('py-translator', f'line {s.lineno}: inner try shape')
            h = s.handlers[0]
            if not (isinstance(h.type, ast.Name) and h.type.id == 'Exception' and _benign(h.body)):
                raise TieBroken('py-translator', f'line {h.lineno}: inner handler must be `except Exception:` with a logging-only body')
            guarded = True
            s = s.body[0]
        if _is_call(s, 'self.conn.rollback()'):
            return 'DoRollback', guarded
        if _is_call(s, 'self.conn.commit()'):
            return 'DoCommit', guarded
        raise TieBroken('py-translator', f'line {s.lineno}: expected `await self.conn.commit()/rollback()`, got `{ast.unparse(s)[:80]}`')

    a_exc, g_exc = action(inner[0].body)
    a_ok, g_ok = action(inner[0].orelse)
    if g_ok:
        raise TieBroken('py-translator', '_aexit_1: the normal-exit action swallows its exception (success would be reported without commit)')
    return a_exc, a_ok, g_exc


def _check_wrapper(src):
    """retry_transient_mysql_errors.wrapper: while True: try: return await f(...) except Exception as exc: if lvl := C(exc): log else: raise"""
    fn = find_function(src, 'retry_transient_mysql_errors.wrapper')
    body = [s for s in fn.body if not (isinstance(s, ast.Expr) and isinstance(s.value, ast.Constant))]
    if len(body) != 2 or ast.unparse(body[0]) != 'tries = 0' or not isinstance(body[1], ast.While):
        raise TieBroken('py-translator', 'retry wrapper: expected `tries = 0; while True:`')
    w = body[1]
    if not (isinstance(w.test, ast.Constant) and w.test.value is True) or w.orelse or len(w.body) != 3:
        raise TieBroken('py-translator', 'retry wrapper: loop shape')
    t, inc, sl = w.body
    if ast.unparse(inc) != 'tries += 1' or ast.unparse(sl) != 'await sleep_before_try(tries)':
        raise TieBroken('py-translator', 'retry wrapper: expected `tries += 1; await sleep_before_try(tries)` after the try')
    if not isinstance(t, ast.Try) or t.orelse or t.finalbody or len(t.body) != 1 \
            or ast.unparse(t.body[0]) != 'return await f(*args, **kwargs)' or len(t.handlers) != 1:
        raise TieBroken('py-translator', 'retry wrapper: try shape')
    h = t.handlers[0]
    if not (isinstance(h.type, ast.Name) and h.type.id == 'Exception' and h.name and len(h.body) == 1 and isinstance(h.body[0], ast.If)):
        raise TieBroken('py-translator', 'retry wrapper: handler shape')
    i = h.body[0]
    test = i.test
    if not (isinstance(test, ast.NamedExpr) and isinstance(test.value, ast.Call) and isinstance(test.value.func, ast.Name)
            and test.value.func.id == 'exception_log_level_if_retryable' and ast.unparse(test.value.args[0]) == h.name
            and len(test.value.args) == 1 and not test.value.keywords):
        raise TieBroken('py-translator', f'line {i.lineno}: expected `if loglevel := exception_log_level_if_retryable({h.name}):`')
    if not _benign(i.body) or len(i.orelse) != 1 or not isinstance(i.orelse[0], ast.Raise) or i.orelse[0].exc is not None:
        raise TieBroken('py-translator', 'retry wrapper: expected logging in the retry branch and a bare `raise` otherwise')
    # transaction(): retry OUTSIDE the `async with db.start()` block
    tr = find_function(src, 'transaction.transformer.wrapper')
    decos = [ast.unparse(d) for d in tr.decorator_list]
    if 'retry_transient_mysql_errors' not in decos:
        raise TieBroken('py-translator', 'transaction(): wrapper is not decorated with retry_transient_mysql_errors')
    tb = [s for s in tr.body if not (isinstance(s, ast.Expr) and isinstance(s.value, ast.Constant))]
    if len(tb) != 1 or not isinstance(tb[0], ast.AsyncWith) or len(tb[0].items) != 1 \
            or ast.unparse(tb[0].items[0].context_expr) != 'db.start(read_only=read_only)' \
            or len(tb[0].body) != 1 or ast.unparse(tb[0].body[0]) != 'return await fun(tx, *args, **kwargs)':
        raise TieBroken('py-translator', 'transaction(): body is not `async with db.start(read_only=read_only) as tx: return await fun(tx, *args, **kwargs)`')


HELPER_CTOR = [('just_execute', 'HJustExecute'), ('execute_update', 'HExecuteUpdate'), ('execute_insertone', 'HExecuteInsertone'),
               ('execute_and_fetchone', 'HExecuteAndFetchone'), ('select_and_fetchone', 'HSelectAndFetchone'),
               ('check_call_procedure', 'HCheckCallProcedure'), ('execute_many', 'HExecuteMany')]


def _strip_doc(stmts):
    return [s for s in stmts if not (isinstance(s, ast.Expr) and isinstance(s.value, ast.Constant))]


def _plain_params(fn, what):
    a = fn.args
    if a.vararg or a.kwarg or a.posonlyargs:
        raise TieBroken('py-translator', f'{what}: *args/**kwargs/positional-only parameters not understood')
    names = [x.arg for x in a.args] + [x.arg for x in a.kwonlyargs]
    if not names or names[0] != 'self':
        raise TieBroken('py-translator', f'{what}: not a method')
    return [x.arg for x in a.args], [x.arg for x in a.kwonlyargs]


def _passes_params_unchanged(call, pos, kwonly, what):
    """call(...) hands over the enclosing method's parameters (after self) by position in order / by their own name, nothing else"""
    if len(call.args) > len(pos) - 1:
        raise TieBroken('py-translator', f'{what}: more arguments than parameters')
    for k, a in enumerate(call.args):
        if not (isinstance(a, ast.Name) and a.id == pos[k + 1]):
            raise TieBroken('py-translator', f'line {call.lineno}: {what}: argument {k + 1} is `{ast.unparse(a)[:60]}`, not the parameter '
                                             f'`{pos[k + 1]}` handed over unchanged')
    for kw in call.keywords:
        if kw.arg is None or not (isinstance(kw.value, ast.Name) and kw.value.id == kw.arg and kw.arg in pos[1:] + kwonly):
            raise TieBroken('py-translator', f'line {call.lineno}: {what}: keyword `{ast.unparse(kw)[:60]}` is not a parameter handed over unchanged')
    if len(call.args) < 2:
        raise TieBroken('py-translator', f'line {call.lineno}: {what}: the sql/argument parameters are not both handed over')


def _tx_method_kind(src, m):
    """Transaction.<m>: exactly one cursor.execute(sql, args) ('one') / cursor.executemany(sql, args_array) ('array') on every path,
    with the method's own parameters"""
    what = f'Transaction.{m}'
    fn = find_function(src, what)
    if not isinstance(fn, ast.AsyncFunctionDef) or fn.decorator_list:
        raise TieBroken('py-translator', f'{what}: expected an undecorated async method')
    pos, kwonly = _plain_params(fn, what)
    if len(pos) < 3:
        raise TieBroken('py-translator', f'{what}: expected (self, sql, args, ...)')
    body = [s for s in _strip_doc(fn.body) if not isinstance(s, ast.Assert)]
    if len(body) != 1 or not isinstance(body[0], ast.AsyncWith) or len(body[0].items) != 1 \
            or ast.unparse(body[0].items[0].context_expr) != 'self.conn.cursor()' \
            or not isinstance(body[0].items[0].optional_vars, ast.Name):
        raise TieBroken('py-translator', f'{what}: body is not a single `async with self.conn.cursor() as cursor:` block')
    cur = body[0].items[0].optional_vars.id
    kinds = set()

    def sends(node):
        """number of statements sent to the server by the expression/statement `node`"""
        k = 0
        for x in ast.walk(node):
            if isinstance(x, ast.Call) and isinstance(x.func, ast.Attribute) and isinstance(x.func.value, ast.Name) and x.func.value.id == cur \
                    and x.func.attr in ('execute', 'executemany', 'callproc'):
                if x.func.attr == 'callproc' or x.keywords or len(x.args) != 2 \
                        or [ast.unparse(a) for a in x.args] != [pos[1], pos[2]]:
                    raise TieBroken('py-translator', f'line {x.lineno}: {what}: `{ast.unparse(x)[:80]}` does not send ({pos[1]}, {pos[2]}) unchanged')
                kinds.add(x.func.attr)
                k += 1
        return k

    def paths(stmts, acc):
        """acc: list of (count, finished) -> same after running stmts"""
        for s in stmts:
            live = [p for p in acc if not p[1]]
            done = [p for p in acc if p[1]]
            if not live:
                break
            if isinstance(s, ast.If):
                if sends(s.test):
                    raise TieBroken('py-translator', f'line {s.lineno}: {what}: statement sent inside a condition')
                acc = done + paths(s.body, list(live)) + paths(s.orelse, list(live))
            elif isinstance(s, (ast.AsyncWith, ast.With)):
                if any(sends(i.context_expr) for i in s.items):
                    raise TieBroken('py-translator', f'line {s.lineno}: {what}: statement sent inside a with-item')
                acc = done + paths(s.body, list(live))
            elif isinstance(s, (ast.Return, ast.Expr, ast.Assign, ast.AnnAssign, ast.AugAssign, ast.Assert, ast.Pass)):
                k = sends(s)
                acc = done + [(c + k, isinstance(s, ast.Return)) for c, _ in live]
            else:
                if sends(s):
                    raise TieBroken('py-translator', f'line {s.lineno}: {what}: statement sent inside a `{type(s).__name__}` block '
                                                     '(a loop / try may send it several times or not at all)')
                for x in ast.walk(s):
                    if isinstance(x, (ast.Return, ast.Raise, ast.Break, ast.Continue, ast.Await)):
                        raise TieBroken('py-translator', f'line {s.lineno}: {what}: control flow not understood')
        return acc

    out = paths(body[0].body, [(0, False)])
    counts = {c for c, _ in out}
    if counts != {1} or len(kinds) != 1:
        raise TieBroken('py-translator', f'{what}: sends {sorted(counts)} statements ({sorted(kinds)}) depending on the path, expected exactly one')
    return 'one' if kinds == {'execute'} else 'array'


def _helper_plans(src):
    """Database.<helper> -> 'one' (a single statement) | 'array' (the whole argument array), in ONE transaction under the retry wrapper"""
    plans = {}
    for h, _ in HELPER_CTOR:
        if h == 'check_call_procedure':
            continue
        what = f'Database.{h}'
        fn = find_function(src, what)
        if not isinstance(fn, ast.AsyncFunctionDef) or [ast.unparse(d) for d in fn.decorator_list] != ['retry_transient_mysql_errors']:
            raise TieBroken('py-translator', f'{what}: expected an async method decorated with retry_transient_mysql_errors only')
        pos, kwonly = _plain_params(fn, what)
        body = _strip_doc(fn.body)
        if len(body) != 1 or not isinstance(body[0], ast.AsyncWith) or len(body[0].items) != 1 \
                or ast.unparse(body[0].items[0].context_expr) not in ('self.start()', 'self.start(read_only=True)', 'self.start(read_only=False)') \
                or not isinstance(body[0].items[0].optional_vars, ast.Name):
            raise TieBroken('py-translator', f'line {fn.lineno}: {what}: body is not exactly one `async with self.start(..) as tx:` block '
                                             '(several transactions / a loop around the transaction are not all-or-nothing)')
        tx = body[0].items[0].optional_vars.id
        inner = _strip_doc(body[0].body)
        if len(inner) != 1 or not isinstance(inner[0], (ast.Return, ast.Expr)) or not isinstance(inner[0].value, ast.Await) \
                or not isinstance(inner[0].value.value, ast.Call):
            raise TieBroken('py-translator', f'line {body[0].lineno}: {what}: the transaction block is not a single `[return] await {tx}.<method>(...)`')
        call = inner[0].value.value
        if not (isinstance(call.func, ast.Attribute) and isinstance(call.func.value, ast.Name) and call.func.value.id == tx):
            raise TieBroken('py-translator', f'line {call.lineno}: {what}: expected a call of a method of `{tx}`')
        _passes_params_unchanged(call, pos, kwonly, what)
        plans[h] = _tx_method_kind(src, call.func.attr)
    # check_call_procedure: the retried wrapper around self.execute_and_fetchone plus a return-code test
    what = 'Database.check_call_procedure'
    fn = find_function(src, what)
    if not isinstance(fn, ast.AsyncFunctionDef) or [ast.unparse(d) for d in fn.decorator_list] != ['retry_transient_mysql_errors']:
        raise TieBroken('py-translator', f'{what}: expected an async method decorated with retry_transient_mysql_errors only')
    pos, kwonly = _plain_params(fn, what)
    awaits = [x for s in fn.body for x in ast.walk(s) if isinstance(x, ast.Await)]
    loops = [x for s in fn.body for x in ast.walk(s) if isinstance(x, (ast.For, ast.While, ast.AsyncFor, ast.AsyncWith, ast.Try))]
    if len(awaits) != 1 or loops or not isinstance(awaits[0].value, ast.Call) or ast.unparse(awaits[0].value.func) != 'self.execute_and_fetchone':
        raise TieBroken('py-translator', f'{what}: expected exactly one `await self.execute_and_fetchone(...)` and no loop / transaction block')
    _passes_params_unchanged(awaits[0].value, pos, kwonly, what)
    plans['check_call_procedure'] = plans['execute_and_fetchone']
    for h, _ in HELPER_CTOR:
        want = 'array' if h == 'execute_many' else 'one'
        if plans[h] != want:
            raise TieBroken('py-translator', f'Database.{h}: sends {"one statement" if plans[h] == "one" else "an argument array"}, '
                                             f'the model expects {"an argument array" if want == "array" else "one statement"}')
    return plans


def generate(ctx):
    src = ctx.read_repo(SRC)
    tree = ast.parse(src)
    consts = _module_consts(tree)
    fn = find_function(src, 'exception_log_level_if_retryable')
    if len(fn.args.args) != 1:
        raise TieBroken('py-translator', 'exception_log_level_if_retryable: expected one parameter')
    cl = _Classifier(consts, fn.args.args[0].arg)
    body = cl.body(fn.body)
    a_exc, a_ok, guarded = _exit_shape(src)
    _check_wrapper(src)
    plans = _helper_plans(src)
    plan_arms = '\n'.join(f'  | {ctor} {"rows" if plans[h] == "array" else "x"} => {"rows" if plans[h] == "array" else "[x]"}'
                          for h, ctor in HELPER_CTOR)
    tdefs ='\n'.join(f'Definition {k} : list Z := {listlit([zlit(v) for v in vs])}.' for k, vs in sorted(cl.used_tuples.items()))
    ddefs = '\n'.join(f'Definition {k} : list (Z * Z) := {listlit([f"({zlit(a)}, {zlit(b)})" for a, b in vs])}.'
                      for k, vs in sorted(cl.used_dicts.items()))
    text = f'''(* GENERATED by harness/props/C27.py from {SRC} — do not edit *)
From Coq Require Import ZArith List Bool.
Import ListNotations.
From HailV Require Import DbTx.Model.
Open Scope Z_scope.

(* module-level tables *)
{tdefs}
{ddefs}

(* def exception_log_level_if_retryable(exc): cls = class of exc, code = exc.args[0] when it is an int *)
Definition exception_log_level_if_retryable (cls : eclass) (code : option Z) : option Z :=
  {body}.

(* retry_transient_mysql_errors: `if loglevel := exception_log_level_if_retryable(exc): <log, fall through to retry> else: raise` *)
Definition retryable (e : err) : bool :=
  truthy_level (exception_log_level_if_retryable (e_class e) (e_code e)).

(* Transaction._aexit_1(exc_type) *)
Definition on_exit (exc_type_set : bool) : exit_action := if exc_type_set then {a_exc} else {a_ok}.
(* is the error-path action wrapped in its own `try: ... except Exception: <log>`? *)
Definition rollback_guarded : bool := {'true' if guarded else 'false'}.

(* Database.<helper>: `@retry_transient_mysql_errors async def helper(self, sql, args..): async with self.start(..) as tx:
   [return] await tx.<method>(sql, args..)` with <method> sending exactly one cursor.execute(sql, args) /
   cursor.executemany(sql, args_array): the statements of the helper's SINGLE transaction *)
Definition helper_plan {{W : Type}} (c : helper_call W) : list W :=
  match c with
{plan_arms}
  end.
'''
    ctx.write_generated('Gen.v', text)


# ------------------------------------------------------------------------------------------------ cases

def _e(cls, code):
    return {'cls': cls, 'code': code}


TRANSIENT = [_e('OperationalError', 1040), _e('OperationalError', 1213), _e('OperationalError', 2003), _e('OperationalError', 2013),
             _e('InternalError', 1205)]
OTHER = [_e('OperationalError', 1205), _e('InternalError', 1213), _e('InternalError', 2013), _e('InternalError', 1040),
         _e('OperationalError', 1062), _e('IntegrityError', 1062), _e('ProgrammingError', 1064), _e('InterfaceError', None),
         _e('OperationalError', None), _e('InternalError', None), _e('DatabaseError', 1213), _e('Error', 2013), _e('MySQLError', 1205),
         _e('AppException', None), _e('NotSupportedError', 1235), _e('DataError', 1406), _e('OperationalError', 2006),
         _e('OperationalError', 1317), _e('OperationalError', 0), _e('InternalError', 0), _e('Warning', 1213)]
ALL_ERRS = TRANSIENT + OTHER
LOST_REALISTIC = [_e('OperationalError', 2013), _e('OperationalError', 2006), _e('InterfaceError', None)]
HELPERS = ['just_execute', 'execute_update', 'execute_insertone', 'execute_many', 'execute_and_fetchone', 'select_and_fetchone',
           'check_call_procedure']
# the two async generators of Database are NOT wrapped in retry_transient_mysql_errors (rows may already have been handed to the
# caller): oracle only, judged for all-or-nothing and error propagation, not for retries
UNRETRIED = ['execute_and_fetchall', 'select_and_fetchall']
# argument-array lengths for Database.execute_many (above 1000, above 2000, and the boundaries) and the row classes struck
MANY_N = [1000, 1001, 1500, 2000, 2001, 2500, 3001]
MANY_N_LONG = [12000]                    # oracle only, two error kinds
MANY_N_X = [1001, 2500]                  # the Coq model appends to the pending list row by row (quadratic): fewer lengths there
NONTRANSIENT_ROW = [(_e('IntegrityError', 1062), 'stmt'), (_e('OperationalError', 1205), 'stmt'), (_e('ProgrammingError', 1064), 'txn'),
                    (_e('InterfaceError', None), 'lost'), (_e('OperationalError', 2006), 'lost'), (_e('InternalError', 1213), 'txn')]
TRANSIENT_ROW = [(_e('OperationalError', 1213), 'txn'), (_e('InternalError', 1205), 'stmt'), (_e('OperationalError', 2013), 'lost'),
                 (_e('OperationalError', 1040), 'stmt'), (_e('OperationalError', 2003), 'stmt')]


def _row_classes(n):
    """first, second, middle, the rows around every multiple of 1000, last but one, last"""
    want = {0, 1, n // 2, n - 2, n - 1}
    for k in range(1000, n + 2, 1000):
        want |= {k - 1, k, k + 1}
    return sorted(i for i in want if 0 <= i < n)


def _write_value(nargs):
    """what the recording fake logs for a single statement with the argument tuple (0, 1, .., nargs-1)"""
    return 0 if nargs <= 1 else 10 ** 6 * nargs


def _stmts(c):
    """the writes a successful call must leave in the log, in order"""
    if c['entry'] in ('transaction', 'execute_many'):
        return list(range(c['n']))
    return [_write_value(c.get('nargs', 1))]


def _n_statements(c):
    if c['entry'] == 'execute_many' and c.get('chunk', 1) > 1:
        return -(-c['n'] // c['chunk'])
    return len(_stmts(c))


def _is_transient(e):
    """the property's own list: deadlock 1213, lock-wait timeout 1205, lost connection 2013, connection limit 1040 / cannot connect 2003"""
    return (e['cls'] == 'OperationalError' and e['code'] in (1040, 1213, 2003, 2013)) or (e['cls'] == 'InternalError' and e['code'] == 1205)


def _single_faults(n, errs, lost_errs=None):
    """every injection site of one attempt on n statements"""
    out = []
    for e in errs:
        out.append({'acquire': e})
        out.append({'start': [e, False]})
        out.append({'commit': [e, False]})
        for i in range(n):
            out.append({'stmt': [i, e, 'stmt']})
            out.append({'stmt': [i, e, 'txn']})
    for e in (lost_errs if lost_errs is not None else errs):
        out.append({'start': [e, True]})
        out.append({'commit': [e, True]})
        for i in range(n):
            out.append({'stmt': [i, e, 'lost']})
    return out


def _mk(entry, n, hist, init=None, dirty=False, chunk=None, nargs=None):
    c = {'entry': entry, 'n': n if entry in ('transaction', 'execute_many') else 1, 'init': init if init is not None else [100, 101],
         'dirty_pool': dirty, 'hist': hist}
    if entry == 'execute_many' and chunk and chunk > 1:
        c['chunk'] = chunk
    if entry not in ('transaction', 'execute_many') and nargs and nargs > 1:
        c['nargs'] = nargs
    return c


def _from_doc(doc):
    entry = doc.get('entry', 'transaction')
    return _mk(entry, doc.get('n', 1), doc['hist'], doc.get('init'), doc.get('dirty_pool', False), doc.get('chunk'), doc.get('nargs'))


def _row_fault(i, e, eff):
    return {'stmt': [i, e, eff]}


def _many_cases(ctx, budget, for_oracle):
    """Database.execute_many over long argument arrays: a fault at every row class and at COMMIT, non-transient and transient,
    alone and followed by further faults"""
    rng = ctx.rng
    out = []
    lost_ok = lambda e, eff: (eff != 'lost') or (not for_oracle) or (e in LOST_REALISTIC)      # noqa: E731
    nt = [(e, eff) for e, eff in NONTRANSIENT_ROW if lost_ok(e, eff)]
    tr = [(e, eff) for e, eff in TRANSIENT_ROW if lost_ok(e, eff)]
    if for_oracle:
        for n in MANY_N:
            for i in _row_classes(n):
                for e, eff in nt + tr:
                    out.append(_mk('execute_many', n, [_row_fault(i, e, eff)], init=[-5]))
            for after in (0, n):
                for e, lost in [(nt[0][0], False), (_e('OperationalError', 2006), True), (tr[0][0], False), (_e('OperationalError', 2013), True),
                                (_e('InternalError', 1205), False)]:
                    out.append(_mk('execute_many', n, [{'commit': [e, lost], 'commit_after': after}], init=[-5]))
            out.append(_mk('execute_many', n, [], init=[-5]))
            out.append(_mk('execute_many', n, [{'acquire': tr[3][0]}, {'start': [tr[2][0], True]}], init=[-5]))
        for n in MANY_N_LONG if ctx.tier == 'quick' else MANY_N_LONG + [50001]:
            for i in _row_classes(n):
                for e, eff in (nt[0], tr[1]):
                    out.append(_mk('execute_many', n, [_row_fault(i, e, eff)], init=[-5]))
            out.append(_mk('execute_many', n, [{'commit': [tr[0][0], False], 'commit_after': n}, {'commit': [nt[0][0], False], 'commit_after': n}],
                           init=[-5]))
    else:
        for n in MANY_N_X:
            for i in _row_classes(n):
                for e, eff in (nt[0], tr[0]):
                    out.append(_mk('execute_many', n, [_row_fault(i, e, eff)], init=[-5]))
            out.append(_mk('execute_many', n, [{'commit': [nt[0][0], False], 'commit_after': n}], init=[-5]))
            out.append(_mk('execute_many', n, [{'commit': [_e('OperationalError', 2013), True], 'commit_after': n}], init=[-5]))
            out.append(_mk('execute_many', n, [], init=[-5]))
    # two and three faulty attempts in a row: transient anywhere, then transient / non-transient anywhere (or at COMMIT)
    ns = MANY_N if for_oracle else MANY_N_X
    for _ in range(ctx.scale(60, 600) * budget if for_oracle else ctx.scale(8, 60)):
        n = rng.choice(ns)
        cls = _row_classes(n)
        hist = []
        for j in range(rng.randint(2, 3)):
            last = j > 0 and rng.random() < 0.4
            e, eff = rng.choice(nt if last else tr)
            if rng.random() < 0.2:
                hist.append({'commit': [e, eff == 'lost'], 'commit_after': rng.choice([0, n, rng.randrange(n)])})
            else:
                hist.append(_row_fault(rng.choice(cls) if rng.random() < 0.7 else rng.randrange(n), e, eff))
            if last:
                break
        out.append(_mk('execute_many', n, hist, init=[-5]))
    # random lengths and rows
    for _ in range(ctx.scale(40, 600) * budget if for_oracle else ctx.scale(4, 40)):
        n = rng.randint(2, 3500) if for_oracle else rng.randint(2, 1500)
        e, eff = rng.choice(nt + tr)
        out.append(_mk('execute_many', n, [_row_fault(rng.randrange(n), e, eff)], init=[-5]))
    # aiomysql's bulk path: multi-row wire statements; every statement index
    for n, chunk in ([(2500, 1000), (2500, 300), (2001, 2000), (1001, 1001), (3001, 7)] if for_oracle else [(2500, 1000), (1001, 300)]):
        k = -(-n // chunk)
        idx = range(k) if k <= 12 else sorted({0, 1, k // 2, k - 2, k - 1})
        for i in idx:
            for e, eff in (nt[0], tr[0], tr[1]):
                out.append(_mk('execute_many', n, [_row_fault(i, e, eff)], init=[-5], chunk=chunk))
        out.append(_mk('execute_many', n, [{'commit': [tr[0][0], False], 'commit_after': k}], init=[-5], chunk=chunk))
    return out


def _random_fault(rng, n, errs, lost_errs=None):
    f = rng.choice(_single_faults(max(n, 1), errs, lost_errs))
    if 'stmt' in f and f['stmt'][2] != 'lost' and rng.random() < 0.35:
        f = dict(f)
        f['rollback'] = rng.choice(errs)
    if 'stmt' in f and rng.random() < 0.1:
        f = dict(f)
        f['commit'] = [rng.choice(errs), False]      # never reached when the statement index is in range
    return f


def _load_corpus(ctx):
    d = os.path.join(ctx.verif, 'corpus', ID)
    out = []
    if os.path.isdir(d):
        for fn in sorted(os.listdir(d)):
            if fn.endswith('.json'):
                doc = json.load(open(os.path.join(d, fn)))
                out.append(_from_doc(doc))
    return out


def _cases(ctx, budget, for_oracle):
    rng = ctx.rng
    lost = LOST_REALISTIC if for_oracle else None
    cases = _load_corpus(ctx)
    if for_oracle:
        cases = [c for c in cases if not c['dirty_pool']]
    # one attempt, every site x every error, 0..4 statements (exhaustive)
    for n in range(0, 5):
        for f in _single_faults(n, ALL_ERRS, lost):
            cases.append(_mk('transaction', n, [f]))
    cases.append(_mk('transaction', 3, []))
    # the Database.* helpers
    for h in HELPERS:
        cases.append(_mk(h, 1, []))
        for f in _single_faults(1, TRANSIENT + OTHER[:6], lost):
            cases.append(_mk(h, 1, [f]))
    # up to three consecutive faulty attempts
    for e1 in TRANSIENT:
        for f1 in _single_faults(2, [e1], lost):
            for f2 in (rng.sample(_single_faults(2, ALL_ERRS, lost), 6)):
                cases.append(_mk('transaction', 2, [f1, f2]))
    for _ in range(ctx.scale(300, 8000) * budget):
        n = rng.randint(0, 4)
        k = rng.randint(1, 3)
        hist = [_random_fault(rng, n, TRANSIENT if (j < k - 1 and rng.random() < 0.8) else ALL_ERRS, lost) for j in range(k)]
        entry = 'transaction' if rng.random() < 0.8 else rng.choice(HELPERS)
        cases.append(_mk(entry, n, hist, init=[rng.randrange(1000, 2000) for _ in range(rng.randint(0, 2))]))
    if not for_oracle:
        for n in (0, 1, 3):
            cases.append(_mk('transaction', n, [], dirty=True))
            cases.append(_mk('transaction', n, [{'stmt': [0, TRANSIENT[1], 'txn']}], dirty=True))
    # Database.execute_many with short argument arrays (0..4 rows): every site (exhaustive over a smaller error list)
    for n in range(0, 5):
        cases.append(_mk('execute_many', n, []))
        for f in _single_faults(n, TRANSIENT[1:4] + OTHER[:3], lost):
            cases.append(_mk('execute_many', n, [f]))
    # the single-statement helpers with long argument tuples
    for h in HELPERS:
        if h != 'execute_many':
            for nargs in (1001, 2500):
                cases.append(_mk(h, 1, [], nargs=nargs))
                for f in _single_faults(1, [TRANSIENT[1], OTHER[5]], lost):
                    cases.append(_mk(h, 1, [f, {'commit': [TRANSIENT[4], False]}], nargs=nargs))
    cases += _many_cases(ctx, budget, for_oracle)
    if for_oracle:
        for h in UNRETRIED:
            cases.append(_mk(h, 1, []))
            for f in _single_faults(1, TRANSIENT + OTHER[:6], lost):
                cases.append(_mk(h, 1, [f]))
    return cases


# ------------------------------------------------------------------------------------------------ X

HEADER = ('From Coq Require Import ZArith List Bool. Import ListNotations. From HailV Require Import DbTx.Model DbTx.Inst. '
          'From HailG Require C27.Gen. Open Scope Z_scope.')


def _err_lit(e):
    code = 'None' if e['code'] is None else f'(Some {zlit(e["code"])})'
    return f'(mkErr {COQ_CLASS[e["cls"]]} {code})'


def _bool(b):
    return 'true' if b else 'false'


def _faults_lit(f):
    acq = f'(Some {_err_lit(f["acquire"])})' if 'acquire' in f else 'None'
    st = f'(Some ({_err_lit(f["start"][0])}, {_bool(f["start"][1])}))' if 'start' in f else 'None'
    eff = {'stmt': 'StmtOnly', 'txn': 'TxnRolledBack', 'lost': 'ConnLost'}
    i = f['stmt'][0] if 'stmt' in f else 0
    idx = natlit(i) if i < 20 else f'(Z.to_nat {zlit(i)})'          # unary literals in the thousands take seconds to elaborate
    sm = f'(Some ({idx}, {_err_lit(f["stmt"][1])}, {eff[f["stmt"][2]]}))' if 'stmt' in f else 'None'
    cm = f'(Some ({_err_lit(f["commit"][0])}, {_bool(f["commit"][1])}))' if 'commit' in f else 'None'
    rb = f'(Some {_err_lit(f["rollback"])})' if 'rollback' in f else 'None'
    return f'(mkFaults {acq} {st} {sm} {cm} {rb})'


def _model_err(v):
    if v is None:
        return None
    assert v[0] == 'Some', v
    rec = v[1]
    cls = rec['e_class']
    cls = 'Warning' if cls == 'PyWarning' else cls
    code = rec['e_code']
    return {'cls': cls, 'code': None if code is None else code[1]}


def _runs(log):
    """canonical lossless view of a log: maximal runs [a, len] of consecutive integers (accepts a plain list, the fake's
    {'runs': ..} form and the pairs printed by DbTx.Model.runs)"""
    if isinstance(log, dict):
        return [[int(a), int(k)] for a, k in log['runs']]
    out = []
    for x in log:
        if isinstance(x, (list, tuple)):
            out.append([int(x[0]), int(x[1])])
        elif out and x == out[-1][0] + out[-1][1]:
            out[-1][1] += 1
        else:
            out.append([x, 1])
    return out


def _show(runs):
    return ' '.join(f'{a}' if k == 1 else f'{a}..{a + k - 1}' for a, k in runs) or '(empty)'


def _model_expr(c):
    hist = listlit([_faults_lit(f) for f in c['hist']])
    init = listlit([zlit(x) for x in c['init']])
    if c['entry'] == 'transaction':
        return f'run_Z {listlit([zlit(i) for i in range(c["n"])])} {hist} {init} {_bool(c["dirty_pool"])}'
    assert not c['dirty_pool']
    if c['entry'] == 'execute_many':
        if c.get('chunk', 1) > 1:
            return f'run_chunks_Z {zlit(c["n"])} {zlit(c["chunk"])} {hist} {init}'
        return f'run_many_Z {zlit(c["n"])} {hist} {init}'
    ctor = dict(HELPER_CTOR)[c['entry']]
    return f'run_helper_Z ({ctor} {zlit(_write_value(c.get("nargs", 1)))}) {hist} {init}'


def _model_runs(ctx, cases):
    """the Coq model on the cases -> the impl view (logs as runs)"""
    big = [k for k, c in enumerate(cases) if c['entry'] == 'execute_many' and c['n'] > 50]
    bigset = set(big)
    small = [k for k in range(len(cases)) if k not in bigset]
    vals = {}
    # a long-array case costs ~0.1-1 s of vm_compute, a short one ~1 ms; process start-up dominates small shards
    with concurrent.futures.ThreadPoolExecutor(max_workers=2) as ex:
        futs = [(idx, ex.submit(coq_eval, ctx, HEADER, [_model_expr(cases[k]) for k in idx], label=label, shard=shard))
                for idx, label, shard in ((small, 'tx', 400), (big, 'many', 20))]
        for idx, fut in futs:
            vals.update(zip(idx, fut.result()))
    out = []
    for k in range(len(cases)):
        r, final, tr = vals[k]
        out.append({'result': 'ok' if r is None else _model_err(r), 'final': _runs(final),
                    'trace': [[_model_err(e), _runs(log)] for e, log in tr]})
    return out


def _impl_view(r):
    def ce(e):
        return None if e is None else ({'cls': e['cls'], 'code': e['code']} if not e['cls'].startswith('Other:') else e)
    return {'result': 'ok' if r['result'] == 'ok' else ce(r['result']), 'final': _runs(r['final']),
            'trace': [[ce(e), _runs(log)] for e, log in r['trace']]}


def correspond(ctx):
    cases = _cases(ctx, 1, for_oracle=False)
    out = ctx.run_impl('c27_dbtx.py', {'cases': cases, 'hierarchy': True}, timeout=300)
    impl = out['results']
    model = _model_runs(ctx, cases)
    dis = []
    distinct = set()
    hist = {'ok': 0, 'error': 0}
    att = {}
    groups = {}
    for c, r, m in zip(cases, impl, model):
        distinct.add(json.dumps([c['entry'], c['n'], c.get('chunk'), c.get('nargs'), c['hist'], c['dirty_pool']], sort_keys=True))
        g = _group(c) + ('>1000rows' if c['entry'] == 'execute_many' and c['n'] > 1000 else '')
        groups[g] = groups.get(g, 0) + 1
        hist['ok' if r['result'] == 'ok' else 'error'] += 1
        att[r['attempts']] = att.get(r['attempts'], 0) + 1
        i = _impl_view(r)
        if i != m or r['attempts'] != len(m['trace']):
            dis.append(Disagreement('DbTx.run~gear.database', c, m, dict(i, attempts=r['attempts'])))
    # the shim's class hierarchy vs DbTx.Model.is_instance
    names = PY_CLASSES
    exprs = [f'is_instance {COQ_CLASS[a]} {COQ_CLASS[b]}' for a in names for b in names]
    vals = coq_eval(ctx, HEADER, exprs, label='hier')
    k = 0
    for a in names:
        for b in names:
            if vals[k] != (b in out['hierarchy'][a]):
                dis.append(Disagreement('DbTx.is_instance~pymysql.err', [a, b], vals[k], b in out['hierarchy'][a]))
            k += 1
    nontrivial = sum(1 for c in cases if len(c['hist']) >= 1)
    return Corr(evaluations=len(cases) + len(exprs), distinct_nontrivial=min(nontrivial, len(distinct)),
                rule='distinct (entry point, #statements / #rows of the argument array, rows per wire statement, fault history) with at least '
                     'one injected fault; real gear.database over the fake aiomysql pool vs DbTx.run / gen_helper_run instantiated with the '
                     'generated pieces (vm_compute): call outcome, number of attempts, per attempt the exception that reached the retry '
                     'wrapper and the committed log (as runs of consecutive rows), final log; plus pymysql.err hierarchy',
                samples=[{'case': c, 'impl': _impl_view(r)} for c, r in list(zip(cases, impl))[-3:]],
                disagreements=dis, histograms={'outcome': hist, 'attempts': {str(k): v for k, v in sorted(att.items())},
                                               'correspondence_cases': groups},
                exhaustive=False, names=['DbTx.run~gear.database', 'DbTx.is_instance~pymysql.err'])


# ------------------------------------------------------------------------------------------------ oracle

def _fired(r, k):
    """the injected faults that actually fired in attempt k (reported by the fake) -> (site label, [errors], statement index | None)"""
    fl = r['fired'][k] if k < len(r['fired']) else []
    if not fl:
        return 'none', [], None
    sites = [x[0] for x in fl]
    base = [s for s in sites if s != 'rollback']
    site = '+'.join(base) + ('+rollback-fault' if 'rollback' in sites else '') if base else 'rollback'
    idx = next((x[2] for x in fl if len(x) > 2), None)
    return site, [x[1] for x in fl], idx


def _judge(c, r):
    """the property on one run, from what the adversary did (faults fired per attempt of the retry wrapper) and what the fake
    database shows (committed log after every attempt and at the end) -> [(kind, detail, fault label, statement index | None)]"""
    init = c['init']
    r_init, r_full = _runs(init), _runs(init + _stmts(c))
    retried_entry = c['entry'] not in UNRETRIED
    bad = []
    tr = r['trace']
    if r['attempts'] != len(tr) or len(r['fired']) != len(tr):
        return [('bookkeeping', f'{r["attempts"]} attempts, {len(r["fired"])} fault records but {len(tr)} trace entries', 'trace', None)]
    if r.get('pool_dirty'):
        bad.append(('pool-dirty', 'a connection with an open transaction / pending writes sits in the pool after the call', 'end', None))
    committed_at = None
    for k, (e, log) in enumerate(tr):
        site, errs, idx = _fired(r, k)
        last = k == len(tr) - 1
        label = f'{site}:' + '+'.join(f'{x["cls"]}:{x["code"]}' for x in errs)
        at = '' if idx is None else f' at statement #{idx}'
        if not errs:
            if not (last and r['result'] == 'ok'):
                bad.append(('fault-free-attempt-failed', f'attempt {k + 1} had no fault but did not end the call successfully ({r["result"]})',
                            label, idx))
                break
            committed_at = k
        else:
            kinds = {_is_transient(x) for x in errs}
            if retried_entry and kinds == {True} and last:
                bad.append(('not-retried', f'attempt {k + 1} failed with transient {label}{at} but the call ended with {r["result"]}', label, idx))
            if kinds == {False} and not last:
                bad.append(('retried', f'attempt {k + 1} failed with non-transient {label}{at} but was retried', label, idx))
            if last and r['result'] == 'ok':
                bad.append(('fault-swallowed', f'attempt {k + 1} had fault {label}{at} but the call returned successfully', label, idx))
        want = r_full if committed_at is not None and k >= committed_at else r_init
        got = _runs(log)
        if got != want:
            what = 'duplicated-writes' if sum(x[1] for x in got) > sum(x[1] for x in r_full) else 'partial-writes'
            bad.append((what, f'attempt {k + 1} ({label}{at}): the committed log after it is [{_show(got)}], expected [{_show(want)}]', label, idx))
        if bad:
            break
    if not bad:
        want = r_full if r['result'] == 'ok' else r_init
        got = _runs(r['final'])
        if got != want:
            bad.append(('partial-writes', f'final committed log [{_show(got)}], expected [{_show(want)}]', 'end', None))
    else:
        got = _runs(r['final'])
        if sum(x[1] for x in got) > sum(x[1] for x in r_full) and not any(b[0] == 'duplicated-writes' for b in bad):
            bad.append(('duplicated-writes', f'after the retries the final committed log is [{_show(got)}]: more writes than one successful '
                                             f'run of the operation makes ([{_show(r_full)}])', bad[0][2], bad[0][3]))
    return bad


def _group(c):
    if c['entry'] == 'transaction':
        return 'transaction'
    if c['entry'] in UNRETRIED:
        return 'generators'
    return 'many' if c['entry'] == 'execute_many' and c['n'] > 1 else 'helpers'


def oracle(ctx, budget):
    cases = _cases(ctx, budget, for_oracle=True)
    out = ctx.run_impl('c27_dbtx.py', {'cases': cases}, timeout=600)
    fails = []
    hist = {}
    groups = {}
    for c, r in zip(cases, out['results']):
        g = _group(c)
        groups[g] = groups.get(g, 0) + 1
        if g == 'many' and c['n'] > 1000:
            groups['many>1000rows'] = groups.get('many>1000rows', 0) + 1
        if g == 'many' and c['n'] > 2000:
            groups['many>2000rows'] = groups.get('many>2000rows', 0) + 1
        for kind, detail, label, idx in _judge(c, r):
            hist[kind] = hist.get(kind, 0) + 1
            key = f'{g}:{kind}:{label}'
            if g == 'many' and idx is not None:
                key += f'@stmt{idx // 1000}k'         # which thousand of the argument array was struck
            fails.append(Failure(key, f'{c["entry"]}' + (f' ({c["n"]} rows)' if g == 'many' else '') + f': {detail}', c, expected=None,
                                 observed={'result': r['result'], 'attempts': r['attempts'], 'acquisitions': r.get('acquisitions'),
                                           'fired': r['fired'],
                                           'trace': [[e, _show(_runs(log))] for e, log in r['trace']], 'final': _show(_runs(r['final']))}))
    fails.sort(key=lambda f: (len(json.dumps(f.case)), f.key))
    return fails, {'evaluations': len(cases), 'distinct_nontrivial': len({json.dumps(c, sort_keys=True) for c in cases if c['hist']}),
                   'rule': 'oracle: per attempt of the retry wrapper, retried iff all injected faults that fired are transient (1040/1213/2003/'
                           '2013 operational, 1205 internal), never retried if all are other errors (mixed: either); committed log after every '
                           'attempt = initial, after success = initial + all statements / all rows of the argument array exactly once in order; '
                           'Database.execute_many with 1000..3001 rows struck at the first/middle/last row, around every multiple of 1000 and '
                           'at COMMIT; real gear.database over the fake pool, no model',
                   'samples': [{'case': c, 'observed': {'result': r['result'], 'attempts': r['attempts']}}
                               for c, r in list(zip(cases, out['results']))[-2:]],
                   'histograms': {'oracle_failures': hist, 'oracle_cases': groups}}


def replay(ctx, doc):
    case = doc.get('case') or doc          # replay files carry the case under 'case'; corpus files are the case
    if not (isinstance(case, dict) and 'hist' in case):
        return {'note': 'no replayable input in this file (theorem/translator breakage); stored document follows', 'doc': doc}
    c = _from_doc(case)
    r = ctx.run_impl('c27_dbtx.py', {'cases': [c]})['results'][0]
    shown = dict(r, trace=[[e, _show(_runs(log))] for e, log in r['trace']], final=_show(_runs(r['final'])))
    res = {'case': c, 'impl': shown, 'property_violations': _judge(c, r) if not c['dirty_pool'] else 'n/a (dirty pool precondition)'}
    if c['entry'] in UNRETRIED:
        res['model'] = 'n/a (the un-retried async generators are judged by the oracle only)'
        return res
    try:
        m = _model_runs(ctx, [c])[0]
        res['model'] = dict(m, trace=[[e, _show(log)] for e, log in m['trace']], final=_show(m['final']))
        res['model_agrees'] = m == _impl_view(r)
    except Exception as e:  # noqa
        res['model'] = f'unavailable: {type(e).__name__}'
    return res
