"""C37 — statistical tests: the exact-arithmetic core (PARTIAL; nothing of the Scala engine can be executed here).

Anchors: hail/hail/src/is/hail/stats/package.scala (hardyWeinbergTest, chiSquaredTest, contingencyTableTest, fisherExactTest),
hail/hail/src/is/hail/stats/LeveneHaldane.scala.

Tie: T. The arithmetic of those functions (argument validation and derived counts, the chi-squared statistic, the dispatch of
contingencyTableTest, Fisher's support bounds, the Levene-Haldane recurrences, mode formula, mean and mid-p combinations) is
re-parsed from the current Scala source text and translated to Gallina over exact rationals (Double -> Q) and 32-bit Ints;
Stats/Lemmas*.v prove the generated definitions equal to the mathematical definitions. The class methods of LeveneHaldane -
probability, cumulativeProbability(n0, n1) with its four branches and slice bounds, cumulativeProbability(n1), survivalFunction,
rightMidP, leftMidP - and the choice of mid-p in hardyWeinbergTest are translated with their callees NOT opaque (a stream is
"index -> forced element"; slices are exact finite sums); Stats/LemmasCdf.v proves them equal to P(n0 < X <= n1), P(X = x),
P(X > x), P(X <= x), P(X > x) + P(X = x)/2, P(X <= x) - P(X = x)/2 of the distribution the class instance stands for.
The round-off cut-offs (takeWhile(_ > ...1e-16)) are IGNORED (identity in the model), exactMidP is a hand model whose Scala text
is pinned, and the commons-math distribution functions are NOT modelled. The only link to executed engine behaviour is the set
of outputs recorded in the repository's own doctests and tests, which the exact model must reproduce to 1e-6.
"""
import ast
import math
import re
from fractions import Fraction

from harness.core import Corr, Disagreement, Failure, TieBroken, coq_eval, listlit, zlit
from harness.translate.c37_scala_q import ScalaFrontQ

ID = 'C37'
SRC_PKG = 'hail/hail/src/is/hail/stats/package.scala'
SRC_LH = 'hail/hail/src/is/hail/stats/LeveneHaldane.scala'
SRC_FUNCS = 'hail/python/hail/expr/functions.py'
SRC_TESTS = 'hail/python/test/hail/expr/test_expr.py'
COQ_PROPS = 'theories/Stats/Props_C37.v'
READY = True
META = dict(
    design_ref='§5.G C37',
    technique='Coq proofs over exact rationals about definitions regenerated from the Scala source text (fail-closed translator: Double -> Q, '
              'Int -> 32-bit); comparison of the exact model with the engine outputs recorded in the repository\'s doctests and tests',
    level_text='PARTIAL - exact-arithmetic core only. Machine-checked (Coq 8.16, closed under the global context) about definitions regenerated '
               'from package.scala / LeveneHaldane.scala on every run: hardyWeinbergTest rejects negative counts and derives n, nAB, nA with '
               '0 <= nA <= n and equal parity for all counts with n < 2^30; every step of the Levene-Haldane streams multiplies by the exact '
               'ratio P(nAB+-2)/P(nAB) of the Levene-Haldane distribution and the right stream vanishes past nA; the mean is nA nB/(2n-1); the '
               'normalised masses sum to one; rightMidP, leftMidP (generated combinations) and exactMidP (hand model) lie in [0,1] for every finite '
               'distribution; for every class instance LeveneHaldane(nA, mode, pRU, pLU, pN) satisfying the class invariant lh_state_wf (nA < 2^30) the '
               'GENERATED methods with their branch structure equal their definitions over the distribution the instance stands for - '
               'cumulativeProbability(n0, n1) = P(n0 < X <= n1) for all -1 <= n0, n1 <= nA of either parity (all four branches and slice bounds), '
               'probability(x) = P(X = x) for every Int x, survivalFunction = P(X > n0), cumulativeProbability(n1) = P(X <= n1), '
               'rightMidP = P(X > x) + P(X = x)/2 (the one-sided p-value), leftMidP = P(X <= x) - P(X = x)/2, both in [0,1] - and hardyWeinbergTest '
               'returns rightMidP iff one_sided (C37_lh_class_methods, C37_hwe_pvalue_dispatch; sums are exact, the 1e-16 cut-offs are ignored); '
               'the chi-squared statistic is the textbook N(ad-bc)^2/((a+b)(c+d)(a+c)(b+d)) >= 0 for all tables with positive '
               'margins; contingencyTableTest dispatches on min_cell_count as documented; Fisher\'s support [low, high] contains the observed cell '
               'and is exactly the set of feasible tables (total < 2^31).',
    level_note='Proved vs only run: the class-method theorem assumes the class invariant (mode in the support with nA\'s parity, streams start at 1.0, '
               'are non-negative and reach both ends of the support, pN = their sum - 1); that LeveneHaldane.apply establishes it is NOT proved - it is '
               'evaluated (lh_state_wf, vm_compute) on every (n, nA) the search visits, together with all class methods against exact Python-fraction '
               'references at the mode, next to it (both parities) and at the ends of the support, and hardy_weinberg_test one-/two-sided on count triples '
               'with n_het at and off the mode. exactMidP is NOT translated: the hand model exact_midp is compared with its definition by the search and the '
               'Scala text of exactMidP is pinned token by token (any edit fails closed without a concrete input). '
               'NOT covered: floating-point error, the 1e-16 stream cut-offs and 1e-12 tie tolerance, the mode formula\'s optimality (only searched), '
               'pchisqtail / HypergeometricDistribution / uniroot (commons-math and numerical code), Fisher\'s p-value, odds-ratio estimate and confidence '
               'interval, and "within floating-point tolerance" itself. Nothing of the Scala engine can be executed in the sandbox; the only observed '
               'behaviour is the handful of outputs recorded in functions.py doctests and test_expr.py, which the exact model reproduces to 1e-6.',
    partial=True,
)
TRUSTED = ['harness/translate/c34_monadic.py + c37_scala_q.py: Scala def-body translator (Int = 32-bit, Double = exact rational, '
           'division by zero = None; LazyList = index -> forced element, slice = finite list, takeWhile(_ > round-off cut-off) = identity) and the '
           'regular expressions that cut single vals / method bodies out of the class body',
           'the pinned text of LeveneHaldane.exactMidP (EXACT_MIDP_PINNED) as the link between that method and the hand model Stats.Pipeline.exact_midp',
           'coq/theories/Stats/Model.v and CallPacking/Model.v: primitive operations']
ASSUMPTIONS = ['Double arithmetic is replaced by exact rational arithmetic: rounding error, the 1e-16 stream cut-offs, D_== tolerances and the '
               'commons-math distribution functions (pchisqtail, HypergeometricDistribution) are outside the model',
               'nothing of the engine is executed; recorded outputs from the repository doctests/tests are the only observed behaviour']


# body of LeveneHaldane.exactMidP with all white space removed (see generate)
EXACT_MIDP_PINNED = ('valp0U=probability(nAB)*pNif(D_==(p0U,0.0))0.0else{valcutoff=p0U*0.5e-16defmpU(s:LazyList[Double]):Double={val(sEq,sLess)='
                     's.dropWhile(D_>(_,p0U,tolerance=1.0e-12)).span(D_==(_,p0U,tolerance=1.0e-12))0.5*sEq.sum+sLess.takeWhile(_>cutoff).sum}'
                     '(mpU(pLU.tail)+mpU(pRU))/pN}')


def _rx(pattern, text, what):
    m = re.search(pattern, text, re.S)
    if not m:
        raise TieBroken('scala-translator', f'{what}: expected source shape not found')
    return m


def generate(ctx):
    pkg = ctx.read_repo(SRC_PKG)
    lh = ctx.read_repo(SRC_LH)
    externs = {('chiSquaredTest', 4): ('ext_chiSquaredTest', ['Int'] * 4, 'Ext'),
               ('fisherExactTest', 4): ('ext_fisherExactTest', ['Int'] * 4, 'Ext')}
    f = ScalaFrontQ(pkg + '\n' + lh, 'is/hail/stats/{package,LeveneHaldane}.scala', externs=externs)
    f.INT_TYPES = dict(f.INT_TYPES, RandomGenerator='Ext')
    f.objects.add('stats')
    out = []
    # --- hardyWeinbergTest: validation and derived counts
    out.append(f.translate_prefix('stats', 'hardyWeinbergTest', 4, 'hwe_args', 'nA', ['n', 'nAB', 'nA']))
    # (the tail - which mid-p is returned - is translated below as hwe_pvalue)
    # --- chiSquaredTest: the statistic
    out.append(f.translate_prefix('stats', 'chiSquaredTest', 4, 'chisq_statistic', 'chiSquare', ['chiSquare', 'ad', 'bc']))
    _rx(r'Array\(pchisqtail\(chiSquare, 1\), ad / bc\)', pkg, 'chiSquaredTest result')
    # --- contingencyTableTest: dispatch (chi-squared / Fisher kept opaque)
    out.append(f.translate_def('stats', 'contingencyTableTest', 5, 'contingencyTableTest'))
    # --- fisherExactTest: degenerate-table condition and support bounds
    env4 = {k: 'Int' for k in 'abcd'}
    vals = []
    for name in ('popSize', 'numSuccessPopulation', 'sampleSize', 'numSuccessSample'):
        m = _rx(r'\n    val %s = ([^\n]+)\n' % name, pkg, f'fisherExactTest val {name}')
        e, ty = f.translate_expr_text(m.group(1), env4, 'stats')
        if ty != 'Int':
            raise TieBroken('scala-translator', f'fisherExactTest val {name} is not Int')
        vals.append((name, e))
        env4[name] = 'Int'
    m = _rx(r'if \(\s*(!\(popSize > 0[^\n]*\))\s*\)\s*return Array\(Double\.NaN, Double\.NaN, Double\.NaN, Double\.NaN\)', pkg, 'fisherExactTest NaN condition')
    nan_c, ty = f.translate_expr_text(m.group(1), env4, 'stats')
    lows = []
    for name in ('low', 'high'):
        m = _rx(r'\n    val %s = ([^\n]+)\n' % name, pkg, f'fisherExactTest val {name}')
        e, ty = f.translate_expr_text(m.group(1), env4, 'stats')
        lows.append(e)
    _rx(r'val support = \(low to high\)\.toArray', pkg, 'fisherExactTest support')
    body = ''.join(f'bind {e} (fun {n} =>\n  ' for n, e in vals)
    body += f'bind {nan_c} (fun degenerate =>\n  bind {lows[0]} (fun low =>\n  bind {lows[1]} (fun high =>\n  ret (degenerate, popSize, numSuccessPopulation, sampleSize, low, high))))' + ')' * len(vals)
    out.append(f'Definition fisher_support (a b c d : Z) : option (bool * Z * Z * Z * Z * Z) :=\n  {body}.')
    # --- LeveneHaldane.apply: nB, parity, mode, the two recurrences
    out.append(f.translate_prefix('LeveneHaldane', 'apply', 3, 'lh_args', 'parity', ['nB', 'parity']))
    m = _rx(r'val mode = \(\(x: Double\) => ([^\n]+?)\)\(\s*\n\s*([^\n]+)\n\s*\)\.toInt', lh, 'LeveneHaldane mode formula')
    envm = {'n': 'Int', 'nA': 'Int', 'nB': 'Int', 'parity': 'Int'}
    arg, ty = f.translate_expr_text(m.group(2), envm, 'LeveneHaldane')
    if ty != 'Double':
        raise TieBroken('scala-translator', 'mode argument is not Double')
    lam, ty = f.translate_expr_text(m.group(1), dict(envm, x='Double'), 'LeveneHaldane')
    if ty != 'Int':
        raise TieBroken('scala-translator', 'mode lambda does not yield an integral value')
    out.append(f'Definition lh_mode (n nA nB parity : Z) : option Z :=\n  bind {arg} (fun x =>\n  {lam}).')
    envs = {'n': 'Int', 'nA': 'Int', 'nB': 'Int'}
    out.append(f.translate_stream_def('pRUfrom', 'pRU', envs, ('LeveneHaldane', 'apply', 3)))
    out.append(f.translate_stream_def('pLUfrom', 'pLU', envs, ('LeveneHaldane', 'apply', 3)))
    _rx(r'val pRU = pRUfrom\(mode, 1\.0\)\s*\n\s*val pLU = pLUfrom\(mode, 1\.0\)', lh, 'stream seeds')
    _rx(r'val pN = pRU\.takeWhile\(_ > 1\.0e-16\)\.sum \+ pLU\.takeWhile\(_ > 1\.0e-16\)\.sum - 1\.0', lh, 'normalisation constant')
    # --- class LeveneHaldane: one-line combinations (callees opaque)
    f.externs.update({('survivalFunction', 1): ('ext_survival', ['Int'], 'Double'), ('probability', 1): ('ext_probability', ['Int'], 'Double'),
                      ('cumulativeProbability', 1): ('ext_cdf', ['Int'], 'Double'), ('cumulativeProbability', 2): ('ext_cdf2', ['Int', 'Int'], 'Double')})
    for meth, coq, params in (('rightMidP', 'rightMidP', 'nAB'), ('leftMidP', 'leftMidP', 'nAB')):
        m = _rx(r'def %s\(nAB: Int\) =\s*\n\s*([^\n]+)\n' % meth, lh, meth)
        e, ty = f.translate_expr_text(m.group(1), {'nAB': 'Int'}, 'LeveneHaldane')
        if ty != 'Double':
            raise TieBroken('scala-translator', f'{meth} is not Double')
        out.append(f'Definition {coq} (nAB : Z) : option Q :=\n  {e}.')
    m = _rx(r'def survivalFunction\(n0: Int\): Double =\s*\n\s*([^\n]+)\n', lh, 'survivalFunction')
    e, ty = f.translate_expr_text(m.group(1), {'n0': 'Int', 'nA': 'Int'}, 'LeveneHaldane')
    out.append(f'Definition survivalFunction (nA n0 : Z) : option Q :=\n  {e}.')
    m = _rx(r'override def cumulativeProbability\(n1: Int\): Double =\s*\n\s*([^\n]+)\n', lh, 'cumulativeProbability/1')
    e, ty = f.translate_expr_text(m.group(1), {'n1': 'Int'}, 'LeveneHaldane')
    out.append(f'Definition cumulativeProbability1 (n1 : Z) : option Q :=\n  {e}.')
    m = _rx(r'override def getNumericalMean: Double = ([^\n]+)\n', lh, 'getNumericalMean')
    _rx(r'def nB: Int = 2 \* n - nA', lh, 'nB')
    e, ty = f.translate_expr_text(m.group(1), {'n': 'Int', 'nA': 'Int', 'nB': 'Int'}, 'LeveneHaldane')
    out.append(f'Definition numericalMean (n nA nB : Z) : option Q :=\n  {e}.')
    # probability(): support test and the index arithmetic into the two streams
    m = _rx(r'override def probability\(nAB: Int\): Double =\s*\n\s*if \(([^\n]+)\)\s*\n\s*0\.0\s*\n\s*else if \((nAB >= mode)\)\s*\n\s*pRU\(([^\n]+?)\) / pN\s*\n\s*else\s*\n\s*pLU\(([^\n]+?)\) / pN',
            lh, 'probability')
    envp = {'nAB': 'Int', 'nA': 'Int', 'mode': 'Int'}
    outside, _ = f.translate_expr_text(m.group(1), envp, 'LeveneHaldane')
    right, _ = f.translate_expr_text(m.group(2), envp, 'LeveneHaldane')
    ir, _ = f.translate_expr_text(m.group(3), envp, 'LeveneHaldane')
    il, _ = f.translate_expr_text(m.group(4), envp, 'LeveneHaldane')
    out.append(f'Definition prob_index (nA mode nAB : Z) : option (bool * bool * Z * Z) :=\n  bind {outside} (fun outside =>\n  bind {right} (fun right =>\n'
               f'  bind {ir} (fun ir =>\n  bind {il} (fun il =>\n  ret (outside, right, ir, il))))).')
    # --- class LeveneHaldane with its callees NOT opaque: probability, cumulativeProbability/2 (all four branches, slice bounds),
    #     cumulativeProbability/1, survivalFunction, rightMidP, leftMidP over the class fields (streams = index -> forced element).
    _rx(r'class LeveneHaldane\(\s*val n: Int,\s*val nA: Int,\s*val mode: Int,\s*pRU: LazyList\[Double\],\s*pLU: LazyList\[Double\],\s*pN: Double,\s*rng: RandomGenerator,?\s*\)',
        lh, 'class LeveneHaldane fields')
    _rx(r'new LeveneHaldane\(n, nA, mode, pRU, pLU, pN, rng\)', lh, 'constructor call in LeveneHaldane.apply')
    _rx(r'def apply\(n: Int, nA: Int\): LeveneHaldane = LeveneHaldane\(n, nA, null\)', lh, 'LeveneHaldane.apply/2')
    fields = {'nA': 'Int', 'mode': 'Int', 'pRU': 'Stream', 'pLU': 'Stream', 'pN': 'Double'}
    fb = '(nA mode : Z) (pRU pLU : stream) (pN : Q)'
    fa = 'nA mode pRU pLU pN'
    for k in [k for k in f.externs if k[0] in ('survivalFunction', 'probability', 'cumulativeProbability')]:
        del f.externs[k]

    def method(name, params, coq, ret_decl=r'(?:: Double)?'):
        sig = ', '.join(f'{p}: Int' for p in params)
        mm = _rx(r'\n  (?:override )?def %s\(%s\)%s =[ \t]*\n(.*?)\n[ \t]*\n' % (name, re.escape(sig), ret_decl), lh, f'method {name}/{len(params)}')
        e, ty = f.translate_expr_text(mm.group(1), dict(fields, **{p: 'Int' for p in params}), 'LeveneHaldane')
        if ty != 'Double':
            raise TieBroken('scala-translator', f'{name}/{len(params)} is not Double')
        out.append(f'Definition {coq} {fb} {" ".join(f"({p} : Z)" for p in params)} : option Q :=\n  {e}.')
        f.externs[(name, len(params))] = (f'({coq} {fa})', ['Int'] * len(params), 'Double')
    method('probability', ['nAB'], 'LH_probability')
    # cumulativeProbability/2 calls nothing; /1 and survivalFunction call /2 - translate /2 first, under its own key
    method('cumulativeProbability', ['n0', 'n1'], 'LH_cdf2')
    method('cumulativeProbability', ['n1'], 'LH_cdf1')
    method('survivalFunction', ['n0'], 'LH_survival')
    method('rightMidP', ['nAB'], 'LH_rightMidP')
    method('leftMidP', ['nAB'], 'LH_leftMidP')
    # --- exactMidP is NOT translated (dropWhile / span over lazy streams): its text is pinned token by token to the shape the hand
    #     model Stats.Pipeline.exact_midp was written from, so that any edit breaks the tie (fail closed, without a concrete input)
    mm = _rx(r'\n  def exactMidP\(nAB: Int\) = \{\n(.*?)\n  \}\n', lh, 'exactMidP')
    if ''.join(mm.group(1).split()) != EXACT_MIDP_PINNED:
        raise TieBroken('scala-translator', 'exactMidP: the body differs from the text the hand model exact_midp (half the mass of the equally probable outcomes '
                        'plus the mass of the strictly less probable ones) was written from; it is not translated - review and re-pin')
    # --- hardyWeinbergTest: which mid-p is returned
    m = _rx(r'val LH = LeveneHaldane\(n, nA\)\s*\n\s*val pVal = ([^\n]+)\n\s*Array\(LH\.getNumericalMean / n, pVal\)', pkg, 'hardyWeinbergTest tail')
    f.externs[('rightMidP', 1)] = ('pv_rightMidP', ['Int'], 'Double')
    f.externs[('exactMidP', 1)] = ('pv_exactMidP', ['Int'], 'Double')
    e, ty = f.translate_expr_text(re.sub(r'\bLH\.', '', m.group(1)), {'oneSided': 'Boolean', 'nAB': 'Int'}, 'stats')
    if ty != 'Double':
        raise TieBroken('scala-translator', 'hardyWeinbergTest pVal is not Double')
    out.append(f'Definition hwe_pvalue (pv_rightMidP pv_exactMidP : Z -> option Q) (oneSided : bool) (nAB : Z) : option Q :=\n  {e}.')
    text = f'''(* GENERATED by harness/props/C37.py from {SRC_PKG} and {SRC_LH} - do not edit.
   Double = exact rational Q, Int = 32-bit, exceptions and non-finite results = None. Opaque callees are Section variables. *)
From HailV Require Import Common.Prelude CallPacking.Model Stats.Model.
From Coq Require Import QArith.
Open Scope Z_scope.

Section Gen.
  Variable Ext : Type.
  Variables ext_chiSquaredTest ext_fisherExactTest : Z -> Z -> Z -> Z -> option Ext.
  Variables ext_survival ext_probability ext_cdf : Z -> option Q.
  Variable ext_cdf2 : Z -> Z -> option Q.

''' + '\n\n'.join(out) + '\nEnd Gen.\n'
    ctx.write_generated('Gen.v', text)


# ------------------------------------------------------------------------------------------------
# recorded engine outputs (doctests of functions.py, assertions of test_expr.py) - the only executed behaviour available

HEADER = ('From HailV Require Import Common.Prelude CallPacking.Model Stats.Model Stats.Pipeline.\nFrom Coq Require Import QArith.\n'
          'From HailG Require Import C37.Gen.\nOpen Scope Z_scope.')
QPAIR = 'fun q : Q => (Qnum (Qred q), Z.pos (Qden (Qred q)))'
QLIST = 'fun q : Q => [Qnum (Qred q); Z.pos (Qden (Qred q))]'


def _recorded(ctx):
    """[(function, args tuple, {field: (value, relative tolerance)})] parsed from the repository"""
    funcs = ctx.read_repo(SRC_FUNCS)
    out = []
    for m in re.finditer(r'>>> hl\.eval\(hl\.(hardy_weinberg_test|chi_squared_test|contingency_table_test|fisher_exact_test)\(([^)]*)\)\)\s*\n\s*Struct\(([^)]*)\)', funcs):
        fn, args, fields = m.group(1), m.group(2), m.group(3)
        a = [x.strip() for x in args.split(',')]
        kw = {}
        pos = []
        for x in a:
            if '=' in x:
                k, v = x.split('=')
                kw[k.strip()] = v.strip()
            else:
                pos.append(int(x))
        vals = {}
        for fm in re.finditer(r'(\w+)=([-+0-9.eE]+)', fields):
            vals[fm.group(1)] = (float(fm.group(2)), 1e-9)
        if fn == 'contingency_table_test':
            pos.append(int(kw['min_cell_count']))
        if fn == 'hardy_weinberg_test':
            pos.append(kw.get('one_sided', 'False') == 'True')
        out.append((fn, tuple(pos), vals, 'doctest'))
    try:
        tests = ctx.read_repo(SRC_TESTS)
    except OSError:
        tests = ''
    # res = hl.eval(hl.f(args)) followed by assertAlmostEqual(res['x'] / V, 1.0, places=4) or assertAlmostEqual(res['x'], V)
    for m in re.finditer(r"(\w+) = hl\.eval\(hl\.(hardy_weinberg_test|chi_squared_test|contingency_table_test|fisher_exact_test)\(([^)]*)\)\)\n((?:\s+self\.assert[^\n]*\n)+)", tests):
        var, fn, args, body = m.groups()
        pos, kw = [], {}
        ok = True
        for x in [x.strip() for x in args.split(',')]:
            if '=' in x:
                k, v = x.split('=')
                kw[k.strip()] = v.strip()
            else:
                try:
                    pos.append(int(x))
                except ValueError:
                    ok = False
        if not ok:
            continue
        if fn == 'hardy_weinberg_test':
            pos.append(kw.get('one_sided', 'False') == 'True')
        vals = {}
        for am in re.finditer(r"assertAlmostEqual\(%s\['(\w+)'\] / ([-+0-9.eE]+), 1\.0, places=(\d+)\)" % re.escape(var), body):
            vals[am.group(1)] = (float(am.group(2)), 10 ** -(int(am.group(3)) - 1))
        for am in re.finditer(r"assertAlmostEqual\(%s\['(\w+)'\], ([-+0-9.eE]+)\)" % re.escape(var), body):
            v = float(am.group(2))
            vals[am.group(1)] = (v, 1e-6 / max(abs(v), 1e-12))
        if vals:
            out.append((fn, tuple(pos), vals, 'test_expr'))
    return out


def _hyper_two_sided(N, K, s, low, high, obs):
    """Fisher two-sided p-value over the support [low, high] in exact arithmetic (R's definition, as the engine implements it)."""
    den = math.comb(N, s)
    pm = {k: Fraction(math.comb(K, k) * math.comb(N - K, s - k), den) for k in range(low, high + 1)}
    return float(sum(v for v in pm.values() if v <= pm[obs] * (1 + Fraction(1, 10 ** 7))))


def correspond(ctx):
    rec = _recorded(ctx)
    if len(rec) < 6:
        raise TieBroken('recorded-outputs', f'only {len(rec)} recorded examples found in {SRC_FUNCS} / {SRC_TESTS}')
    exprs, plan = [], []
    for fn, args, vals, origin in rec:
        if fn == 'hardy_weinberg_test':
            r, h, v, one = args
            if r + h + v > ctx.scale(400, 2000):
                continue          # exact rationals for large n are slow: thorough tier only
            exprs.append(f'match hwe_model {r} {h} {v} {"true" if one else "false"} with Some (a, b) => Some (({QLIST}) a ++ ({QLIST}) b) | None => None end')
            plan.append((fn, args, vals, origin))
        elif fn == 'chi_squared_test':
            a, b, c, d = args
            exprs.append(f'match chisq_statistic {a} {b} {c} {d} with Some (x, ad, bc) => Some (({QLIST}) x ++ ({QLIST}) ad ++ ({QLIST}) bc) | None => None end')
            plan.append((fn, args, vals, origin))
        elif fn == 'contingency_table_test':
            a, b, c, d, mc = args
            exprs.append(f'contingencyTableTest Z (fun _ _ _ _ => Some 1) (fun _ _ _ _ => Some 2) {a} {b} {c} {d} {mc}')
            plan.append((fn, args, vals, origin))
        elif fn == 'fisher_exact_test':
            a, b, c, d = args
            exprs.append(f'fisher_support {a} {b} {c} {d}')
            plan.append((fn, args, vals, origin))
    mv = coq_eval(ctx, HEADER, exprs, shard=4, label='rec')
    dis = []
    rec_chi = {args: vals for fn, args, vals, _ in rec if fn == 'chi_squared_test'}
    rec_fis = {args: vals for fn, args, vals, _ in rec if fn == 'fisher_exact_test'}

    def close(x, ref, tol):
        if math.isnan(ref):
            return x is None or (isinstance(x, float) and math.isnan(x))
        return x is not None and abs(x - ref) <= tol * max(abs(ref), 1e-300)
    samples = []
    for (fn, args, vals, origin), m in zip(plan, mv):
        case = {'kind': 'recorded', 'function': fn, 'args': list(args), 'origin': origin}
        got = {}
        if fn == 'hardy_weinberg_test':
            if m is not None:
                hn, hd, pn, pd = m[1]
                got = {'het_freq_hwe': hn / hd, 'p_value': pn / pd}
        elif fn == 'chi_squared_test':
            if m is not None:
                xn, xd, an, ad_, bn, bd = m[1]
                x = Fraction(xn, xd)
                got = {'p_value': math.erfc(math.sqrt(float(x) / 2)), 'odds_ratio': (an / ad_) / (bn / bd) if bn else float('nan')}
        elif fn == 'contingency_table_test':
            which = m[1] if m is not None else None
            ref = rec_chi.get(args[:4]) if which == 1 else rec_fis.get(args[:4]) if which == 2 else None
            if ref is not None:
                got = {k: ref[k][0] for k in vals if k in ref}
            else:
                got = {'dispatch': which}
        elif fn == 'fisher_exact_test':
            if m is not None:
                deg, N, K, s, low, high = m[1]
                if deg:
                    got = {k: float('nan') for k in vals}
                else:
                    got = {'p_value': _hyper_two_sided(N, K, s, low, high, args[0])}        # conditional MLE / CI: not modelled, not compared
        bad = {k: (got.get(k), ref) for k, (ref, tol) in vals.items() if k in got and not close(got.get(k), ref, max(tol, 1e-6))}
        if not got:
            bad = {'(no model value)': (None, None)}
        samples.append({'case': case, 'model': got, 'recorded': {k: v[0] for k, v in vals.items()}})
        if bad:
            dis.append(Disagreement('exact-model~recorded-engine-output', case, {k: v[0] for k, v in bad.items()}, {k: v[1] for k, v in bad.items()}))
    return Corr(evaluations=len(plan), distinct_nontrivial=len({(fn, args) for fn, args, _, _ in plan}),
                rule='recorded outputs: every doctest example of functions.py and every assertAlmostEqual of test_expr.py for the four tests '
                     '(inputs, field, value, tolerance); the exact model (vm_compute; p-values of chi-squared via erfc, of Fisher via the exact '
                     'hypergeometric pmf over the modelled support) must reproduce them to max(1e-6, recorded tolerance) relative',
                samples=samples[:6], disagreements=dis, names=['exact-model~recorded-engine-output'])


# ------------------------------------------------------------------------------------------------
# model-level search for a concrete input (the engine cannot be executed)

def _lh_weight(nA, nB, k):
    return Fraction(2 ** k, math.factorial((nA - k) // 2) * math.factorial(k) * math.factorial((nB - k) // 2))


def _lh_pmf(n, nA):
    """the Levene-Haldane distribution of the number of heterozygotes given n samples and nA minor alleles (exact)"""
    nB = 2 * n - nA
    w = {k: _lh_weight(nA, nB, k) for k in range(nA % 2, nA + 1, 2)}
    tot = sum(w.values())
    return {k: x / tot for k, x in w.items()}


def _py_mode(n, nA):
    """the documented mode formula, exactly: 2 round((x - parity) / 2) + parity with x = (nA + 1)(nB + 1) / (2n + 3)"""
    nB, par = 2 * n - nA, nA % 2
    x = Fraction((nA + 1) * (nB + 1), 2 * n + 3)
    return 2 * math.floor((x - par) / 2 + Fraction(1, 2)) + par


def _midp_refs(pmf, x):
    """(P(X = x), P(X <= x), P(X > x), right mid-p, left mid-p, two-sided mid-p) by their definitions"""
    p = pmf.get(x, Fraction(0))
    cdf = sum((v for k, v in pmf.items() if k <= x), Fraction(0))
    surv = sum((v for k, v in pmf.items() if k > x), Fraction(0))
    two = sum((v for v in pmf.values() if v < p), Fraction(0)) + sum((v for v in pmf.values() if v == p), Fraction(0)) / 2
    return [p, cdf, surv, surv + p / 2, cdf - p / 2, two]


METHOD_NAMES = ['probability', 'cumulativeProbability/1', 'survivalFunction', 'rightMidP', 'leftMidP', 'exactMidP']


def _where(x, mode):
    return 'at-mode' if x == mode else 'below-mode' if x < mode else 'above-mode'


def _frac(v):
    """parsed `option (Z * Z)` -> Fraction | None"""
    return None if v is None else Fraction(v[1][0], v[1][1])


def oracle(ctx, budget):
    """There is NO executable implementation of C37 in this sandbox (Scala only). The search below evaluates the definitions
    regenerated from the Scala text against independent exact references (Python fractions) and reports the first differing
    input, labelled as evidence about the MODEL of the engine."""
    rng = ctx.rng
    fails = []
    tables = [(a, b, c, d) for a in range(0, 4) for b in range(0, 4) for c in range(0, 3) for d in range(0, 3)]
    tables += [(51, 43, 22, 92), (61, 17493, 95, 84145), (10, 10, 10, 10)]
    while len(tables) < ctx.scale(220, 1500) * budget:
        tables.append(tuple(rng.choice([rng.randrange(0, 6), rng.randrange(0, 100), rng.randrange(0, 100000)]) for _ in range(4)))
    hw = [(r, h, v) for r in range(0, 4) for h in range(0, 4) for v in range(0, 4)]
    while len(hw) < ctx.scale(120, 800) * budget:
        hw.append(tuple(rng.choice([rng.randrange(0, 5), rng.randrange(0, 60), rng.randrange(0, 100000)]) for _ in range(3)))
    lh = []
    for n in list(range(1, 9)) + [rng.randrange(9, 60) for _ in range(ctx.scale(10, 80))]:
        for nA in sorted({0, 1, 2, n // 2, n - 1, n} | {rng.randrange(0, n + 1)}):
            if 0 <= nA <= n:
                nB = 2 * n - nA
                for k in range(nA % 2, nA + 1, 2):
                    lh.append((n, nA, nB, k))
    # (n, nA) points for the mean nA*nB/(2n-1), including biobank-scale sample counts (the intermediate product is large there)
    means = [(n, nA) for n in (1, 2, 3, 7) for nA in range(0, 2 * n + 1)]
    while len(means) < ctx.scale(150, 1000) * budget:
        n = rng.choice([rng.randrange(1, 100), rng.randrange(100, 100000), rng.randrange(30000, 1000000)])
        means.append((n, rng.choice([rng.randrange(0, 2 * n + 1), n, n - 1, 2 * n, max(0, n // 2)])))
    exprs = []
    for t in tables:
        a, b, c, d = t
        exprs.append(f'match chisq_statistic {a} {b} {c} {d} with Some (x, _, _) => Some (({QPAIR}) x) | None => None end')
        exprs.append(f'fisher_support {a} {b} {c} {d}')
        mc = (a + b + c) % 7
        exprs.append(f'contingencyTableTest Z (fun _ _ _ _ => Some 1) (fun _ _ _ _ => Some 2) {a} {b} {c} {d} {zlit(mc - 1)}')
    for r, h, v in hw:
        exprs.append(f'hwe_args {r} {h} {v} false')
    for n, nA, nB, k in lh:
        exprs.append(f'(match pRU_next_val {n} {nA} {nB} {k} 1%Q with Some x => Some (({QPAIR}) x) | None => None end, '
                     f'match pLU_next_val {n} {nA} {nB} {k} 1%Q with Some x => Some (({QPAIR}) x) | None => None end, lh_mode {n} {nA} {nB} {nA % 2})')
    for n, nA in means:
        exprs.append(f'match numericalMean {n} {nA} {2 * n - nA} with Some x => Some (({QPAIR}) x) | None => None end')
    # class methods of LeveneHaldane (probability, cumulativeProbability/1/2, survivalFunction, rightMidP, leftMidP, exactMidP) on
    # instances (n, nA) at points x - always including the mode itself, its neighbours (both parities) and the ends of the support
    states = [(n, nA) for n in range(1, 7) for nA in range(0, n + 1)]
    while len(states) < ctx.scale(45, 300) * budget:
        n = rng.choice([rng.randrange(7, 25), rng.randrange(25, 70)])
        states.append((n, rng.choice([rng.randrange(0, n + 1), n, n - 1, n // 2])))
    method_pts = []
    for n, nA in states:
        m = _py_mode(n, nA)
        xs = set(range(-1, nA + 1)) if nA <= 12 else {-1, 0, 1, nA - 1, nA, m - 2, m - 1, m, m + 1, m + 2} | {rng.randrange(0, nA + 1) for _ in range(3)}
        method_pts.append((n, nA, sorted(x for x in xs if -1 <= x <= nA)))
    grid_pts = []
    for n, nA in states:
        m = _py_mode(n, nA)
        if n <= 5:
            pts = [(n0, n1) for n0 in range(-1, nA + 1) for n1 in range(-2, nA + 1)]
        else:
            pts = [(m, nA), (m - 1, nA), (m - 2, nA), (m - 2, m), (m, m + 2), (m - 1, m + 1), (-1, m), (-1, m - 1), (-1, nA), (m + 2, nA), (m - 4, m - 2)]
            pts += [tuple(sorted((rng.randrange(-1, nA + 1), rng.randrange(-1, nA + 1)))) for _ in range(6)]
            pts = [(a, b) for a, b in pts if -1 <= a and b <= nA]
        grid_pts.append((n, nA, sorted(set(pts))))
    hwp = [(r, h, v, os_) for r in range(0, 4) for h in range(0, 4) for v in range(0, 4) for os_ in (True, False) if r + h + v > 0]
    while len(hwp) < ctx.scale(160, 600) * budget:
        r, h, v = (rng.choice([rng.randrange(0, 6), rng.randrange(0, 30)]) for _ in range(3))
        if r + h + v > 0:
            hwp.append((r, h, v, rng.random() < 0.6))
        if rng.random() < 0.5:      # data sitting exactly at the Hardy-Weinberg expectation: n_het equal to the mode
            n = rng.randrange(2, 50)
            nA = rng.randrange(0, n + 1)
            m = _py_mode(n, nA)
            if 0 <= m <= nA and n - m - (nA - m) // 2 >= 0:
                hwp.append(((nA - m) // 2, m, n - m - (nA - m) // 2, True))
    for n, nA, xs in method_pts:
        exprs.append(f'lh_methods {n} {nA} {listlit([zlit(x) for x in xs])}')
    for n, nA, pts in grid_pts:
        exprs.append(f'lh_cdf2_grid {n} {nA} {listlit(["(%s, %s)" % (zlit(a), zlit(b)) for a, b in pts])}')
    for r, h, v, os_ in hwp:
        exprs.append(f'match hwe_model {r} {h} {v} {"true" if os_ else "false"} with Some (a, b) => Some (({QLIST}) a ++ ({QLIST}) b) | None => None end')
    try:
        mv = coq_eval(ctx, HEADER, exprs, shard=200, label='oracle')
    except Exception as ex:  # noqa: BLE001 - generated file missing when the translator failed closed
        ctx.notes.append(f'model-level search not available: {str(ex)[:200]}')
        return [], {'evaluations': 0, 'distinct_nontrivial': 0, 'rule': 'no executable implementation (Scala); model-level search unavailable'}
    pos = 0

    def some(v):
        return None if v is None else v[1]
    for a, b, c, d in tables:
        chi, fs, disp = some(mv[pos]), some(mv[pos + 1]), some(mv[pos + 2])
        pos += 3
        case = {'kind': 'table', 'table': [a, b, c, d]}
        den = (a + b) * (c + d) * (a + c) * (b + d)
        ref = Fraction((a + b + c + d) * (a * d - b * c) ** 2, den) if den else None
        if (a + b) * (c + d) == 0 or (b + d) * (a + c) == 0:
            ref = None
        got = None if chi is None else Fraction(chi[0], chi[1])
        if got != ref:
            fails.append(Failure('engine-model:chi-squared-statistic', f'MODEL of chiSquaredTest (regenerated from package.scala, not executed): statistic for {a, b, c, d} '
                                 f'is {got}, the textbook N(ad-bc)^2/((a+b)(c+d)(a+c)(b+d)) is {ref}', case, str(ref), str(got)))
        N, K, s = a + b + c + d, a + c, a + b
        low, high = max(0, s - (b + d)), min(s, K)
        deg = not (N > 0 and s > 0 and s < N and K > 0 and K < N)
        if fs is None or tuple(fs) != (deg, N, K, s, low, high):
            fails.append(Failure('engine-model:fisher-support', f'MODEL of fisherExactTest (not executed): support data for {a, b, c, d} is {fs}, expected '
                                 f'{(deg, N, K, s, low, high)}', case, [deg, N, K, s, low, high], fs))
        mc = (a + b + c) % 7 - 1
        exp = None if mc < 0 else (1 if min(a, b, c, d) >= mc else 2)
        if disp != exp:
            fails.append(Failure('engine-model:contingency-dispatch', f'MODEL of contingencyTableTest (not executed): table {a, b, c, d} with min_cell_count {mc} '
                                 f'dispatches to {disp}, expected {exp} (1 = chi-squared, 2 = Fisher, None = error)', dict(case, min_cell_count=mc), exp, disp))
    for r, h, v in hw:
        m = some(mv[pos]); pos += 1
        exp = (r + h + v, h, h + 2 * min(r, v))
        if m is None or tuple(m) != exp:
            fails.append(Failure('engine-model:hwe-arguments', f'MODEL of hardyWeinbergTest (not executed): (n, nAB, nA) for {r, h, v} is {m}, expected {exp}',
                                 {'kind': 'hwe', 'counts': [r, h, v]}, list(exp), m))
    for n, nA, nB, k in lh:
        m = mv[pos]; pos += 1
        right, left, mode = some(m[0]), some(m[1]), some(m[2])
        case = {'kind': 'lh', 'n': n, 'nA': nA, 'nB': nB, 'nAB': k}
        exp_r = _lh_weight(nA, nB, k + 2) / _lh_weight(nA, nB, k) if k + 2 <= nA else Fraction(0)
        if right is None or Fraction(right[0], right[1]) != exp_r:
            fails.append(Failure('engine-model:lh-right-ratio', f'MODEL of LeveneHaldane.pRUfrom (not executed): step from nAB={k} (n={n}, nA={nA}) multiplies by {right}, '
                                 f'the Levene-Haldane ratio P(nAB+2)/P(nAB) is {exp_r}', case, str(exp_r), right))
        if k >= 2:
            exp_l = _lh_weight(nA, nB, k - 2) / _lh_weight(nA, nB, k)
            if left is None or Fraction(left[0], left[1]) != exp_l:
                fails.append(Failure('engine-model:lh-left-ratio', f'MODEL of LeveneHaldane.pLUfrom (not executed): step from nAB={k} (n={n}, nA={nA}) multiplies by {left}, '
                                     f'the Levene-Haldane ratio P(nAB-2)/P(nAB) is {exp_l}', case, str(exp_l), left))
        # the mode formula must give a maximiser of the weight among the support points
        if mode is not None:
            ws = {j: _lh_weight(nA, nB, j) for j in range(nA % 2, nA + 1, 2)}
            if mode not in ws or ws[mode] != max(ws.values()):
                fails.append(Failure('engine-model:lh-mode', f'MODEL of the mode formula (not executed): n={n}, nA={nA} gives mode {mode}, which is not a most probable outcome',
                                     case, max(ws, key=ws.get), mode))
    for n, nA in means:
        m = some(mv[pos]); pos += 1
        exp_m = Fraction(nA * (2 * n - nA), 2 * n - 1)
        if m is None or Fraction(m[0], m[1]) != exp_m:
            fails.append(Failure('engine-model:lh-mean', f'MODEL of LeveneHaldane.getNumericalMean (regenerated from the Scala text with its Int/Double typing, not '
                                 f'executed): n={n}, nA={nA}, nB={2 * n - nA} gives {m}, the mean nA*nB/(2n-1) is {exp_m} (het_freq_hwe = mean / n)',
                                 {'kind': 'mean', 'n': n, 'nA': nA, 'nB': 2 * n - nA}, str(exp_m), m))
    at_mode = {'at-mode': 0, 'below-mode': 0, 'above-mode': 0}
    for n, nA, xs in method_pts:
        m = some(mv[pos]); pos += 1
        case0 = {'kind': 'lh-methods', 'n': n, 'nA': nA}
        if m is None:
            fails.append(Failure('engine-model:lh-state', f'MODEL of LeveneHaldane.apply (not executed): no class instance for n={n}, nA={nA}', case0, 'a class instance', None))
            continue
        wf, mode, rows = m
        pmf = _lh_pmf(n, nA)
        if not wf or mode != _py_mode(n, nA):
            fails.append(Failure('engine-model:lh-class-invariant', f'MODEL of LeveneHaldane.apply (not executed): for n={n}, nA={nA} the instance (mode {mode}) violates the class '
                                 f'invariant (mode = documented formula {_py_mode(n, nA)} in the support with nA\'s parity; streams start at 1.0, are non-negative, reach both '
                                 'ends of the support; pN = their sum - 1): the theorems about the class methods do not apply', case0, True, wf))
        for x, row in zip(xs, rows):
            refs = _midp_refs(pmf, x)
            at_mode[_where(x, mode)] += 1
            for name, got, ref in zip(METHOD_NAMES, row, refs):
                g = _frac(got)
                if g != ref:
                    fails.append(Failure(f'engine-model:lh-{name}:{_where(x, mode)}', f'MODEL of LeveneHaldane.{name} (regenerated from the Scala text with its branches and slice bounds, exact '
                                         f'sums, not executed): for n={n}, nA={nA} (mode {mode}) {name}({x}) = {g}, the definition gives {ref}'
                                         + (f' (a probability must lie in [0, 1])' if g is not None and not 0 <= g <= 1 else ''),
                                         dict(case0, x=x, method=name, mode=mode), str(ref), str(g)))
    for n, nA, pts in grid_pts:
        m = some(mv[pos]); pos += 1
        pmf = _lh_pmf(n, nA)
        mode = _py_mode(n, nA)
        for (n0, n1), got in zip(pts, m or [None] * len(pts)):
            ref = sum((v for k, v in pmf.items() if n0 < k <= n1), Fraction(0))
            g = _frac(got)
            if g != ref:
                branch = 'empty' if (n0 >= n1 or n0 >= nA or n1 < nA % 2) else 'right-of-mode' if n0 > mode else 'from-mode' if n0 == mode else 'left-of-mode' if n1 < mode else 'straddles-mode'
                fails.append(Failure(f'engine-model:lh-cumulativeProbability/2:{branch}', f'MODEL of LeveneHaldane.cumulativeProbability(n0, n1) (regenerated from the Scala text, exact sums, not '
                                     f'executed): for n={n}, nA={nA} (mode {mode}) cumulativeProbability({n0}, {n1}) = {g}, P({n0} < X <= {n1}) = {ref}',
                                     {'kind': 'lh-cdf2', 'n': n, 'nA': nA, 'n0': n0, 'n1': n1, 'mode': mode}, str(ref), str(g)))
    n_at_mode_hw = 0
    for r, h, v, os_ in hwp:
        m = some(mv[pos]); pos += 1
        n, nA = r + h + v, h + 2 * min(r, v)
        refs = _midp_refs(_lh_pmf(n, nA), h)
        exp = (Fraction(nA * (2 * n - nA), (2 * n - 1) * n), refs[3] if os_ else refs[5])
        got = None if m is None else (Fraction(m[0], m[1]), Fraction(m[2], m[3]))
        mode = _py_mode(n, nA)
        n_at_mode_hw += h == mode
        if got != exp:
            fails.append(Failure(f'engine-model:hardy-weinberg-test:{"one-sided" if os_ else "two-sided"}:{_where(h, mode)}',
                                 f'MODEL of hardyWeinbergTest (regenerated from the Scala text, exact sums, not executed): hardy_weinberg_test({r}, {h}, {v}, one_sided={os_}) = '
                                 f'(het_freq_hwe, p_value) = {got}, the definitions give {exp} (n_het = {h}, mode of the Levene-Haldane distribution = {mode})'
                                 + (' - a p-value above 1' if got is not None and got[1] > 1 else ''),
                                 {'kind': 'hwe-p', 'counts': [r, h, v], 'one_sided': os_, 'mode': mode}, [str(e) for e in exp], None if got is None else [str(g) for g in got]))
    ctx.notes.append(f'class-method points by position: {at_mode}; hardy_weinberg_test inputs with n_het = mode: {n_at_mode_hw} of {len(hwp)}')
    stats = {'evaluations': len(exprs), 'distinct_nontrivial': len(set(tables)) + len(set(hw)) + len(set(lh)) + len(set(means))
             + sum(len(xs) for _, _, xs in method_pts) + sum(len(p) for _, _, p in grid_pts) + len(set(hwp)),
             'histograms': {'class_method_points': at_mode, 'hwe_inputs_with_n_het_at_mode': n_at_mode_hw, 'hwe_inputs': len(hwp),
                           'cdf2_interval_points': sum(len(p) for _, _, p in grid_pts)},
             'rule': 'NO executable implementation exists here (Scala only): generated definitions (vm_compute) vs exact references computed with Python '
                     'fractions on small-scope + seeded random 2x2 tables, genotype-count triples and (n, nA, nAB) points; the class methods of '
                     'LeveneHaldane (with the class invariant) on instances (n, nA) at the mode, around it in both parities and at the ends of the support, '
                     'cumulativeProbability(n0, n1) on interval grids, hardy_weinberg_test one-/two-sided on triples with n_het at and off the mode; '
                     'non-trivial = distinct inputs'}
    return fails, stats


def replay(ctx, doc):
    case = doc.get('case') or {}
    out = {'case': case, 'note': 'C37 has no executable implementation in the sandbox; the values below are those of the model regenerated from the Scala text'}
    try:
        if case.get('kind') == 'table':
            a, b, c, d = case['table']
            m = coq_eval(ctx, HEADER, [f'(match chisq_statistic {a} {b} {c} {d} with Some (x, _, _) => Some (({QPAIR}) x) | None => None end, fisher_support {a} {b} {c} {d})'])[0]
            out['model'] = m
        elif case.get('kind') == 'hwe':
            r, h, v = case['counts']
            out['model'] = coq_eval(ctx, HEADER, [f'hwe_args {r} {h} {v} false'])[0]
        elif case.get('kind') == 'lh':
            n, nA, nB, k = case['n'], case['nA'], case['nB'], case['nAB']
            out['model'] = coq_eval(ctx, HEADER, [f'(match pRU_next_val {n} {nA} {nB} {k} 1%Q with Some x => Some (({QPAIR}) x) | None => None end, lh_mode {n} {nA} {nB} {nA % 2})'])[0]
        elif case.get('kind') == 'mean':
            n, nA, nB = case['n'], case['nA'], case['nB']
            out['model'] = coq_eval(ctx, HEADER, [f'match numericalMean {n} {nA} {nB} with Some x => Some (({QPAIR}) x) | None => None end'])[0]
            out['expected'] = str(Fraction(nA * nB, 2 * n - 1))
        elif case.get('kind') == 'lh-methods':
            n, nA, x = case['n'], case['nA'], case.get('x', 0)
            out['model'] = coq_eval(ctx, HEADER, [f'lh_methods {n} {nA} [{zlit(x)}]'])[0]
            out['methods'] = METHOD_NAMES
            out['expected'] = [str(f) for f in _midp_refs(_lh_pmf(n, nA), x)]
        elif case.get('kind') == 'lh-cdf2':
            n, nA, n0, n1 = case['n'], case['nA'], case['n0'], case['n1']
            out['model'] = coq_eval(ctx, HEADER, [f'lh_cdf2_grid {n} {nA} [({zlit(n0)}, {zlit(n1)})]'])[0]
            out['expected'] = str(sum((v for k, v in _lh_pmf(n, nA).items() if n0 < k <= n1), Fraction(0)))
        elif case.get('kind') == 'hwe-p':
            (r, h, v), os_ = case['counts'], case['one_sided']
            out['model'] = coq_eval(ctx, HEADER, [f'match hwe_model {r} {h} {v} {"true" if os_ else "false"} with Some (a, b) => Some (({QLIST}) a ++ ({QLIST}) b) | None => None end'])[0]
            n, nA = r + h + v, h + 2 * min(r, v)
            refs = _midp_refs(_lh_pmf(n, nA), h)
            out['expected'] = [str(Fraction(nA * (2 * n - nA), (2 * n - 1) * n)), str(refs[3] if os_ else refs[5])]
        elif case.get('kind') == 'recorded':
            out['note'] += '; recorded example: re-run the check to compare'
    except Exception as ex:  # noqa: BLE001
        out['model'] = f'not available: {str(ex)[:200]}'
    return out
