"""C37 — statistical tests: the exact-arithmetic core (PARTIAL; nothing of the Scala engine can be executed here).

Anchors: hail/hail/src/is/hail/stats/package.scala (hardyWeinbergTest, chiSquaredTest, contingencyTableTest, fisherExactTest),
hail/hail/src/is/hail/stats/LeveneHaldane.scala.

Tie: T. The arithmetic of those functions (argument validation and derived counts, the chi-squared statistic, the dispatch of
contingencyTableTest, Fisher's support bounds, the Levene-Haldane recurrences, mode formula, mean and mid-p combinations) is
re-parsed from the current Scala source text and translated to Gallina over exact rationals (Double -> Q) and 32-bit Ints;
Stats/Lemmas.v proves the generated definitions equal to the mathematical definitions. The lazy streams, cut-offs and the
commons-math distribution functions are NOT modelled. The only link to executed engine behaviour is the set of outputs
recorded in the repository's own doctests and tests, which the exact model must reproduce to 1e-6.
"""
import ast
import math
import re
from fractions import Fraction

from harness.core import Corr, Disagreement, Failure, TieBroken, coq_eval, zlit
from harness.translate.c37_scala_q import ScalaFrontQ

ID = 'C37'
SRC_PKG = 'hail/hail/src/is/hail/stats/package.scala'
SRC_LH = 'hail/hail/src/is/hail/stats/LeveneHaldane.scala'
SRC_FUNCS = 'hail/python/hail/expr/functions.py'
SRC_TESTS = 'hail/python/test/hail/expr/test_expr.py'
COQ_PROPS = 'theories/Stats/Props_C37.v'
READY = False
META = dict(design_ref='§5.G C37', technique='', level_text='', level_note='', partial=True)
TRUSTED = ['harness/translate/c34_monadic.py + c37_scala_q.py: Scala def-body translator (Int = 32-bit, Double = exact rational, '
           'division by zero = None) and the regular expressions that cut single vals / one-line methods out of the class body',
           'coq/theories/Stats/Model.v and CallPacking/Model.v: primitive operations']
ASSUMPTIONS = ['Double arithmetic is replaced by exact rational arithmetic: rounding error, the 1e-16 stream cut-offs, D_== tolerances and the '
               'commons-math distribution functions (pchisqtail, HypergeometricDistribution) are outside the model',
               'nothing of the engine is executed; recorded outputs from the repository doctests/tests are the only observed behaviour']


def _rx(pattern, text, what):
    m = re.search(pattern, text, re.S)
    if not m:
        raise TieBroken('scala-translator', f'{what}: expected source shape not found')
    return m


def generate(ctx):
    pkg = ctx.read_repo(SRC_PKG)
    lh = ctx.read_repo(SRC_LH)
    externs = {('chiSquaredTest', 4): ('ext_chiSquaredTest', ['Int'] * 4, 'Ext'),
               ('fisherExactTest', 4): ('ext_fisherExactTest', ['Int'] * 4, 'Ext')}
    f = ScalaFrontQ(pkg + '\n' + lh, 'is/hail/stats/{package,LeveneHaldane}.scala', externs=externs)
    f.INT_TYPES = dict(f.INT_TYPES, RandomGenerator='Ext')
    f.objects.add('stats')
    out = []
    # --- hardyWeinbergTest: validation and derived counts
    out.append(f.translate_prefix('stats', 'hardyWeinbergTest', 4, 'hwe_args', 'nA', ['n', 'nAB', 'nA']))
    _rx(r'val LH = LeveneHaldane\(n, nA\)\s*\n\s*val pVal = if \(oneSided\) LH\.rightMidP\(nAB\) else LH\.exactMidP\(nAB\)\s*\n\s*Array\(LH\.getNumericalMean / n, pVal\)',
        pkg, 'hardyWeinbergTest tail')
    # --- chiSquaredTest: the statistic
    out.append(f.translate_prefix('stats', 'chiSquaredTest', 4, 'chisq_statistic', 'chiSquare', ['chiSquare', 'ad', 'bc']))
    _rx(r'Array\(pchisqtail\(chiSquare, 1\), ad / bc\)', pkg, 'chiSquaredTest result')
    # --- contingencyTableTest: dispatch (chi-squared / Fisher kept opaque)
    out.append(f.translate_def('stats', 'contingencyTableTest', 5, 'contingencyTableTest'))
    # --- fisherExactTest: degenerate-table condition and support bounds
    env4 = {k: 'Int' for k in 'abcd'}
    vals = []
    for name in ('popSize', 'numSuccessPopulation', 'sampleSize', 'numSuccessSample'):
        m = _rx(r'\n    val %s = ([^\n]+)\n' % name, pkg, f'fisherExactTest val {name}')
        e, ty = f.translate_expr_text(m.group(1), env4, 'stats')
        if ty != 'Int':
            raise TieBroken('scala-translator', f'fisherExactTest val {name} is not Int')
        vals.append((name, e))
        env4[name] = 'Int'
    m = _rx(r'if \(\s*(!\(popSize > 0[^\n]*\))\s*\)\s*return Array\(Double\.NaN, Double\.NaN, Double\.NaN, Double\.NaN\)', pkg, 'fisherExactTest NaN condition')
    nan_c, ty = f.translate_expr_text(m.group(1), env4, 'stats')
    lows = []
    for name in ('low', 'high'):
        m = _rx(r'\n    val %s = ([^\n]+)\n' % name, pkg, f'fisherExactTest val {name}')
        e, ty = f.translate_expr_text(m.group(1), env4, 'stats')
        lows.append(e)
    _rx(r'val support = \(low to high\)\.toArray', pkg, 'fisherExactTest support')
    body = ''.join(f'bind {e} (fun {n} =>\n  ' for n, e in vals)
    body += f'bind {nan_c} (fun degenerate =>\n  bind {lows[0]} (fun low =>\n  bind {lows[1]} (fun high =>\n  ret (degenerate, popSize, numSuccessPopulation, sampleSize, low, high))))' + ')' * len(vals)
    out.append(f'Definition fisher_support (a b c d : Z) : option (bool * Z * Z * Z * Z * Z) :=\n  {body}.')
    # --- LeveneHaldane.apply: nB, parity, mode, the two recurrences
    out.append(f.translate_prefix('LeveneHaldane', 'apply', 3, 'lh_args', 'parity', ['nB', 'parity']))
    m = _rx(r'val mode = \(\(x: Double\) => ([^\n]+?)\)\(\s*\n\s*([^\n]+)\n\s*\)\.toInt', lh, 'LeveneHaldane mode formula')
    envm = {'n': 'Int', 'nA': 'Int', 'nB': 'Int', 'parity': 'Int'}
    arg, ty = f.translate_expr_text(m.group(2), envm, 'LeveneHaldane')
    if ty != 'Double':
        raise TieBroken('scala-translator', 'mode argument is not Double')
    lam, ty = f.translate_expr_text(m.group(1), dict(envm, x='Double'), 'LeveneHaldane')
    if ty != 'Int':
        raise TieBroken('scala-translator', 'mode lambda does not yield an integral value')
    out.append(f'Definition lh_mode (n nA nB parity : Z) : option Z :=\n  bind {arg} (fun x =>\n  {lam}).')
    envs = {'n': 'Int', 'nA': 'Int', 'nB': 'Int'}
    out.append(f.translate_stream_def('pRUfrom', 'pRU', envs, ('LeveneHaldane', 'apply', 3)))
    out.append(f.translate_stream_def('pLUfrom', 'pLU', envs, ('LeveneHaldane', 'apply', 3)))
    _rx(r'val pRU = pRUfrom\(mode, 1\.0\)\s*\n\s*val pLU = pLUfrom\(mode, 1\.0\)', lh, 'stream seeds')
    _rx(r'val pN = pRU\.takeWhile\(_ > 1\.0e-16\)\.sum \+ pLU\.takeWhile\(_ > 1\.0e-16\)\.sum - 1\.0', lh, 'normalisation constant')
    # --- class LeveneHaldane: one-line combinations (callees opaque)
    f.externs.update({('survivalFunction', 1): ('ext_survival', ['Int'], 'Double'), ('probability', 1): ('ext_probability', ['Int'], 'Double'),
                      ('cumulativeProbability', 1): ('ext_cdf', ['Int'], 'Double'), ('cumulativeProbability', 2): ('ext_cdf2', ['Int', 'Int'], 'Double')})
    for meth, coq, params in (('rightMidP', 'rightMidP', 'nAB'), ('leftMidP', 'leftMidP', 'nAB')):
        m = _rx(r'def %s\(nAB: Int\) =\s*\n\s*([^\n]+)\n' % meth, lh, meth)
        e, ty = f.translate_expr_text(m.group(1), {'nAB': 'Int'}, 'LeveneHaldane')
        if ty != 'Double':
            raise TieBroken('scala-translator', f'{meth} is not Double')
        out.append(f'Definition {coq} (nAB : Z) : option Q :=\n  {e}.')
    m = _rx(r'def survivalFunction\(n0: Int\): Double =\s*\n\s*([^\n]+)\n', lh, 'survivalFunction')
    e, ty = f.translate_expr_text(m.group(1), {'n0': 'Int', 'nA': 'Int'}, 'LeveneHaldane')
    out.append(f'Definition survivalFunction (nA n0 : Z) : option Q :=\n  {e}.')
    m = _rx(r'override def cumulativeProbability\(n1: Int\): Double =\s*\n\s*([^\n]+)\n', lh, 'cumulativeProbability/1')
    e, ty = f.translate_expr_text(m.group(1), {'n1': 'Int'}, 'LeveneHaldane')
    out.append(f'Definition cumulativeProbability1 (n1 : Z) : option Q :=\n  {e}.')
    m = _rx(r'override def getNumericalMean: Double = ([^\n]+)\n', lh, 'getNumericalMean')
    _rx(r'def nB: Int = 2 \* n - nA', lh, 'nB')
    e, ty = f.translate_expr_text(m.group(1), {'n': 'Int', 'nA': 'Int', 'nB': 'Int'}, 'LeveneHaldane')
    out.append(f'Definition numericalMean (n nA nB : Z) : option Q :=\n  {e}.')
    # probability(): support test and the index arithmetic into the two streams
    m = _rx(r'override def probability\(nAB: Int\): Double =\s*\n\s*if \(([^\n]+)\)\s*\n\s*0\.0\s*\n\s*else if \((nAB >= mode)\)\s*\n\s*pRU\(([^\n]+?)\) / pN\s*\n\s*else\s*\n\s*pLU\(([^\n]+?)\) / pN',
            lh, 'probability')
    envp = {'nAB': 'Int', 'nA': 'Int', 'mode': 'Int'}
    outside, _ = f.translate_expr_text(m.group(1), envp, 'LeveneHaldane')
    right, _ = f.translate_expr_text(m.group(2), envp, 'LeveneHaldane')
    ir, _ = f.translate_expr_text(m.group(3), envp, 'LeveneHaldane')
    il, _ = f.translate_expr_text(m.group(4), envp, 'LeveneHaldane')
    out.append(f'Definition prob_index (nA mode nAB : Z) : option (bool * bool * Z * Z) :=\n  bind {outside} (fun outside =>\n  bind {right} (fun right =>\n'
               f'  bind {ir} (fun ir =>\n  bind {il} (fun il =>\n  ret (outside, right, ir, il))))).')
    text = f'''(* GENERATED by harness/props/C37.py from {SRC_PKG} and {SRC_LH} - do not edit.
   Double = exact rational Q, Int = 32-bit, exceptions and non-finite results = None. Opaque callees are Section variables. *)
From HailV Require Import Common.Prelude CallPacking.Model Stats.Model.
From Coq Require Import QArith.
Open Scope Z_scope.

Section Gen.
  Variable Ext : Type.
  Variables ext_chiSquaredTest ext_fisherExactTest : Z -> Z -> Z -> Z -> option Ext.
  Variables ext_survival ext_probability ext_cdf : Z -> option Q.
  Variable ext_cdf2 : Z -> Z -> option Q.

''' + '\n\n'.join(out) + '\nEnd Gen.\n'
    ctx.write_generated('Gen.v', text)


def correspond(ctx):
    return Corr()


def oracle(ctx, budget):
    return [], {}
