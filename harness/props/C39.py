"""C39 — job lifecycle protocol terminates and never double-runs: SAFETY half + enabledness (partial).

Tie: X (shared family correspondence: model step ~ real SQL routines + handlers on minisql, after every op).
Proof: coq/theories/BatchDB/Attempts.v over the frozen model BatchDB/Model.v.
Oracle: harness/batchdb/oracles.py::c39_safety after every op of every history (current attempt exists, Creating/Running
job has one, Pending/Ready job has none, a message with another attempt id does not move a Creating/Running job, no error
1242 for always-run jobs) and ::c39_liveness on the driver-in-the-loop histories (a simulated FAIR driver drains every
history: every job of a committed batch finishes, cancelled batches complete, always-run jobs run) — liveness is TESTED
there, not proved.
"""
from harness.batchdb import family

ID = 'C39'
COQ_PROPS = 'theories/BatchDB/Props_C39.v'
READY = True

META = dict(
    design_ref='§5.A C39',
    technique='Coq invariant proof over all histories of an executable model of the batch database + '
              'correspondence of the model with the real SQL routines/handlers on a MySQL-subset interpreter; '
              'liveness only tested with a simulated fair driver',
    level_text='PARTIAL. Machine-checked (Coq 8.16, closed under the global context), for ALL legal histories of the batch-database model '
               '(any interleaving / duplication / delay of client requests, scheduler, canceller and worker messages, preemptions and '
               'deactivations): every job has one row and at most one attempt row is its current attempt; the attempt a job names as current '
               'exists in the attempts table under that job\'s key; a Creating/Running job names one (C39_current_attempt_exists, '
               'C39_single_current_attempt, inductive: C39_step). From ANY state: a completion / unschedule carrying an attempt id other than the '
               'job\'s current one changes no job, job-group or batch row and is answered rc 2 / rc 1 (C39_stale_*); a job in a terminal state is '
               'not moved by any message about it nor by any transaction other than the commit of an update or the completion of another job '
               '(C39_terminal_row_kept). Enabledness (no fairness): schedule of a Ready non-cancelled job on an active instance succeeds, an '
               'always-run job is never treated as cancelled and scheduling never answers error 1242 (the repaired defect), a non-stale completion '
               'of a Ready/Creating/Running job is accepted. NOT proved: termination, "a cancelled batch eventually completes", "always-run jobs '
               'run to completion" (liveness of the real loops; exercised only by the oracle\'s simulated fair driver), and the two remaining '
               'paths of terminal-absorption (commit recomputation, child release: C04/C05 invariants). Limit kept visible: the current attempt '
               'may be an already ended attempt after a verbatim replay of a schedule message (C39_replayed_schedule_reinstalls_ended_attempt; '
               'same on the real SQL; the real driver never replays).',
    level_note='Trusted: Coq kernel; the sampled model-vs-implementation correspondence and the minisql engine; Legal.v (only "completions report a '
               'terminal state" is used by the invariant). The driver loops themselves (pool.py / canceller.py / job_private.py scheduling '
               'decisions, asyncio interleavings, HTTP delivery) are not modelled: each of their DB transactions is one op of the model and the '
               'theorems hold for every order of ops. An attempt-less completion (attempt id NULL, sent by the canceller for Ready jobs) is not '
               'a "stale attempt": it completes a job whatever its current attempt is, in the model and in mark_job_complete alike.',
    partial=True,
)
TRUSTED = family.COMMON_TRUSTED + []
ASSUMPTIONS = family.COMMON_ASSUMPTIONS + [
    'liveness needs fairness of the scheduler / canceller / worker loops and delivery of their messages: assumed, not proved (partial)',
]

correspond = family.correspond
oracle = family.oracle_for(ID)
replay = family.replay
