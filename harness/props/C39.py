"""C39 — job lifecycle protocol terminates and never double-runs: SAFETY + LIVENESS AS POSSIBILITY WITH A PROGRESS MEASURE.

Tie: X (shared family correspondence: model step ~ real SQL routines + handlers on minisql, after every op; the corpus
contains the finishing continuations computed by the Coq function Liveness.finish: corpus/C39/finishing-schedule.json).
Proof: coq/theories/BatchDB/Attempts.v, AttemptIdle.v (safety), LivenessSteps.v, Liveness.v (liveness) over the frozen model
BatchDB/Model.v, using the dependency invariant (Deps*.v), the lifecycle theorem (JobChange.v) and the tally invariant (Tally*.v).
Oracle: harness/batchdb/oracles.py::c39_safety after every op of every history (current attempt exists, Creating/Running
job has one, Pending/Ready job has none, a message with another attempt id does not move a Creating/Running job, no error
1242 for always-run jobs) and ::c39_liveness on the driver-in-the-loop histories (a simulated FAIR driver drains every
history: every job of a committed batch finishes, cancelled batches complete, always-run jobs run).  What is PROVED about
liveness is possibility + progress measure (below); that the real asyncio loops are fair and that workers report is ASSUMED
and only exercised by that simulated driver.
"""
from harness.batchdb import family

ID = 'C39'
COQ_PROPS = 'theories/BatchDB/Props_C39.v'
READY = True

META = dict(
    design_ref='§5.A C39',
    technique='Coq invariant proofs over all histories of an executable model of the batch database (safety), plus a constructive '
              'progress proof: a measure on states, a driver function producing the next scheduler / canceller / worker / autoscaler '
              'message, "every such message is a good step and decreases the measure", and the computed finishing continuation; '
              'correspondence of the model with the real SQL routines/handlers on a MySQL-subset interpreter; eventuality itself '
              '(fair loops, reporting workers) tested with a simulated fair driver, not proved',
    level_text='PARTIAL (liveness is proved as possibility + progress measure, not as eventuality of the real loops). Machine-checked '
               '(Coq 8.16, closed under the global context). SAFETY, for ALL legal histories of the batch-database model (any interleaving / '
               'duplication / delay of client requests, scheduler, canceller and worker messages, preemptions and deactivations): every job has '
               'one row and at most one attempt row is its current attempt; the attempt a job names as current exists under that job\'s key; a '
               'Creating/Running job names one (C39_current_attempt_exists, C39_single_current_attempt, inductive: C39_step); for ALL good histories '
               '(legal + schema-valid client requests) a Pending or Ready job names NO attempt (C39_waiting_job_has_no_attempt) and terminal states '
               'are absorbing along every continuation, including commits of later updates and completions of other jobs (C39_terminal_absorbing). '
               'From ANY state: a completion / unschedule carrying an attempt id other than the job\'s current one changes no job, job-group or batch '
               'row and is answered rc 2 / rc 1 (C39_stale_*); late start messages do not move a job; scheduling never answers error 1242 (the repaired '
               'defect). LIVENESS, for every state reachable by a good history: (no deadlock, C39_no_deadlock) while a job of a committed update is '
               'unfinished, one of them is Ready, Creating or Running; (progress, C39_progress_step / C39_driver_step_progress / C39_drive_progress) for '
               'ANY such job the next message of the real loops for it — scheduler: schedule_job with a fresh attempt on an active instance; canceller: '
               'attempt-less Cancelled completion of a cancelled Ready job; worker: completion of the current attempt with an arbitrary reported terminal '
               'state — is a legal step and strictly decreases the measure mu = sum over committed jobs of (Pending 4, Ready 3, Creating 2, Running 1, '
               'terminal 0); (a finishing schedule always exists, C39_can_always_finish) the computed continuation finish w s, at most 2 + mu(s) messages '
               '(autoscaler new_instance + activate_instance if no instance is active, then the driver iterated), is a good history extension after which '
               'every job of every committed update is terminal and every batch and job group, cancelled or not, is complete (tally invariant), for every '
               'outcome function w of the workers; (always_run, C39_always_run_jobs_run) in that continuation an always_run job that was Pending or Ready '
               'ends in the state its worker reported with a non-NULL attempt whose row exists, whatever cancellation marks its batch/groups carry and '
               'however its parents ended. Non-vacuity: C39_finish_demo (cancelled batch with Running parent, Pending child, Pending always_run '
               'grandchild; the computed continuation is replayed on the real SQL by the correspondence, corpus/C39/finishing-schedule.json). NOT proved: '
               'that the real scheduler / canceller / autoscaler loops are fair, that workers report back and that messages are delivered — these are the '
               'hypotheses that turn "can always finish, and every driver step makes progress" into "eventually finishes"; preemptions, deactivations and '
               'the canceller\'s unschedule are legal steps that RAISE the measure (Running -> Ready), so with infinitely many of them nothing is promised. '
               'The scheduler\'s own choice among Ready jobs (fair share, free cores) is not modelled: the theorem holds for ANY choice. Limit kept '
               'visible: the current attempt of a Running job may be an already ended attempt after a verbatim replay of a schedule message '
               '(C39_replayed_schedule_reinstalls_ended_attempt; same on the real SQL; the real driver never replays).',
    level_note='Trusted: Coq kernel; the sampled model-vs-implementation correspondence and the minisql engine; Legal.v + DepsDef.client_ok (the '
               'environment assumptions of good histories). The driver loops themselves (pool.py / canceller.py / job_private.py scheduling '
               'decisions, asyncio interleavings, HTTP delivery) are not modelled: each of their DB transactions is one op of the model; the safety '
               'theorems hold for every order of ops, the liveness theorems construct one order. The driver function of the proof (Liveness.op_for) '
               'mirrors job.py::schedule_job, canceller.py::cancel_cancelled_ready_jobs_loop_body -> job.py::mark_job_complete (attempt, instance, '
               'start and end time NULL), main.py::job_complete -> job.py::mark_job_complete, instance_collection/pool.py::create_instances + '
               'activate_instance; the fresh attempt id stands for the random token the driver draws. The model does not check free cores when '
               'scheduling (neither does the stored procedure; the Python scheduler does), so the constructed continuation may overcommit an instance '
               'in the model (it schedules and then immediately completes one job at a time, taking the first movable row of the table, so it never holds '
               'more than one attempt of its own open; free-core accounting itself is C10). An '
               'attempt-less completion (attempt id NULL, sent by the canceller for Ready jobs) is not a "stale attempt": it completes a job whatever '
               'its current attempt is, in the model and in mark_job_complete alike.',
    partial=True,
)
TRUSTED = family.COMMON_TRUSTED + []
ASSUMPTIONS = family.COMMON_ASSUMPTIONS + [
    'eventual completion needs fairness of the scheduler / canceller / autoscaler loops, workers that report the end of their attempts and '
    'delivery of their messages: assumed, not proved; proved is that under these messages progress is always possible and measured '
    '(C39_no_deadlock, C39_progress_step, C39_can_always_finish)',
]

correspond = family.correspond
oracle = family.oracle_for(ID)
replay = family.replay
