"""C31 — Hail type strings round-trip (hail/python/hail/expr/types.py::__str__/_parsable_string/dtype,
hail/python/hail/expr/type_parsing.py::type_grammar + TypeConstructor, hail/python/hail/utils/java.py::escape_parsable/
unescape_parsable, hail/hail/src/is/hail/expr/ir/Parser.scala::IRLexer.identifier).

Python half: the PEG grammar is regenerated (T) from `type_grammar_str` into coq/generated/C31/Gen.v and interpreted by the
fuelled PEG interpreter of coq/theories/HailTypes/Peg.v; printers, escapes and the visitor are a hand model tied by X (the
real str(t), _parsable_string(), hl.dtype, escape_parsable, unescape_parsable through the parsimonious shim, no JVM).
Engine half: IRLexer.identifier is a hand MODEL (Lexer.v); the Scala cannot be executed.  The oracle decides acceptance of
the text the REAL escape_parsable emits with an independent Python reading of the lexer rule and the
Character.isJavaIdentifierStart/Part tables of a real JVM (when one is on PATH; stored table otherwise).
"""
import glob
import json
import os
import re

from harness.core import Corr, Disagreement, Failure, ImplCrash, coq_eval, nlit, listlit
from harness.hailfe import gen as G
from harness.hailfe import irlexer_ref
from harness.translate import peg_grammar

ID = 'C31'
SRC = ['hail/python/hail/expr/types.py', 'hail/python/hail/expr/type_parsing.py', 'hail/python/hail/utils/java.py',
       'hail/hail/src/is/hail/expr/ir/Parser.scala']
COQ_PROPS = 'theories/HailTypes/Props_C31.v'
READY = True
META = dict(
    design_ref='§5.F C31',
    technique='Coq proofs about a PEG interpreter running the grammar regenerated from type_grammar_str (induction over types, '
              'compositional run lemmas with fuel monotonicity), about the escape functions, and about a model of the engine lexer',
    level_text='Machine-checked theorems (Coq 8.16, closed under the global context): for every Hail type built from the 18 printable '
               'constructors with arbitrary (distinct) field names and reference-genome names, dtype(str(t)) = t under the grammar as it is '
               'in the source now, for all sufficiently large interpreter fuel and for every Unicode \\w/\\s table; escape_parsable/'
               'unescape_parsable are inverse for every name and the grammar\'s identifier rule reads an emitted name back. Engine half on a '
               'lexer MODEL: names that are escaped with printable ASCII, \\t \\n \\r and \\uXXXX only, or are bare Java identifiers, are read '
               'back exactly (_partial); the statement for all names is REFUTED: U+00E9 is sent as `\\xe9`, control characters as \\xNN and '
               'astral characters as \\UXXXXXXXX, escapes IRLexer.quotedLiteral rejects, and (given two table facts confirmed on a real re and '
               'JVM) the bare name a² is not a Java identifier.',
    level_note='PARTIAL: the engine side is a hand model of IRLexer.identifier/unescapeString (Scala not executable here); only identifiers are '
               'lexed, not whole type expressions; Character.isJavaIdentifier* are parameters above ASCII. Type variables (?T, ?nat) are not '
               'modelled. parsimonious is replaced by the functional shim harness/loader/shims/parsimonious (same grammar-syntax reader '
               'feeds the translator); hl.get_reference is served by harness-built reference genomes. The engine-half finding cannot be '
               'replayed on the engine, only on the real escape_parsable + the lexer rule as written in Parser.scala.',
    partial=True,
)
TRUSTED = ['harness/translate/peg_grammar.py + harness/loader/shims/parsimonious (grammar-syntax reader, PEG interpreter used at run time)',
           'hand model coq/theories/HailTypes/Model.v (printers, escapes, TypeConstructor) tied by the correspondence run (X)',
           'hand model coq/theories/HailTypes/Lexer.v of IRLexer.identifier / unescapeString (MODELLED, never executed)',
           'harness/hailfe/irlexer_ref.py (oracle-side reading of the lexer rule) and the JVM / stored Character tables',
           'CPython re (\\w, \\s), unicode_escape codec']
ASSUMPTIONS = ['Python\'s \\w and \\s above U+007F are parameters of the theorems; the tie instantiates them per case with what `re` answers',
               'reference genomes exist for every name used (registry faked without a backend)',
               'struct field names are distinct (they are Python dict keys)']

HEADER = ('From HailV Require Import Common.Prelude HailValues.Model HailTypes.Peg HailTypes.Model HailTypes.Lexer.\n'
          'From HailG Require C31.Gen.\nOpen Scope N_scope.\n')
FUEL = 400


def generate(ctx):
    text, names = peg_grammar.translate(ctx.read_repo(peg_grammar.SRC))
    ctx.write_generated('Gen.v', text)
    ctx.notes.append(f'grammar rules: {names}')


# ------------------------------------------------------------------------------------------------ cases

NAMES = ['a', '_x1', 'GT', 'self', 'a²', 'é', 'aé', 'b c', '', '`', '\\', 'a`b', '\\`', '`\\', '1a', 'ü', '名前', 'a名', '\n', '\t ', '\r',
         '"', "'", 'a.b', '😀', 'a😀', 'ǅ', 'a·b', 'a٣', '\x00', '\x01', '\x7f', '\x80', '\xff', 'Ā', '￿', '\U00010000', '\U0010ffff',
         'int32', 'struct', 'str', 'tuple', 'a b', 'a ', 'x³', 'a¼', 'A_9', '__', 'a$', '$a', 'a:b', 'a>b', 'a}b', 'a,b', 'a-b',
         '\\n', '\\u00e9', '\\x41', 'a\\', '``', ' ', 'a ', ' a', '\ud800', 'a\udc00']


def _n(s):
    return G.cps(s)


def gen_name(rng):
    r = rng.random()
    if r < 0.6:
        return rng.choice(NAMES)
    return ''.join(chr(G.gen_cp(rng) if rng.random() < 0.7 else rng.choice([0x60, 0x5c, 0xe9, 0xb2, 0x1f600, 0x20, 0x5f, 0x41]))
                   for _ in range(rng.randint(1, 5)))


def gen_type(rng, depth):
    if depth <= 0 or rng.random() < 0.3:
        r = rng.random()
        if r < 0.15:
            return ['locus', _n(gen_name(rng))]
        return rng.choice(list(G.SCALARS) + ['void', 'rng_state'])
    k = rng.choice(['interval', 'array', 'set', 'stream', 'dict', 'struct', 'struct', 'tuple', 'ndarray', 'locus'])
    if k == 'locus':
        return ['locus', _n(gen_name(rng))]
    if k in ('interval', 'array', 'set', 'stream'):
        return [k, gen_type(rng, depth - 1)]
    if k == 'dict':
        return [k, gen_type(rng, depth - 1), gen_type(rng, depth - 1)]
    if k == 'ndarray':
        return [k, gen_type(rng, depth - 1), rng.choice([0, 1, 2, 3, 10, 123, 4294967296])]
    if k == 'tuple':
        return [k, [gen_type(rng, depth - 1) for _ in range(rng.choice([0, 1, 2, 3, 4]))]]
    names = []
    for _ in range(rng.choice([0, 1, 2, 3, 5])):
        nm = gen_name(rng)
        if nm not in names:
            names.append(nm)
    return ['struct', [[_n(nm), gen_type(rng, depth - 1)] for nm in names]]


HAND_TYPES = [
    ['struct', []], ['tuple', []], ['tuple', ['int32']], ['struct', [[_n('a'), 'int32']]],
    ['struct', [[_n('a²'), 'bool'], [_n(''), 'int32'], [_n('`'), 'str'], [_n('self'), 'call']]],
    ['dict', 'str', ['array', ['tuple', ['float64', 'call', ['locus', _n('GRCh37')]]]]],
    ['locus', _n('my ref')], ['locus', _n('é')], ['ndarray', 'float64', 2], ['ndarray', ['struct', [[_n('x y'), 'int64']]], 0],
    ['stream', ['interval', ['set', 'str']]], ['struct', [[_n('struct'), ['struct', [[_n('str'), 'str']]]], [_n('int'), 'void']]],
    ['array', ['array', ['array', ['array', ['array', ['array', 'rng_state']]]]]],
    ['struct', [[_n(nm), 'int32'] for nm in ['a', 'b', '\\', '`', 'a`b', '\\`', '😀', '\n', 'é', 'a\\']]],
]


def _corpus(ctx):
    out = []
    for p in sorted(glob.glob(os.path.join(ctx.verif, 'corpus', ID, '*.json'))):
        doc = json.load(open(p))
        out += doc if isinstance(doc, list) else [doc]
    return [c.get('case', c) for c in out]


def _cases(ctx, n_types, n_names):
    rng = ctx.rng
    cases = [c for c in _corpus(ctx)]
    cases += [{'t': t} for t in HAND_TYPES] + [{'name': _n(s)} for s in NAMES]
    nt = sum(1 for c in cases if 't' in c)
    while nt < n_types:
        cases.append({'t': gen_type(rng, rng.choice([0, 1, 2, 2, 3, 3, 4]))})
        nt += 1
    nn = sum(1 for c in cases if 'name' in c)
    while nn < n_names:
        cases.append({'name': _n(gen_name(rng))})
        nn += 1
    return cases


def _run_impl(ctx, cases):
    res = []
    for i in range(0, len(cases), 400):
        res += ctx.run_impl('c31_types.py', {'cases': cases[i:i + 400]}, timeout=300)['results']
    for c, r in zip(cases, res):
        if 'build_exc' in r:
            raise RuntimeError(f'harness could not build case {c}: {r["build_exc"]}')
    return res


# ------------------------------------------------------------------------------------------------ model

def coq_hty(t):
    k = G.kind(t)
    if k in G.SCALARS:
        return {'int32': 'HInt32', 'int64': 'HInt64', 'float32': 'HFloat32', 'float64': 'HFloat64', 'bool': 'HBool', 'str': 'HStr',
                'call': 'HCall'}[k]
    if k == 'void':
        return 'HVoid'
    if k == 'rng_state':
        return 'HRNGState'
    if k == 'locus':
        return f'(HLocus {G.coq_name(t[1])})'
    if k in ('interval', 'array', 'set', 'stream'):
        return f'({ {"interval": "HInterval", "array": "HArray", "set": "HSet", "stream": "HStream"}[k]} {coq_hty(t[1])})'
    if k == 'dict':
        return f'(HDict {coq_hty(t[1])} {coq_hty(t[2])})'
    if k == 'struct':
        return '(HStruct ' + listlit([f'({G.coq_name(n)}, {coq_hty(ft)})' for n, ft in t[1]]) + ')'
    if k == 'tuple':
        return '(HTuple ' + listlit([coq_hty(x) for x in t[1]]) + ')'
    if k == 'ndarray':
        return f'(HNDArray {coq_hty(t[1])} {nlit(t[2])})'
    raise AssertionError(t)


def read_hty(x):
    n, a = G._ctor(x)
    simple = {'HVoid': 'void', 'HInt32': 'int32', 'HInt64': 'int64', 'HFloat32': 'float32', 'HFloat64': 'float64', 'HBool': 'bool',
              'HStr': 'str', 'HCall': 'call', 'HRNGState': 'rng_state'}
    if n in simple:
        return simple[n]
    if n == 'HLocus':
        return ['locus', a[0]]
    if n in ('HInterval', 'HArray', 'HSet', 'HStream'):
        return [n[1:].lower(), read_hty(a[0])]
    if n == 'HDict':
        return ['dict', read_hty(a[0]), read_hty(a[1])]
    if n == 'HStruct':
        return ['struct', [[p[0], read_hty(p[1])] for p in a[0]]]
    if n == 'HTuple':
        return ['tuple', [read_hty(y) for y in a[0]]]
    if n == 'HNDArray':
        return ['ndarray', read_hty(a[0]), a[1]]
    raise ValueError(n)


def _tables(r):
    w = [int(k) for k, v in r['classes'].items() if v[0]]
    s = [int(k) for k, v in r['classes'].items() if v[1]]
    return (f'(fun c => existsb (N.eqb c) {G.coq_name(sorted(w))})', f'(fun c => existsb (N.eqb c) {G.coq_name(sorted(s))})')


def _model(ctx, cases, impl):
    exprs = []
    for c, r in zip(cases, impl):
        uw, us = _tables(r)
        if 't' in c:
            T = coq_hty(c['t'])
            exprs.append(f'(show {uw} {T}, show_parsable {uw} {T}, dtype_with {uw} {us} C31.Gen.grammar {FUEL} (show {uw} {T}))')
        else:
            N = G.coq_name(c['name'])
            exprs.append(f'(escape_parsable {uw} {N}, unescape_parsable (flat_map esc_char {N}), is_bare {uw} {N})')
    return coq_eval(ctx, HEADER, exprs, shard=80, timeout=300)


def correspond(ctx):
    cases = _cases(ctx, ctx.scale(350, 4000), ctx.scale(250, 2500))
    impl = _run_impl(ctx, cases)
    model = _model(ctx, cases, impl)
    dis, distinct, kinds = [], set(), {}
    for c, m, r in zip(cases, model, impl):
        if 't' in c:
            t = c['t']
            if not isinstance(t, str):
                distinct.add(json.dumps(t))
            ms, mp, md = m
            if 'str' not in r:
                dis.append(Disagreement('show~str(t)', c, G.uncps(ms), r.get('show_exc')))
                continue
            if ms != r['str']:
                dis.append(Disagreement('show~str(t)', c, G.uncps(ms), G.uncps(r['str'])))
                continue
            if mp != r['parsable']:
                dis.append(Disagreement('show_parsable~_parsable_string', c, G.uncps(mp), G.uncps(r['parsable'])))
                continue
            mres = read_hty(md[1]) if isinstance(md, tuple) and md[0] == 'Ok' else md
            ires = r.get('parsed') if 'parsed' in r else r.get('parse_exc')
            if mres != ires:
                dis.append(Disagreement('dtype~hl.dtype', c, mres, ires))
        else:
            me, mu, mb = m
            if me != r.get('escaped'):
                dis.append(Disagreement('escape_parsable', c, G.uncps(me), G.uncps(r.get('escaped') or []) or r.get('exc')))
                continue
            if not mb and ('unescaped' not in r or mu is None or mu[1] != r['unescaped']):
                dis.append(Disagreement('unescape_parsable', c, mu, r.get('unescaped')))
    return Corr(evaluations=len(cases) * 3, distinct_nontrivial=len(distinct),
                rule='types: corpus + hand-written + seeded random nestings (depth <= 4) with names from a pool of edge cases and random '
                     'code points; names: the pool + random. Per type: str(t), _parsable_string() and hl.dtype(str(t)) (through the '
                     'parsimonious shim) vs show / show_parsable / dtype over the regenerated grammar (vm_compute, fuel 400); per name: '
                     'escape_parsable / unescape_parsable. non-trivial = compound type',
                samples=[{'case': c, 'impl': {k: (G.uncps(v) if k in ('str', 'parsable', 'escaped') else v) for k, v in r.items()
                                              if k != 'classes'}} for c, r in list(zip(cases, impl))[:3]],
                disagreements=dis, histograms={'n_types': sum(1 for c in cases if 't' in c), 'n_names': sum(1 for c in cases if 'name' in c)},
                names=['show~str(t)', 'show_parsable~_parsable_string', 'dtype~hl.dtype', 'escape_parsable', 'unescape_parsable'])


# ------------------------------------------------------------------------------------------------ oracle

def _names_of(t, acc):
    k = G.kind(t)
    if k == 'locus':
        acc.append(t[1])
    elif k in ('interval', 'array', 'set', 'stream', 'ndarray'):
        _names_of(t[1], acc)
    elif k == 'dict':
        _names_of(t[1], acc)
        _names_of(t[2], acc)
    elif k == 'struct':
        for n, ft in t[1]:
            acc.append(n)
            _names_of(ft, acc)
    elif k == 'tuple':
        for x in t[1]:
            _names_of(x, acc)
    return acc


def _engine_class(name, emitted, reason):
    """finding key of an engine-side rejection: which kind of emitted text the engine cannot read"""
    if not emitted.startswith('`') or emitted == name:
        return 'engine-rejects:bare-name-not-a-java-identifier'
    m = re.search(r'\\(.)', re.sub(r'\\\\', '', emitted))
    body = emitted[1:-1]
    i = 0
    while i < len(body):
        if body[i] == '\\':
            d = body[i + 1] if i + 1 < len(body) else ''
            if d not in irlexer_ref.ESCAPE_CHARS:
                return f'engine-rejects:escape-\\{d}'
            i += 2
        else:
            i += 1
    return 'engine-rejects:other'


def oracle(ctx, budget):
    cases = _cases(ctx, ctx.scale(400, 5000) * budget, ctx.scale(400, 4000) * budget)
    try:
        impl = _run_impl(ctx, cases)
    except ImplCrash as e:
        # `import hail` itself parses type strings (hail/ir/register_aggregators.py): a grammar/printer that no longer
        # round-trips can already fail there.  The failing input is then the import; the traceback names the type string.
        tail = e.stderr.strip().splitlines()
        return ([Failure('import-hail-crashes', 'importing hail (which calls hl.dtype on built-in type strings) fails: '
                         + (tail[-1] if tail else '')[:300], {'import': 'hail'}, 'import succeeds', tail[-12:])],
                {'evaluations': 0, 'rule': 'oracle: import hail'})
    tables, note = irlexer_ref.load_tables(ctx.work)
    ctx.notes.append(note)
    fails = []
    seen_names = {}
    for c, r in zip(cases, impl):
        if 't' in c:
            if 'show_exc' in r:
                e = r['show_exc']
                fails.append(Failure(f'str-raises:{e["exc"]}:{e["where"]}', f'str(t) raised {e["exc"]}: {e["msg"]}', c, None, e))
            elif 'parse_exc' in r:
                e = r['parse_exc']
                fails.append(Failure(f'dtype-raises:{e["exc"]}', f'hl.dtype(str(t)) raised {e["exc"]}: {e["msg"][:120]}', c,
                                     G.uncps(r['str']), e))
            elif r.get('parsed') != c['t'] or not r.get('eq'):
                fails.append(Failure('dtype-differs', 'hl.dtype(str(t)) is not equal to t', c, c['t'], r.get('parsed')))
            continue
        name = G.uncps(c['name'])
        if 'exc' in r:
            e = r['exc']
            fails.append(Failure(f'escape-raises:{e["exc"]}', f'escape_parsable raised {e["exc"]}: {e["msg"]}', c, None, e))
            continue
        emitted = G.uncps(r['escaped'])
        if emitted != name and r.get('unescaped') != c['name']:
            fails.append(Failure('unescape-differs', 'unescape_parsable(escape_parsable(s)[1:-1]) != s', c, c['name'], r.get('unescaped')))
            continue
        if any(0xd800 <= cp <= 0xdfff for cp in c['name']):
            continue           # lone surrogates cannot be sent to the engine at all (UTF-8)
        ok, reason = irlexer_ref.engine_reads(emitted, name, tables)
        if not ok:
            key = _engine_class(name, emitted, reason)
            seen_names.setdefault(key, []).append(name)
            fails.append(Failure(key, f'engine lexer rule does not read {emitted!r} back as the name {name!r}: {reason}',
                                 c, {'name': c['name']}, {'emitted': r['escaped'], 'reason': reason, 'tables': tables.source}))
    # the two table facts used by C31_engine_rejects_bare
    facts = {'re \\w matches U+00B2': bool(re.fullmatch(r'\w', '²')), 'isJavaIdentifierPart(U+00B2)': tables.is_part(0xb2)}
    ctx.notes.append(f'table facts: {facts}')
    fails.sort(key=lambda f: len(json.dumps(f.case)))
    return fails, {'evaluations': len(cases), 'distinct_nontrivial': len({json.dumps(c) for c in cases}),
                   'rule': 'oracle: hl.dtype(str(t)) == t; unescape(escape(s)) == s; the emitted identifier read with the engine lexer rule '
                           f'({tables.source}) gives the same name',
                   'histograms': {'engine_rejections': {k: len(v) for k, v in seen_names.items()}, 'table_facts': facts, 'jvm': note},
                   'samples': [{'engine_rejected': {k: v[:4] for k, v in seen_names.items()}}]}


def replay(ctx, doc):
    case = doc['case']
    if 'import' in case:
        try:
            _run_impl(ctx, [])
            return {'case': case, 'impl': 'import hail succeeds'}
        except ImplCrash as e:
            return {'case': case, 'impl': 'import hail fails', 'stderr_tail': e.stderr.strip().splitlines()[-8:]}
    r = _run_impl(ctx, [case])[0]
    out = {'case': case, 'impl': {k: (G.uncps(v) if k in ('str', 'parsable', 'escaped', 'unescaped') else v) for k, v in r.items()}}
    if 'name' in case and 'escaped' in r:
        tables, note = irlexer_ref.load_tables(ctx.work)
        name, emitted = G.uncps(case['name']), G.uncps(r['escaped'])
        ok, reason = irlexer_ref.engine_reads(emitted, name, tables)
        out['engine_lexer_rule'] = {'accepts_and_same_name': ok, 'reason': reason, 'tables': note}
    try:
        generate(ctx)
        m = _model(ctx, [case], [r])[0]
        if 't' in case:
            out['model'] = {'show': G.uncps(m[0]), 'show_parsable': G.uncps(m[1]),
                            'dtype': read_hty(m[2][1]) if isinstance(m[2], tuple) and m[2][0] == 'Ok' else m[2]}
        else:
            uw, _ = _tables(r)
            N = G.coq_name(case['name'])
            e = coq_eval(ctx, HEADER, [f'lex_identifier (fun _ => false) (fun _ => false) (utf16 (escape_parsable {uw} {N}) ++ [58])'])[0]
            out['model'] = {'escape_parsable': G.uncps(m[0]), 'unescape': m[1], 'is_bare': m[2],
                            'engine_lexer_model(no non-ASCII identifier chars)': e}
    except Exception as ex:  # noqa: BLE001
        out['model'] = f'model evaluation failed: {ex}'
    return out
