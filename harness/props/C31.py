"""C31 — Hail type strings round-trip (hail/python/hail/expr/types.py::__str__/_parsable_string/dtype,
hail/python/hail/expr/type_parsing.py::type_grammar + TypeConstructor, hail/python/hail/utils/java.py::escape_parsable/
unescape_parsable, hail/python/hail/utils/misc.py::escape_id/escape_str/parsable_strings/upper_hex (the functions
hail/ir/*.py print names and string literals with), hail/hail/src/is/hail/expr/ir/Parser.scala::IRLexer.identifier/stringLiteral).

Python half: the PEG grammar is regenerated (T) from `type_grammar_str` into coq/generated/C31/Gen.v and interpreted by the
fuelled PEG interpreter of coq/theories/HailTypes/Peg.v; printers, escapes and the visitor are a hand model tied by X (the
real str(t), _parsable_string(), hl.dtype, escape_parsable, unescape_parsable through the parsimonious shim, no JVM).
Identifier half: escape_id's pattern + entry point (through CPython's own re parser and harness/translate/regex_sre.py, \w as
a parameter), its quoted alternative, escape_str's per-character chain and parsable_strings are regenerated (T,
harness/translate/escape_id.py) into coq/generated/C31/GenId.v, proved equal to the hand model IdModel.v, and run against the
real functions and the text of real hail.ir nodes (X, harness/impl/c31_ids.py).
Engine half: IRLexer.identifier / stringLiteral are a hand MODEL (Lexer.v, IdModel.v); the Scala cannot be executed.  The oracle
decides acceptance of the text the REAL escape_parsable / escape_id / escape_str emit with an independent Python reading of the
lexer rule and the Character.isJavaIdentifierStart/Part tables of a real JVM (when one is on PATH; stored table otherwise).
"""
import glob
import json
import os
import re

from harness.core import Corr, Disagreement, Failure, ImplCrash, coq_eval, nlit, listlit
from harness.hailfe import gen as G
from harness.hailfe import irlexer_ref
from harness.translate import escape_id as escape_id_tr
from harness.translate import peg_grammar

ID = 'C31'
SRC = ['hail/python/hail/expr/types.py', 'hail/python/hail/expr/type_parsing.py', 'hail/python/hail/utils/java.py',
       'hail/python/hail/utils/misc.py', 'hail/python/hail/ir/ir.py', 'hail/hail/src/is/hail/expr/ir/Parser.scala']
COQ_PROPS = 'theories/HailTypes/Props_C31.v'
READY = True
META = dict(
    design_ref='§5.F C31',
    technique='Coq proofs about a PEG interpreter running the grammar regenerated from type_grammar_str (induction over types, '
              'compositional run lemmas with fuel monotonicity), about the escape functions (escape_parsable by hand model; escape_id / '
              'escape_str regenerated from the source, its regex through the relational re semantics of Regex.v), and about a model of the '
              'engine lexer',
    level_text='Machine-checked theorems (Coq 8.16, closed under the global context): for every Hail type built from the 18 printable '
               'constructors with arbitrary (distinct) field names and reference-genome names, dtype(str(t)) = t under the grammar as it is '
               'in the source now, for all sufficiently large interpreter fuel and for every Unicode \\w/\\s table; escape_parsable/'
               'unescape_parsable are inverse for every name and the grammar\'s identifier rule reads an emitted name back. Engine half on a '
               'lexer MODEL: names that are escaped with printable ASCII, \\t \\n \\r and \\uXXXX only, or are bare Java identifiers, are read '
               'back exactly (_partial); the statement for all names is REFUTED: U+00E9 is sent as `\\xe9`, control characters as \\xNN and '
               'astral characters as \\UXXXXXXXX, escapes IRLexer.quotedLiteral rejects, and (given two table facts confirmed on a real re and '
               'JVM) the bare name a² is not a Java identifier. Identifiers printed into IR text through hail.utils.misc.escape_id (Ref, '
               'GetField, field lists, bound names, keys, function names), for the code WITH fixes/C31-astral.diff and '
               'fixes/C31-bare-ascii.diff: the pattern of escape_id with its entry point, its back-tick quoting and escape_str, REGENERATED '
               'from misc.py, are proved equal to the model; on the lexer model EVERY name of Unicode scalar values (bare ASCII '
               'identifiers; back-ticked: all control characters, line breaks, quotes, back-ticks, backslashes, non-ASCII, astral '
               'characters as surrogate-pair escapes) is read back as exactly that name (its UTF-16 code units, utf16 proved injective '
               'on scalar values), one token, nothing left over, whatever the Java identifier tables are above ASCII; every string '
               'literal of scalar values printed by escape_str / parsable_strings is read back by the string-literal lexer model. '
               'Lone surrogates in a Python str are outside the statements. What was wrong before the fixes is kept as a theorem '
               'about hand definitions of the previous text (U+1F600 written \\u1F600 and read as U+1F60 "0"; a² sent bare).',
    level_note='PARTIAL: the engine side is a hand model of IRLexer.identifier/stringLiteral/unescapeString (Scala not executable here); only '
               'single identifier / string-literal tokens are lexed (followed by any non-identifier delimiter), not whole type or IR expressions, '
               'and the IR PARSER above the lexer (e.g. a field called None, keyword clashes) is out of scope; Character.isJavaIdentifier* are '
               'parameters above ASCII. Type variables (?T, ?nat) are not '
               'modelled. parsimonious is replaced by the functional shim harness/loader/shims/parsimonious (same grammar-syntax reader '
               'feeds the translator); hl.get_reference is served by harness-built reference genomes. escape_id: the if/else skeleton, the '
               'StringIO loop of escape_str and the two str.format calls of upper_hex are recognised syntactically by the translator (fail '
               'closed) and their meaning (IdModel.upper_hex, flat_map over the characters) is tied by the differential run, not proved from '
               'Python semantics; of the ~110 call sites in hail/ir only seven node kinds are rendered in the tie (the others call the same '
               'function objects, which the tie checks by identity). The engine-half findings cannot be replayed on the engine, only on the '
               'real escape_parsable / escape_id / escape_str + the lexer rule as written in Parser.scala.',
    partial=True,
)
TRUSTED = ['harness/translate/peg_grammar.py + harness/loader/shims/parsimonious (grammar-syntax reader, PEG interpreter used at run time)',
           'hand model coq/theories/HailTypes/Model.v (printers, escapes, TypeConstructor) tied by the correspondence run (X)',
           'hand model coq/theories/HailTypes/Lexer.v of IRLexer.identifier / unescapeString and IdModel.v lex_string of IRLexer.stringLiteral '
           '(MODELLED, never executed)',
           'harness/translate/escape_id.py (AST shapes of upper_hex / escape_str / escape_id / parsable_strings -> GenId.v; fail closed) + '
           'harness/translate/regex_sre.py + harness/impl/regex_parse.py (CPython re._parser op-tree -> Regex.re; \\w -> py_word_ranges)',
           'coq/theories/Regex/Regex.v (relational semantics of Python re matching: fullmatch / match, $ before a final newline)',
           'hand definition IdModel.upper_hex of the two str.format calls of upper_hex (tied by X on sample points only)',
           'harness/hailfe/irlexer_ref.py (oracle-side reading of the lexer rule) and the JVM / stored Character tables',
           'CPython re (\\w, \\s), unicode_escape codec']
ASSUMPTIONS = ['Python\'s \\w and \\s above U+007F are parameters of the theorems; the tie instantiates them per case with what `re` answers',
               'reference genomes exist for every name used (registry faked without a backend)',
               'struct field names are distinct (they are Python dict keys)',
               'escape_id: Python\'s \\w above U+007F is a finite union of ranges of code points >= 128 (word_hi_ok); names are sequences of '
               'code points (a str); whatever follows an identifier in IR text is not a Java identifier part (a blank or a bracket)']

HEADER = ('From HailV Require Import Common.Prelude HailValues.Model HailTypes.Peg HailTypes.Model HailTypes.Lexer.\n'
          'From HailG Require C31.Gen.\nOpen Scope N_scope.\n')
HEADER_ID = ('From HailV Require Import Common.Prelude HailValues.Model HailTypes.Peg HailTypes.Model HailTypes.Lexer '
             'Regex.Regex HailTypes.IdModel.\nFrom HailG Require C31.GenId.\nOpen Scope N_scope.\n')
FUEL = 400


def generate(ctx):
    text, names = peg_grammar.translate(ctx.read_repo(peg_grammar.SRC))
    ctx.write_generated('Gen.v', text)
    ctx.notes.append(f'grammar rules: {names}')
    # identifier half: upper_hex / escape_str / escape_id / parsable_strings of hail/utils/misc.py
    text, info = escape_id_tr.translate(ctx)
    ctx.write_generated('GenId.v', text)
    ctx.notes.append(f'escape_id: {info}')


# ------------------------------------------------------------------------------------------------ cases

NAMES = ['a', '_x1', 'GT', 'self', 'a²', 'é', 'aé', 'b c', '', '`', '\\', 'a`b', '\\`', '`\\', '1a', 'ü', '名前', 'a名', '\n', '\t ', '\r',
         '"', "'", 'a.b', '😀', 'a😀', 'ǅ', 'a·b', 'a٣', '\x00', '\x01', '\x7f', '\x80', '\xff', 'Ā', '￿', '\U00010000', '\U0010ffff',
         'int32', 'struct', 'str', 'tuple', 'a b', 'a ', 'x³', 'a¼', 'A_9', '__', 'a$', '$a', 'a:b', 'a>b', 'a}b', 'a,b', 'a-b',
         '\\n', '\\u00e9', '\\x41', 'a\\', '``', ' ', 'a ', ' a', '\ud800', 'a\udc00']


def _n(s):
    return G.cps(s)


def gen_name(rng):
    r = rng.random()
    if r < 0.6:
        return rng.choice(NAMES)
    return ''.join(chr(G.gen_cp(rng) if rng.random() < 0.7 else rng.choice([0x60, 0x5c, 0xe9, 0xb2, 0x1f600, 0x20, 0x5f, 0x41]))
                   for _ in range(rng.randint(1, 5)))


def gen_type(rng, depth):
    if depth <= 0 or rng.random() < 0.3:
        r = rng.random()
        if r < 0.15:
            return ['locus', _n(gen_name(rng))]
        return rng.choice(list(G.SCALARS) + ['void', 'rng_state'])
    k = rng.choice(['interval', 'array', 'set', 'stream', 'dict', 'struct', 'struct', 'tuple', 'ndarray', 'locus'])
    if k == 'locus':
        return ['locus', _n(gen_name(rng))]
    if k in ('interval', 'array', 'set', 'stream'):
        return [k, gen_type(rng, depth - 1)]
    if k == 'dict':
        return [k, gen_type(rng, depth - 1), gen_type(rng, depth - 1)]
    if k == 'ndarray':
        return [k, gen_type(rng, depth - 1), rng.choice([0, 1, 2, 3, 10, 123, 4294967296])]
    if k == 'tuple':
        return [k, [gen_type(rng, depth - 1) for _ in range(rng.choice([0, 1, 2, 3, 4]))]]
    names = []
    for _ in range(rng.choice([0, 1, 2, 3, 5])):
        nm = gen_name(rng)
        if nm not in names:
            names.append(nm)
    return ['struct', [[_n(nm), gen_type(rng, depth - 1)] for nm in names]]


HAND_TYPES = [
    ['struct', []], ['tuple', []], ['tuple', ['int32']], ['struct', [[_n('a'), 'int32']]],
    ['struct', [[_n('a²'), 'bool'], [_n(''), 'int32'], [_n('`'), 'str'], [_n('self'), 'call']]],
    ['dict', 'str', ['array', ['tuple', ['float64', 'call', ['locus', _n('GRCh37')]]]]],
    ['locus', _n('my ref')], ['locus', _n('é')], ['ndarray', 'float64', 2], ['ndarray', ['struct', [[_n('x y'), 'int64']]], 0],
    ['stream', ['interval', ['set', 'str']]], ['struct', [[_n('struct'), ['struct', [[_n('str'), 'str']]]], [_n('int'), 'void']]],
    ['array', ['array', ['array', ['array', ['array', ['array', 'rng_state']]]]]],
    ['struct', [[_n(nm), 'int32'] for nm in ['a', 'b', '\\', '`', 'a`b', '\\`', '😀', '\n', 'é', 'a\\']]],
]


def _corpus(ctx):
    out = []
    for p in sorted(glob.glob(os.path.join(ctx.verif, 'corpus', ID, '*.json'))):
        doc = json.load(open(p))
        out += doc if isinstance(doc, list) else [doc]
    return [c.get('case', c) for c in out]


def _cases(ctx, n_types, n_names):
    rng = ctx.rng
    cases = [c for c in _corpus(ctx) if 'id' not in c]
    cases += [{'t': t} for t in HAND_TYPES] + [{'name': _n(s)} for s in NAMES]
    nt = sum(1 for c in cases if 't' in c)
    while nt < n_types:
        cases.append({'t': gen_type(rng, rng.choice([0, 1, 2, 2, 3, 3, 4]))})
        nt += 1
    nn = sum(1 for c in cases if 'name' in c)
    while nn < n_names:
        cases.append({'name': _n(gen_name(rng))})
        nn += 1
    return cases


def _run_impl(ctx, cases):
    res = []
    for i in range(0, len(cases), 400):
        res += ctx.run_impl('c31_types.py', {'cases': cases[i:i + 400]}, timeout=300)['results']
    for c, r in zip(cases, res):
        if 'build_exc' in r:
            raise RuntimeError(f'harness could not build case {c}: {r["build_exc"]}')
    return res


# ------------------------------------------------------------------------------------------------ identifiers (escape_id)

# names a header line, a VCF INFO key, a pasted column name can be: simple identifiers with line terminators / white space
# around them, every ASCII control character, quotes, back-ticks, backslashes, look-alike escapes, non-ASCII letters and
# digits, astral characters, Java and IR keywords
ID_NAMES = NAMES + [
    'abc\n', 'GT\n', '_\n', 'x\n', 'abc\n\n', '\nabc', 'a\nb', 'abc\r', 'abc\r\n', 'abc\t', 'abc ', ' abc', 'abc\x0b', 'abc\x0c',
    'abc\x1c', 'abc\x1d', 'abc\x1e', 'abc\x1f', 'abc\x85', 'abc\u2028', 'abc\u2029', 'abc\xa0', '\xe9\n', 'a\xe9\n', 'a\xb2\n',
    'row_idx', 'info.AF', 'class', 'if', 'true', 'null', 'int', 'None', 'True', 'False', 'NA', 'inf', 'nan', '-inf', 'eval',
    'Ref', 'a\x00', 'x\x01y', 'x\x1f', 'x\x7f', '\x08', '\x0c', '\x0b', '\x0e', '\x0f', '\x10', '\x1b', 'a"b', "a'b", 'a\\b',
    '\\u0041', '\\`', 'a\\', '\\', '`a`', 'caf\xe9', 'na\xefve', '\u03b1_1', '\xe1', '\uff41', 'a\uff42', 'a\U0001d400',
    '\U0001d400', 'a\U0001d7ce', 'a\u0663', 'a\u2167', 'a\u203fb', 'a\u200d', '\ufeff', 'a\ufeffb', '\uffff', '\ud7ff', '\ue000',
    '\U0001f600', 'a\U0001f600b', '\U00010000', '\U0010ffff', '\U0001f600\n', '$a', 'a$', 'a\x7fb', '\u20aca', 'a\u20ac',
    '\ud800', '\udfff',
]
ID_SUFFIXES = ['\n', '\r', '\r\n', '\t', ' ', '\x0b', '\x0c', '\x1c', '\x1d', '\x1e', '\x1f', '\x85', '\u2028', '\n\n', '\x00', '\x7f', '`', '\\', '"', '\xe9', '\xb2', '\U0001f600']
ID_WORDS = ['a', 'abc', 'GT', '_', 'x1', '_9', 'Z', 'row', 'AF', '\xe9', 'a\xb2', 'a\u540d']
HEX_POINTS = [0, 1, 9, 10, 15, 16, 31, 127, 128, 255, 256, 4095, 4096, 65535, 65536, 0x1F600, 0xFFFFF, 0x100000, 0x10FFFF]
KEY_ID_ASTRAL = 'engine-misreads:escape_str-astral-\\u-more-than-4-hex-digits'
KEY_ID_BARE_JAVA = 'engine-rejects:escape_id-bare-name-not-a-java-identifier'
KEY_ID_BARE_NONWORD = 'engine-misreads:escape_id-bare-name-with-non-word-character'


def gen_id_name(rng):
    r = rng.random()
    if r < 0.35:
        return rng.choice(ID_NAMES)
    if r < 0.7:
        w = rng.choice(ID_WORDS)
        k = rng.random()
        if k < 0.6:
            return w + rng.choice(ID_SUFFIXES)
        if k < 0.8:
            return rng.choice(ID_SUFFIXES) + w
        return w + rng.choice(ID_SUFFIXES) + rng.choice(ID_WORDS)
    return gen_name(rng)


def _id_cases(ctx, n):
    cases = [c for c in _corpus(ctx) if 'id' in c] + [{'id': _n(s)} for s in ID_NAMES]
    while len(cases) < n:
        cases.append({'id': _n(gen_id_name(ctx.rng))})
    return cases


def _run_impl_ids(ctx, cases, with_ir=True):
    res, hexes, uses = [], [], True
    for i in range(0, max(len(cases), 1), 400):
        out = ctx.run_impl('c31_ids.py', {'names': [c['id'] for c in cases[i:i + 400]], 'ir': with_ir, 'hex': HEX_POINTS if i == 0 else []},
                           timeout=300)
        res += out['results']
        hexes += out['hex']
        uses = uses and out['ir_uses_misc']
    return res, hexes, uses


def _word_tab(r):
    return '(fun c => existsb (N.eqb c) ' + G.coq_name(sorted(int(k) for k, v in r['classes'].items() if v)) + ')'


def _model_ids(ctx, cases, impl):
    exprs = []
    for c, r in zip(cases, impl):
        N = G.coq_name(c['id'])
        exprs.append(f'(C31.GenId.escape_str true {N}, C31.GenId.escape_str false {N}, escape_id {N}, '
                     f'C31.GenId.escape_id_quoted {N}, C31.GenId.parsable_strings [{N}; [120]; {N}])')
    return coq_eval(ctx, HEADER_ID, exprs, shard=80, timeout=300)


def _is_simple(name_cps, classes):
    """[_a-zA-Z]\\w* decided by the harness: ASCII by rule, above ASCII by what the implementation's `re` answered for \\w"""
    def word(c):
        return (48 <= c <= 57 or 65 <= c <= 90 or c == 95 or 97 <= c <= 122) if c < 128 else bool(classes.get(str(c)))
    return bool(name_cps) and (65 <= name_cps[0] <= 90 or name_cps[0] == 95 or 97 <= name_cps[0] <= 122) and all(word(c) for c in name_cps[1:])


def _expected_ir(template, r):
    return template.replace('{id}', G.uncps(r['escape_id'])).replace('{str}', '"' + G.uncps(r['esc']) + '"')


def _holes(template, r):
    """[(offset in the rendered text, 'identifier'|'string')] of the holes of a template"""
    out, pos, i = [], 0, 0
    eid, est = G.uncps(r['escape_id']), '"' + G.uncps(r['esc']) + '"'
    while i < len(template):
        if template.startswith('{id}', i):
            out.append((pos, 'identifier'))
            pos += len(eid)
            i += 4
        elif template.startswith('{str}', i):
            out.append((pos, 'string'))
            pos += len(est)
            i += 5
        else:
            pos += 1
            i += 1
    return out


def _correspond_ids(ctx, dis):
    cases = _id_cases(ctx, ctx.scale(350, 4000))
    impl, hexes, uses = _run_impl_ids(ctx, cases)
    model = _model_ids(ctx, cases, impl)
    if not uses:
        dis.append(Disagreement('ir-render~escape_id', 'hail.ir.ir.escape_id/escape_str/parsable_strings', 'the functions of hail.utils.misc',
                                'other objects'))
    mh = coq_eval(ctx, HEADER_ID, [f'(upper_hex {nlit(n)} None, upper_hex {nlit(n)} (Some 4%nat))' for n in HEX_POINTS])
    for (n, h1, h4), (m1, m4) in zip(hexes, mh):
        if (h1, h4) != (m1, m4):
            dis.append(Disagreement('upper_hex', {'n': n}, [G.uncps(m1), G.uncps(m4)], [G.uncps(h1), G.uncps(h4)]))
    n_ir = 0
    for c, m, r in zip(cases, model, impl):
        if 'exc' in r:
            dis.append(Disagreement('escape_id', c, G.uncps(m[2]), r['exc']))
            continue
        mbt, mpl, mid, mq, mps = m
        for nm, mv, iv in (('escape_str(backticked=True)', mbt, r['esc_bt']), ('escape_str', mpl, r['esc']), ('escape_id', mid, r['escape_id']),
                           ('parsable_strings', mps, r['pstrings'])):
            if mv != iv:
                dis.append(Disagreement(nm, c, G.uncps(mv), G.uncps(iv)))
                break
        else:
            if mid != c['id'] and mid != mq:
                dis.append(Disagreement('escape_id', c, 'hand model is neither the name nor GenId.escape_id_quoted', G.uncps(mq)))
            if 'ir_exc' in r:
                dis.append(Disagreement('ir-render~escape_id', c, 'renders', r['ir_exc']))
            for kind, template, text in r.get('ir', []):
                n_ir += 1
                if G.uncps(text) != _expected_ir(template, r):
                    dis.append(Disagreement('ir-render~escape_id', {'id': c['id'], 'node': kind}, _expected_ir(template, r), G.uncps(text)))
                    break
    return cases, impl, n_ir


# ------------------------------------------------------------------------------------------------ model

def coq_hty(t):
    k = G.kind(t)
    if k in G.SCALARS:
        return {'int32': 'HInt32', 'int64': 'HInt64', 'float32': 'HFloat32', 'float64': 'HFloat64', 'bool': 'HBool', 'str': 'HStr',
                'call': 'HCall'}[k]
    if k == 'void':
        return 'HVoid'
    if k == 'rng_state':
        return 'HRNGState'
    if k == 'locus':
        return f'(HLocus {G.coq_name(t[1])})'
    if k in ('interval', 'array', 'set', 'stream'):
        return f'({ {"interval": "HInterval", "array": "HArray", "set": "HSet", "stream": "HStream"}[k]} {coq_hty(t[1])})'
    if k == 'dict':
        return f'(HDict {coq_hty(t[1])} {coq_hty(t[2])})'
    if k == 'struct':
        return '(HStruct ' + listlit([f'({G.coq_name(n)}, {coq_hty(ft)})' for n, ft in t[1]]) + ')'
    if k == 'tuple':
        return '(HTuple ' + listlit([coq_hty(x) for x in t[1]]) + ')'
    if k == 'ndarray':
        return f'(HNDArray {coq_hty(t[1])} {nlit(t[2])})'
    raise AssertionError(t)


def read_hty(x):
    n, a = G._ctor(x)
    simple = {'HVoid': 'void', 'HInt32': 'int32', 'HInt64': 'int64', 'HFloat32': 'float32', 'HFloat64': 'float64', 'HBool': 'bool',
              'HStr': 'str', 'HCall': 'call', 'HRNGState': 'rng_state'}
    if n in simple:
        return simple[n]
    if n == 'HLocus':
        return ['locus', a[0]]
    if n in ('HInterval', 'HArray', 'HSet', 'HStream'):
        return [n[1:].lower(), read_hty(a[0])]
    if n == 'HDict':
        return ['dict', read_hty(a[0]), read_hty(a[1])]
    if n == 'HStruct':
        return ['struct', [[p[0], read_hty(p[1])] for p in a[0]]]
    if n == 'HTuple':
        return ['tuple', [read_hty(y) for y in a[0]]]
    if n == 'HNDArray':
        return ['ndarray', read_hty(a[0]), a[1]]
    raise ValueError(n)


def _tables(r):
    w = [int(k) for k, v in r['classes'].items() if v[0]]
    s = [int(k) for k, v in r['classes'].items() if v[1]]
    return (f'(fun c => existsb (N.eqb c) {G.coq_name(sorted(w))})', f'(fun c => existsb (N.eqb c) {G.coq_name(sorted(s))})')


def _model(ctx, cases, impl):
    exprs = []
    for c, r in zip(cases, impl):
        uw, us = _tables(r)
        if 't' in c:
            T = coq_hty(c['t'])
            exprs.append(f'(show {uw} {T}, show_parsable {uw} {T}, dtype_with {uw} {us} C31.Gen.grammar {FUEL} (show {uw} {T}))')
        else:
            N = G.coq_name(c['name'])
            exprs.append(f'(escape_parsable {uw} {N}, unescape_parsable (flat_map esc_char {N}), is_bare {uw} {N})')
    return coq_eval(ctx, HEADER, exprs, shard=80, timeout=300)


def correspond(ctx):
    cases = _cases(ctx, ctx.scale(350, 4000), ctx.scale(250, 2500))
    impl = _run_impl(ctx, cases)
    model = _model(ctx, cases, impl)
    dis, distinct, kinds = [], set(), {}
    for c, m, r in zip(cases, model, impl):
        if 't' in c:
            t = c['t']
            if not isinstance(t, str):
                distinct.add(json.dumps(t))
            ms, mp, md = m
            if 'str' not in r:
                dis.append(Disagreement('show~str(t)', c, G.uncps(ms), r.get('show_exc')))
                continue
            if ms != r['str']:
                dis.append(Disagreement('show~str(t)', c, G.uncps(ms), G.uncps(r['str'])))
                continue
            if mp != r['parsable']:
                dis.append(Disagreement('show_parsable~_parsable_string', c, G.uncps(mp), G.uncps(r['parsable'])))
                continue
            mres = read_hty(md[1]) if isinstance(md, tuple) and md[0] == 'Ok' else md
            ires = r.get('parsed') if 'parsed' in r else r.get('parse_exc')
            if mres != ires:
                dis.append(Disagreement('dtype~hl.dtype', c, mres, ires))
        else:
            me, mu, mb = m
            if me != r.get('escaped'):
                dis.append(Disagreement('escape_parsable', c, G.uncps(me), G.uncps(r.get('escaped') or []) or r.get('exc')))
                continue
            if not mb and ('unescaped' not in r or mu is None or mu[1] != r['unescaped']):
                dis.append(Disagreement('unescape_parsable', c, mu, r.get('unescaped')))
    id_cases, id_impl, n_ir = _correspond_ids(ctx, dis)
    return Corr(evaluations=len(cases) * 3 + len(id_cases) * 4 + n_ir, distinct_nontrivial=len(distinct),
                rule='types: corpus + hand-written + seeded random nestings (depth <= 4) with names from a pool of edge cases and random '
                     'code points; names: the pool + random. Per type: str(t), _parsable_string() and hl.dtype(str(t)) (through the '
                     'parsimonious shim) vs show / show_parsable / dtype over the regenerated grammar (vm_compute, fuel 400); per name: '
                     'escape_parsable / unescape_parsable. non-trivial = compound type. Identifiers: a pool of adversarial names (line '
                     'terminators and white space around simple identifiers, every kind of control character, quotes, back-ticks, '
                     'backslashes, non-ASCII letters/digits, astral characters, lone surrogates, Java/IR keywords) + seeded random: the real '
                     'escape_id / escape_str(backticked=True) / escape_str / parsable_strings / upper_hex vs the model regenerated from '
                     'hail/utils/misc.py (GenId, vm_compute) and the hand model the theorems are about; the text of real hail.ir nodes '
                     '(Ref, GetField, MakeStruct, SelectFields, Let, InsertFields, Str) vs the same text with the name escaped by the '
                     'real escape_id / escape_str',
                samples=[{'case': c, 'impl': {k: (G.uncps(v) if k in ('str', 'parsable', 'escaped') else v) for k, v in r.items()
                                              if k != 'classes'}} for c, r in list(zip(cases, impl))[:3]],
                disagreements=dis, histograms={'n_types': sum(1 for c in cases if 't' in c), 'n_names': sum(1 for c in cases if 'name' in c),
                                               'n_identifiers': len(id_cases), 'n_ir_nodes_rendered': n_ir,
                                               'n_identifiers_emitted_bare': sum(1 for c, r in zip(id_cases, id_impl)
                                                                                 if r.get('escape_id') == c['id'])},
                names=['show~str(t)', 'show_parsable~_parsable_string', 'dtype~hl.dtype', 'escape_parsable', 'unescape_parsable',
                       'escape_id', 'escape_str', 'escape_str(backticked=True)', 'parsable_strings', 'upper_hex', 'ir-render~escape_id'])


# ------------------------------------------------------------------------------------------------ oracle

def _names_of(t, acc):
    k = G.kind(t)
    if k == 'locus':
        acc.append(t[1])
    elif k in ('interval', 'array', 'set', 'stream', 'ndarray'):
        _names_of(t[1], acc)
    elif k == 'dict':
        _names_of(t[1], acc)
        _names_of(t[2], acc)
    elif k == 'struct':
        for n, ft in t[1]:
            acc.append(n)
            _names_of(ft, acc)
    elif k == 'tuple':
        for x in t[1]:
            _names_of(x, acc)
    return acc


def _engine_class(name, emitted, reason, classes=None):
    """finding key of an engine-side rejection: which kind of emitted text the engine cannot read"""
    if not emitted.startswith('`') or emitted == name:
        if classes is not None and not _is_simple(G.cps(name), classes):
            return 'engine-misreads:bare-name-with-non-word-character'     # sent bare although it is not [_a-zA-Z]\\w*
        return 'engine-rejects:bare-name-not-a-java-identifier'
    m = re.search(r'\\(.)', re.sub(r'\\\\', '', emitted))
    body = emitted[1:-1]
    i = 0
    while i < len(body):
        if body[i] == '\\':
            d = body[i + 1] if i + 1 < len(body) else ''
            if d not in irlexer_ref.ESCAPE_CHARS:
                return f'engine-rejects:escape-\\{d}'
            i += 2
        else:
            i += 1
    return 'engine-rejects:other'


def oracle(ctx, budget):
    cases = _cases(ctx, ctx.scale(400, 5000) * budget, ctx.scale(400, 4000) * budget)
    try:
        impl = _run_impl(ctx, cases)
    except ImplCrash as e:
        # `import hail` itself parses type strings (hail/ir/register_aggregators.py): a grammar/printer that no longer
        # round-trips can already fail there.  The failing input is then the import; the traceback names the type string.
        tail = e.stderr.strip().splitlines()
        return ([Failure('import-hail-crashes', 'importing hail (which calls hl.dtype on built-in type strings) fails: '
                         + (tail[-1] if tail else '')[:300], {'import': 'hail'}, 'import succeeds', tail[-12:])],
                {'evaluations': 0, 'rule': 'oracle: import hail'})
    tables, note = irlexer_ref.load_tables(ctx.work)
    ctx.notes.append(note)
    fails = []
    seen_names = {}
    for c, r in zip(cases, impl):
        if 't' in c:
            if 'show_exc' in r:
                e = r['show_exc']
                fails.append(Failure(f'str-raises:{e["exc"]}:{e["where"]}', f'str(t) raised {e["exc"]}: {e["msg"]}', c, None, e))
            elif 'parse_exc' in r:
                e = r['parse_exc']
                fails.append(Failure(f'dtype-raises:{e["exc"]}', f'hl.dtype(str(t)) raised {e["exc"]}: {e["msg"][:120]}', c,
                                     G.uncps(r['str']), e))
            elif r.get('parsed') != c['t'] or not r.get('eq'):
                fails.append(Failure('dtype-differs', 'hl.dtype(str(t)) is not equal to t', c, c['t'], r.get('parsed')))
            continue
        name = G.uncps(c['name'])
        if 'exc' in r:
            e = r['exc']
            fails.append(Failure(f'escape-raises:{e["exc"]}', f'escape_parsable raised {e["exc"]}: {e["msg"]}', c, None, e))
            continue
        emitted = G.uncps(r['escaped'])
        if emitted != name and r.get('unescaped') != c['name']:
            fails.append(Failure('unescape-differs', 'unescape_parsable(escape_parsable(s)[1:-1]) != s', c, c['name'], r.get('unescaped')))
            continue
        if any(0xd800 <= cp <= 0xdfff for cp in c['name']):
            continue           # lone surrogates cannot be sent to the engine at all (UTF-8)
        ok, reason = irlexer_ref.engine_reads(emitted, name, tables)
        if not ok:
            key = _engine_class(name, emitted, reason, r.get('classes'))
            seen_names.setdefault(key, []).append(name)
            fails.append(Failure(key, f'engine lexer rule does not read {emitted!r} back as the name {name!r}: {reason}',
                                 c, {'name': c['name']}, {'emitted': r['escaped'], 'reason': reason, 'tables': tables.source}))
    n_ids = _oracle_ids(ctx, budget, tables, fails, seen_names)
    # the two table facts used by C31_engine_rejects_bare
    facts = {'re \\w matches U+00B2': bool(re.fullmatch(r'\w', '²')), 'isJavaIdentifierPart(U+00B2)': tables.is_part(0xb2)}
    ctx.notes.append(f'table facts: {facts}')
    fails.sort(key=lambda f: len(json.dumps(f.case)))
    return fails, {'evaluations': len(cases) + n_ids, 'distinct_nontrivial': len({json.dumps(c) for c in cases}),
                   'rule': 'oracle: hl.dtype(str(t)) == t; unescape(escape(s)) == s; the emitted identifier read with the engine lexer rule '
                           f'({tables.source}) gives the same name; the same for escape_id(name) followed by a blank / a bracket, for the '
                           'string literal "escape_str(name)", and for the identifier / string tokens inside the text of real hail.ir nodes',
                   'histograms': {'engine_rejections': {k: len(v) for k, v in seen_names.items()}, 'table_facts': facts, 'jvm': note},
                   'samples': [{'engine_rejected': {k: v[:4] for k, v in seen_names.items()}}]}


def _id_class(c, r, emitted):
    """finding key of a name printed through escape_id that the engine does not read back"""
    name = c['id']
    if emitted == G.uncps(name):                                    # sent bare
        return KEY_ID_BARE_JAVA if _is_simple(name, r.get('classes', {})) else KEY_ID_BARE_NONWORD
    if any(cp > 0xffff for cp in name):
        return KEY_ID_ASTRAL
    return 'engine-rejects:escape_id-quoted-name'


def _oracle_ids(ctx, budget, tables, fails, seen_names):
    """escape_id / escape_str / real IR text on the IMPLEMENTATION alone, read with the engine lexer rule"""
    cases = _id_cases(ctx, ctx.scale(500, 5000) * budget)
    impl, _, _ = _run_impl_ids(ctx, cases)
    for c, r in zip(cases, impl):
        name = G.uncps(c['id'])
        if 'exc' in r:
            e = r['exc']
            fails.append(Failure(f'escape_id-raises:{e["exc"]}', f'escape_id/escape_str raised {e["exc"]}: {e["msg"]}', c, None, e))
            continue
        if 'ir_exc' in r:
            e = r['ir_exc']
            fails.append(Failure(f'ir-render-raises:{e["exc"]}', f'rendering an IR node with this name raised {e["exc"]}: {e["msg"]}', c, None, e))
            continue
        if any(0xd800 <= cp <= 0xdfff for cp in c['id']):
            continue           # lone surrogates cannot be sent to the engine at all (UTF-8)
        emitted = G.uncps(r['escape_id'])
        bad = None
        for delim in (' ', ')'):
            ok, reason = irlexer_ref.engine_reads(emitted, name, tables, delim)
            if not ok:
                bad = (_id_class(c, r, emitted), f'escape_id: engine lexer rule does not read {emitted!r} back as the name {name!r}: {reason}',
                       {'emitted': r['escape_id'], 'reason': reason})
                break
        if bad is None:
            lit = '"' + G.uncps(r['esc']) + '"'
            ok, reason = irlexer_ref.engine_reads_at(lit + ' ', 0, name, tables, 'string')
            if ok and irlexer_ref.lex_string(irlexer_ref.utf16_units(lit + ' '))[1] != len(irlexer_ref.utf16_units(lit)):
                ok, reason = False, 'string token does not end at the closing quote'
            if not ok:
                key = KEY_ID_ASTRAL if any(cp > 0xffff for cp in c['id']) else 'engine-rejects:escape_str-string-literal'
                bad = (key, f'escape_str: engine lexer rule does not read the string literal {lit!r} back as {name!r}: {reason}',
                       {'emitted': G.cps(lit), 'reason': reason})
        if bad is None:
            for kind, template, text in r.get('ir', []):
                text = G.uncps(text)
                if text != _expected_ir(template, r):
                    bad = (f'ir-render:{kind}-does-not-carry-the-escaped-name', f'str(hail.ir.{kind}(...)) does not carry the name as '
                           f'escape_id / escape_str print it: {text!r}', {'text': G.cps(text), 'expected': _expected_ir(template, r)})
                    break
                for off, tk in _holes(template, r):
                    ok, reason = irlexer_ref.engine_reads_at(text, off, name, tables, tk)
                    if not ok:
                        bad = (_id_class(c, r, emitted) if tk == 'identifier' else KEY_ID_ASTRAL if any(cp > 0xffff for cp in c['id'])
                               else 'engine-rejects:escape_str-string-literal',
                               f'IR text of hail.ir.{kind}: {text!r}: the {tk} token at offset {off} is not read back as {name!r}: {reason}',
                               {'text': G.cps(text), 'reason': reason})
                        break
                if bad:
                    break
        if bad:
            seen_names.setdefault(bad[0], []).append(name)
            fails.append(Failure(bad[0], bad[1], c, {'name': c['id']}, dict(bad[2], tables=tables.source)))
    return len(cases)


def _replay_id(ctx, case):
    r = _run_impl_ids(ctx, [case])[0][0]
    out = {'case': case, 'impl': {k: (G.uncps(v) if k in ('escape_id', 'esc_bt', 'esc', 'pstrings') else
                                      [[a, G.uncps(x)] for a, _, x in v] if k == 'ir' else v) for k, v in r.items()}}
    if 'escape_id' in r:
        tables, note = irlexer_ref.load_tables(ctx.work)
        name, emitted = G.uncps(case['id']), G.uncps(r['escape_id'])
        ok, reason = irlexer_ref.engine_reads(emitted, name, tables, ' ')
        out['engine_lexer_rule'] = {'accepts_and_same_name': ok, 'reason': reason, 'tables': note}
        try:
            val, used = irlexer_ref.lex_identifier(irlexer_ref.utf16_units(emitted + ' '), tables)
            out['engine_lexer_rule']['token'] = {'value_utf16_units': val, 'units_consumed': used, 'units_emitted': len(irlexer_ref.utf16_units(emitted))}
        except irlexer_ref.Reject as e:
            out['engine_lexer_rule']['token'] = f'rejected: {e}'
    try:
        generate(ctx)
        m = _model_ids(ctx, [case], [r])[0]
        N = G.coq_name(case['id'])
        e = coq_eval(ctx, HEADER_ID, [f'lex_identifier (fun _ => false) (fun _ => false) (utf16 (escape_id {N}) ++ [32])',
                                      f'lex_string (utf16 (str_literal {N}) ++ [32])'])
        out['model'] = {'GenId.escape_str true': G.uncps(m[0]), 'GenId.escape_str false': G.uncps(m[1]), 'escape_id': G.uncps(m[2]),
                        'engine_lexer_model(no non-ASCII identifier chars) on escape_id ++ " "': e[0],
                        'engine_string_lexer_model on the string literal': e[1]}
    except Exception as ex:  # noqa: BLE001
        out['model'] = f'model evaluation failed: {ex}'
    return out


def replay(ctx, doc):
    case = doc['case']
    if 'id' in case:
        return _replay_id(ctx, case)
    if 'import' in case:
        try:
            _run_impl(ctx, [])
            return {'case': case, 'impl': 'import hail succeeds'}
        except ImplCrash as e:
            return {'case': case, 'impl': 'import hail fails', 'stderr_tail': e.stderr.strip().splitlines()[-8:]}
    r = _run_impl(ctx, [case])[0]
    out = {'case': case, 'impl': {k: (G.uncps(v) if k in ('str', 'parsable', 'escaped', 'unescaped') else v) for k, v in r.items()}}
    if 'name' in case and 'escaped' in r:
        tables, note = irlexer_ref.load_tables(ctx.work)
        name, emitted = G.uncps(case['name']), G.uncps(r['escaped'])
        ok, reason = irlexer_ref.engine_reads(emitted, name, tables)
        out['engine_lexer_rule'] = {'accepts_and_same_name': ok, 'reason': reason, 'tables': note}
    try:
        generate(ctx)
        m = _model(ctx, [case], [r])[0]
        if 't' in case:
            out['model'] = {'show': G.uncps(m[0]), 'show_parsable': G.uncps(m[1]),
                            'dtype': read_hty(m[2][1]) if isinstance(m[2], tuple) and m[2][0] == 'Ok' else m[2]}
        else:
            uw, _ = _tables(r)
            N = G.coq_name(case['name'])
            e = coq_eval(ctx, HEADER, [f'lex_identifier (fun _ => false) (fun _ => false) (utf16 (escape_parsable {uw} {N}) ++ [58])'])[0]
            out['model'] = {'escape_parsable': G.uncps(m[0]), 'unescape': m[1], 'is_bare': m[2],
                            'engine_lexer_model(no non-ASCII identifier chars)': e}
    except Exception as ex:  # noqa: BLE001
        out['model'] = f'model evaluation failed: {ex}'
    return out
