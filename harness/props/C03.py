"""C03 — billed attempt time is monotone and bounded by the attempt (trigger attempts_before_update).

Tie: T + X.
  T  generate(): the LIVE `attempts_before_update` trigger (last CREATE TRIGGER in numeric migration order, the same map
     harness/minisql/schema.py executes; batch/sql/124-attempts-before-update-timeout-after-reason.sql with fixes/C03.diff,
     067-add-real-time-billing.sql before it) is parsed with the minisql parser and
     translated by harness/translate/sql_trigger.py into coq/generated/C03/ClampGen.v (`gen_clamp`, over `option Z` columns with SQL
     three-valued logic).  BatchDB/ClampTie.v proves `gen_clamp o n = clamp4 o n` for ALL rows — clamp4 is the clamp the frozen
     database model applies in every `UPDATE attempts` — so a semantic edit of the trigger breaks a proof obligation.
  X  (a) trigger grid: the trigger text is executed by a real `UPDATE attempts SET ...` on the minisql engine for every (OLD, NEW) pair
     over {NULL,1,2,3}^3 x {NULL,'activation_timeout','completed'} (36 864 pairs, exhaustive for that scope) and compared with
     `gen_clamp` evaluated by vm_compute;  (b) the shared family correspondence (model step ~ real routines + handlers on minisql).
  Oracle: the property statement recomputed on the implementation's attempts rows after every op (harness/batchdb/oracles.py::c03).
"""
import itertools

from harness import core
from harness.core import Corr, Disagreement, TieBroken
from harness.batchdb import family
from harness.batchdb import corr as famcorr
from harness.translate.sql_trigger import TriggerToCoq

ID = 'C03'
COQ_PROPS = 'theories/BatchDB/Props_C03.v'
READY = True
TRIGGER = 'attempts_before_update'
COLUMNS = ['start_time', 'rollup_time', 'end_time', 'reason']

META = dict(
    design_ref='§5.A C03',
    technique='Coq proofs about the attempts_before_update clamp, which is regenerated on every run from the live trigger text by a '
              'fail-closed SQL-trigger-to-Gallina translator (three-valued logic over option Z) and proved equal to the clamp of the '
              'batch-database model; the trigger text is additionally executed on a MySQL-subset interpreter against the generated '
              'definition (exhaustive small scope), and the callers are covered by the family correspondence',
    level_text='Machine-checked theorems (Coq 8.16, closed under the global context) over ALL finite sequences of update requests of the '
               'four shapes the service issues (creating/started report, complete report, unschedule/deactivation, billing heartbeat; any '
               'times, any reasons, any order and multiplicity) applied to a fresh attempt row through the clamp of the live trigger '
               '(attempts_before_update as re-created by migration 124, activation-timeout block after the end/reason block): billed '
               'time max(rollup-start,0) is never negative; once the attempt has an end, billed <= max(end-start,0), rollup <= end, and end '
               'time and end reason are set together; an attempt whose reason is activation_timeout has no start and bills nothing, whatever '
               'is reported before or after; across EVERY report billed time does not decrease unless the report marks an activation '
               'timeout (carries that reason and the row carries it afterwards) or leaves the attempt with an end before the time already '
               'billed; the start only moves earlier and only a report that marks an activation timeout erases it; once an attempt has an end '
               'reason every later report leaves a reason and keeps end time and reason exactly unless it replaces the end by a strictly '
               'earlier one. All statements are unguarded (the former guard "stored reason is not activation_timeout" is gone with the '
               'fix); C03_unfixed_trigger_refuted keeps the counterexample for the block order of migration 067 (Clamp.clamp4_unfixed) as '
               'the regression witness.',
    level_note='Trusted: Coq kernel; harness/translate/sql_trigger.py + the minisql parser (trigger text -> Gallina), cross-checked against the '
               'minisql evaluator on 36 864 (OLD, NEW) pairs; the interning of reason strings as integers; that the service updates the four '
               'columns only through the four request shapes (Clamp.v request; the model callers are proved to be of these shapes in '
               'ClampSeq.v and the model is tied to the handlers by the family correspondence). "corrects the end to an earlier time" is read '
               'as: the report leaves the attempt with an end time before the rollup time already billed; "marks an activation timeout" as: '
               'the request carries the reason activation_timeout and the row carries it after the report (a timeout request that arrives '
               'after the attempt has ended, with an end that is not earlier, is ignored like every other late end report and changes neither '
               'start nor billed time). The model and the proofs target the trigger of migration 124 (fixes/C03.diff); on a tree without it '
               'the tie proof ClampTie.gen_clamp_eq fails and the oracle replays corpus/C03/activation-timeout-late-complete.json.',
    partial=False,
)
TRUSTED = family.COMMON_TRUSTED + [
    'translator harness/translate/sql_trigger.py and the minisql lexer/parser (live trigger text -> Gallina with SQL three-valued logic; fail closed outside '
    'IF/ELSEIF/ELSE, SET NEW.col, AND/OR/NOT, IS [NOT] NULL, integer comparisons, (in)equality of a string column with an interned literal)',
    'reason strings interned as integers (harness/batchdb/corr.py REASONS; string equality = equality of codes: exact match, the '
    'case-insensitive collation of MySQL is not modelled)',
]
ASSUMPTIONS = family.COMMON_ASSUMPTIONS + [
    'the start/rollup/end/reason columns of an attempt row are written only by UPDATE statements of the four shapes of Clamp.v request '
    '(mark_job_creating/started: start=rollup=t; mark_job_complete: start, rollup=end, reason; unschedule_job/deactivate_instance: rollup=end=t, '
    'reason; billing update: rollup=t) after the row was inserted with all four NULL (add_attempt)',
]

replay = family.replay


def _live_trigger(ctx):
    from harness.minisql import schema as S
    from harness.minisql.errors import Unsupported
    try:
        sch = S.load_schema(ctx.repo)
    except Unsupported as e:
        raise TieBroken('sql-trigger-translator', f'live routine map cannot be built: {e}')
    r = sch.routines.get(('TRIGGER', TRIGGER))
    if r is None:
        raise TieBroken('sql-trigger-translator', f'no live trigger {TRIGGER} in {ctx.repo}/batch/sql')
    if r.ast.table.lower() != 'attempts':
        raise TieBroken('sql-trigger-translator', f'{TRIGGER} is on table {r.ast.table}')
    t = sch.tables.get('attempts')
    cols = []
    for c in COLUMNS:
        col = t.col(c) if t else None
        if col is None:
            raise TieBroken('sql-trigger-translator', f'attempts.{c} does not exist')
        if col.type.kind not in ('int', 'str'):
            raise TieBroken('sql-trigger-translator', f'attempts.{c} has type {col.type.name}')
        cols.append((c, col.type.kind))
    if [s for _c, s in cols] != ['int', 'int', 'int', 'str']:
        raise TieBroken('sql-trigger-translator', f'unexpected column sorts {cols}')
    return r, cols


def generate(ctx):
    r, cols = _live_trigger(ctx)
    tr = TriggerToCoq(cols, famcorr.REASONS)
    body = tr.definition(r.ast, 'gen_clamp')
    text = f'''(* GENERATED by harness/props/C03.py (harness/translate/sql_trigger.py) from the live trigger {TRIGGER}
   of batch/sql/{r.source_file} — do not edit.
   Columns (in tuple order): {", ".join(COLUMNS)}; None = NULL; reason strings interned as in harness/batchdb/corr.py REASONS. *)
From Coq Require Import ZArith Bool.
From HailV Require Import BatchDB.Sql3.
Open Scope Z_scope.

{tr.string_definitions()}

{body}
'''
    ctx.write_generated('ClampGen.v', text)
    ctx.trigger_source = r.source_file


# ---------------------------------------------------------------------------------------------------------------- X (a): trigger grid
TIMES = [None, 1, 2, 3]
GRID_REASONS = [None, 'activation_timeout', 'completed']


def _oz(x):
    return 'None' if x is None else f'(Some {x})'


def _row(r):
    st, rl, en, rs = r
    return f'({_oz(st)}, {_oz(rl)}, {_oz(en)}, {_oz(None if rs is None else famcorr.REASONS[rs])})'


def trigger_grid(ctx) -> Corr:
    impl = ctx.run_impl('c03_trigger.py', {'times': TIMES, 'reasons': GRID_REASONS}, timeout=300)
    if impl.get('error'):
        raise TieBroken('trigger-grid', impl['error'])
    grid = [list(x) for x in itertools.product(TIMES, TIMES, TIMES, GRID_REASONS)]
    if impl['olds'] != grid or impl['news'] != grid:
        raise core.HarnessError('c03_trigger.py enumerated a different grid')
    header = ('From Coq Require Import ZArith List. Import ListNotations. From HailG Require Import C03.ClampGen. Open Scope Z_scope.\n'
              'Definition oz (o : option Z) : Z := match o with Some x => x | None => -1 end.\n'
              "Definition flat (t : option Z * option Z * option Z * option Z) : list Z := let '(a, b, c, d) := t in [oz a; oz b; oz c; oz d].\n"
              f'Definition grid : list (option Z * option Z * option Z * option Z) := [{"; ".join(_row(r) for r in grid)}].')
    exprs = [f'map (fun o => flat (gen_clamp o {_row(new)})) grid' for new in grid]
    model = core.coq_eval(ctx, header, exprs, shard=48, label='c03grid')
    dis = []
    n = 0
    changed = 0
    for new, mrow, irow in zip(grid, model, impl['results']):
        for old, m, i in zip(grid, mrow, irow):
            n += 1
            ic = [-1 if x is None else x for x in i[:3]] + [-1 if i[3] is None else famcorr.REASONS.get(i[3], -2)]
            if ic != [-1 if x is None else x for x in new[:3]] + [-1 if new[3] is None else famcorr.REASONS[new[3]]]:
                changed += 1
            if list(m) != ic and len(dis) < 5:
                dis.append(Disagreement('gen_clamp~attempts_before_update(minisql)', {'old': old, 'new': new}, list(m), ic))
    return Corr(evaluations=n, distinct_nontrivial=changed,
                rule='trigger grid: every (OLD, NEW) pair over {NULL,1,2,3}^3 x {NULL,activation_timeout,completed}; the live trigger text run by '
                     'UPDATE attempts on minisql vs generated gen_clamp by vm_compute; non-trivial = the trigger changed NEW',
                samples=[{'old': grid[100], 'new': grid[150], 'stored': impl['results'][150][100]}],
                disagreements=dis, histograms={'trigger_source': {impl['source']: 1}}, exhaustive=True,
                names=['gen_clamp~attempts_before_update(minisql)'])


def correspond(ctx) -> Corr:
    c = trigger_grid(ctx)
    fam = family.correspond(ctx)
    c.merge(fam)
    c.exhaustive = False
    return c


oracle = family.oracle_for(ID)
