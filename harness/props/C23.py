"""C23 — ranged reads return exactly the requested bytes (hailtop/aiotools/fs/fs.py, local_fs.py, GCS / S3 / Azure back ends).

Tie:
  T  regenerated from the current source into coq/generated/C23/Gen.v: the Range-header constructions of
     GoogleStorageAsyncFS._open_from and S3AsyncFS._open_from (f-string + str(start + length - 1)), the (offset, length)
     arguments AzureAsyncFS._open_from gives AzureReadableStream, AsyncFS.read_range's `n`, and the request arithmetic of
     TruncatedReadableBinaryIO.read; Lemmas.v proves them equal to the hand model; the shapes of AsyncFS.open_from /
     read_from / read_range and LocalAsyncFS._open_from are checked structurally (fail closed).
  X  the REAL classes run (a) on real files in the scratch directory (LocalAsyncFS), (b) over fakes of the three cloud SDK
     surfaces that implement RFC 7233 Range semantics / download_blob(offset, length) (harness/impl/c23_ranged.py), for all
     small sizes x offsets x lengths x read patterns, and are compared with the Coq model evaluated by vm_compute.
Oracle: bytes returned by the real code vs Python slicing of the object, no model.
The cloud servers are a TRUSTED RFC 7233 model (the real services cannot be reached from the sandbox).
"""
import ast
import itertools
import json
import os

from harness.core import (Corr, Disagreement, Failure, TieBroken, coq_eval, zlit, listlit, optlit, blit)
from harness.translate.pyast import PyToCoq, find_function, Unsupported

ID = 'C23'
SRC_FS = 'hail/python/hailtop/aiotools/fs/fs.py'
SRC_LOCAL = 'hail/python/hailtop/aiotools/local_fs.py'
SRC_GCS = 'hail/python/hailtop/aiocloud/aiogoogle/client/storage_client.py'
SRC_S3 = 'hail/python/hailtop/aiocloud/aioaws/fs.py'
SRC_AZ = 'hail/python/hailtop/aiocloud/aioazure/fs.py'
COQ_PROPS = 'theories/RangedRead/Props_C23.v'
COQ_EXTRA = ['theories/RangedRead/Inst.v']
READY = True
META = dict(
    design_ref='§5.D C23',
    technique='Coq proofs about a byte-list model of ranged reads; Range-header construction, read_range arithmetic and the truncated '
              'local reader regenerated from the Python source (T); real classes run on real files and over RFC-7233 / download_blob fakes '
              'of the cloud SDKs and compared with the model (X)',
    level_text='Machine-checked theorems (Coq 8.16, closed under the global context) for ALL byte lists, offsets and lengths: the Range '
               'header generated from the GCS and S3 sources parses (RFC 7233 grammar) to first=start, last=start+length-1; with that header '
               'the (trusted) RFC 7233 server model returns exactly data[start:start+length] (or data[start:]) whenever 0 <= start < size and '
               'length >= 1, including the last byte and ranges that overrun the object, and 416 -> UnexpectedEOFError when start >= size; '
               'the Azure back end (offset, length as regenerated from _open_from) and the local truncated reader (request arithmetic '
               'regenerated from TruncatedReadableBinaryIO.read, for every sequence of read(n)/read(-1) calls) yield the same slice; every '
               'sequence of sized/unsized reads of a stream hands out a prefix of the slice in order and all of it once a read hits the end; '
               'AsyncFS.read_range (n regenerated from the source, inclusive and exclusive ends) returns exactly the n requested bytes when '
               'they exist, the empty string for an empty range, and UnexpectedEOFError otherwise, on all four back ends.',
    level_note='PARTIAL: the GCS/S3 object servers and azure-storage-blob download_blob are MODELLED (RFC 7233 Range semantics), not run; '
               'local files are real. Streams are modelled as the list of bytes not yet handed out (sized reads return min(n, left) bytes, as '
               'the fakes and local files do; short network reads of aiohttp are not modelled). open_from/read_from at start >= size are '
               'outside the exactness theorems (cloud back ends raise UnexpectedEOFError / a 416 error, the local one returns b\'\'). '
               'The Azure theorems target aioazure/fs.py WITH fixes/C23.diff applied.',
    partial=True,
)
TRUSTED = ['RFC 7233 Range semantics as the model of the GCS and S3 object servers (DbTx-independent; coq/theories/RangedRead/Model.v serve) '
           'and of azure-storage-blob download_blob(offset, length) (az_download); the same semantics is implemented by the fakes in '
           'harness/impl/c23_ranged.py',
           'translator harness/translate/pyast.py + C23 walkers (f-string -> string append, str(int) -> decimal string)',
           'Coq stdlib DecimalString/DecimalZ as the meaning of Python str(int) for ints',
           'loader stubs for google / boto3 / botocore / azure (only exception classes and constructor-free code paths are used)']
ASSUMPTIONS = ['the object exists and is not modified between the calls of one read',
               'sized reads on a stream return min(n, bytes left) bytes']


# ------------------------------------------------------------------------------------------------ T

def _coq_string(s):
    if not all(32 <= ord(c) < 127 for c in s):
        raise TieBroken('py-translator', f'non-printable-ASCII string literal {s!r}')
    return '"' + s.replace('"', '""') + '"'


class _Tr(PyToCoq):
    """ints + `str(int)` and f-strings (sort 'pystr' = Coq string)"""

    def expr(self, n):
        if isinstance(n, ast.JoinedStr):
            parts = []
            for v in n.values:
                if isinstance(v, ast.Constant) and isinstance(v.value, str):
                    parts.append(_coq_string(v.value))
                elif isinstance(v, ast.FormattedValue) and v.conversion == -1 and v.format_spec is None:
                    e, s = self.expr(v.value)
                    if s != 'Z':
                        raise Unsupported(v, 'formatted value is not an int')
                    parts.append(f'dec {e}')
                else:
                    raise Unsupported(v, 'f-string part')
            return '(' + ' ++ '.join(parts or ['""']) + ')%string', 'pystr'
        if isinstance(n, ast.Call) and isinstance(n.func, ast.Name) and n.func.id == 'str' and len(n.args) == 1 and not n.keywords:
            e, s = self.expr(n.args[0])
            if s != 'Z':
                raise Unsupported(n, 'str() of a non-int')
            return f'(dec {e})', 'pystr'
        if isinstance(n, ast.Call) and isinstance(n.func, ast.Name) and n.func.id == 'bool' and len(n.args) == 1 and not n.keywords:
            e, s = self.expr(n.args[0])
            if s != 'bool':
                raise Unsupported(n, 'bool() of a non-bool')
            return f'(if {e} then 1 else 0)', 'Z'
        return super().expr(n)


class _Rename(ast.NodeTransformer):
    def __init__(self, names=None, self_attrs=()):
        self.names = names or {}
        self.self_attrs = set(self_attrs)

    def visit_Name(self, node):
        if node.id in self.names:
            return ast.copy_location(ast.Name(id=self.names[node.id], ctx=node.ctx), node)
        return node

    def visit_Attribute(self, node):
        if isinstance(node.value, ast.Name) and node.value.id == 'self' and node.attr in self.self_attrs:
            return ast.copy_location(ast.Name(id=node.attr, ctx=node.ctx), node)
        return self.generic_visit(node)


def _stores(fn, name):
    return [n for n in ast.walk(fn) if isinstance(n, ast.Name) and n.id == name and isinstance(n.ctx, (ast.Store, ast.Del))]


def _range_str_def(src, qualname, coq_name, how_passed):
    fn = find_function(src, qualname)
    kwonly = [a.arg for a in fn.args.kwonlyargs]
    if [a.arg for a in fn.args.args] != ['self', 'url', 'start'] or kwonly != ['length']:
        raise TieBroken('py-translator', f'{qualname}: unexpected parameters')
    if _stores(fn, 'start') or _stores(fn, 'length'):
        raise TieBroken('py-translator', f'{qualname}: start/length are reassigned')
    touching = [s for s in fn.body if any(isinstance(n, ast.Name) and n.id == 'range_str' and isinstance(n.ctx, ast.Store) for n in ast.walk(s))]
    if len(touching) != 2 or not isinstance(touching[0], ast.Assign) or not isinstance(touching[1], ast.If):
        raise TieBroken('py-translator', f'{qualname}: expected `range_str = f"..."` followed by `if length is not None: ... range_str += ...`')
    if fn.body.index(touching[1]) != fn.body.index(touching[0]) + 1:
        raise TieBroken('py-translator', f'{qualname}: statements between the two range_str assignments')
    a, i = touching
    tr = _Tr(sorts={'start': 'Z'})
    base, s = tr.expr(a.value)
    if s != 'pystr' or len(a.targets) != 1 or not isinstance(a.targets[0], ast.Name):
        raise TieBroken('py-translator', f'{qualname}: range_str is not built from an f-string')
    if ast.unparse(i.test) != 'length is not None' or i.orelse:
        raise TieBroken('py-translator', f'{qualname}: expected `if length is not None:` without else')
    tr2 = _Tr(sorts={'start': 'Z', 'length': 'Z'})
    pre = []
    ext = None
    for st in i.body:
        if isinstance(st, ast.Assert):
            pre.append(tr2.truth(*tr2.expr(st.test), st.test))
        elif isinstance(st, ast.AugAssign) and isinstance(st.op, ast.Add) and isinstance(st.target, ast.Name) and st.target.id == 'range_str' \
                and ext is None:
            e, s = tr2.expr(st.value)
            if s != 'pystr':
                raise TieBroken('py-translator', f'{qualname}: range_str += <non-string>')
            ext = e
        else:
            raise TieBroken('py-translator', f'{qualname}: line {st.lineno}: unexpected statement `{ast.unparse(st)[:80]}`')
    if ext is None:
        raise TieBroken('py-translator', f'{qualname}: no `range_str += ...`')
    text = ast.unparse(fn)
    if how_passed not in text:
        raise TieBroken('py-translator', f'{qualname}: range_str is not passed as `{how_passed}`')
    later = fn.body[fn.body.index(i) + 1:]
    for st in later:
        for n in ast.walk(st):
            if isinstance(n, ast.Name) and n.id == 'range_str' and isinstance(n.ctx, ast.Store):
                raise TieBroken('py-translator', f'{qualname}: range_str reassigned later')
    return (f'Definition {coq_name}_range_str (start : Z) (length : option Z) : string :=\n'
            f'  let range_str := {base} in\n'
            f'  match length with None => range_str | Some length => (range_str ++ {ext})%string end.\n'
            f'Definition {coq_name}_length_ok (length : Z) : bool := {" && ".join(pre) if pre else "true"}.\n')


def _azure_args(src):
    fn = find_function(src, 'AzureAsyncFS._open_from')
    if _stores(fn, 'start') or _stores(fn, 'length'):
        raise TieBroken('py-translator', 'AzureAsyncFS._open_from: start/length are reassigned')
    rets = [n for n in ast.walk(fn) if isinstance(n, ast.Return)]
    if len(rets) != 1 or not (isinstance(rets[0].value, ast.Call) and isinstance(rets[0].value.func, ast.Name)
                              and rets[0].value.func.id == 'AzureReadableStream'):
        raise TieBroken('py-translator', 'AzureAsyncFS._open_from: expected a single `return AzureReadableStream(...)`')
    call = rets[0].value
    kw = {k.arg: k.value for k in call.keywords}
    if len(call.args) != 2 or set(kw) != {'offset', 'length'}:
        raise TieBroken('py-translator', f'AzureAsyncFS._open_from: unexpected AzureReadableStream arguments `{ast.unparse(call)}`')
    if not (isinstance(kw['length'], ast.Name) and kw['length'].id == 'length'):
        raise TieBroken('py-translator', 'AzureAsyncFS._open_from: length is not passed through unchanged')
    off, s = _Tr(sorts={'start': 'Z'}).expr(kw['offset'])
    if s != 'Z':
        raise TieBroken('py-translator', 'AzureAsyncFS._open_from: offset is not an int expression')
    pre = []
    tr = _Tr(sorts={'length': 'Z'})
    for st in fn.body:
        if isinstance(st, ast.Assert):
            if ast.unparse(st.test) == 'length is None or length >= 1':
                pre.append('(length >=? 1)')
            else:
                raise TieBroken('py-translator', f'AzureAsyncFS._open_from: unexpected assertion `{ast.unparse(st.test)}`')
    # the constructor must store them unchanged
    init = find_function(src, 'AzureReadableStream.__init__')
    body = ast.unparse(init)
    if 'self._offset = offset' not in body or 'self._length = length' not in body:
        raise TieBroken('py-translator', 'AzureReadableStream.__init__ does not store offset/length unchanged')
    return (f'Definition azure_open_args (start : Z) (length : option Z) : option Z * option Z := (Some {off}, length).\n'
            f'Definition azure_length_ok (length : Z) : bool := {" && ".join(pre) if pre else "true"}.\n')


def _fs_generic(src):
    rr = find_function(src, 'AsyncFS.read_range')
    names = [a.arg for a in rr.args.args] + [a.arg for a in rr.args.kwonlyargs]
    if names != ['self', 'url', 'start', 'end', 'end_inclusive']:
        raise TieBroken('py-translator', f'AsyncFS.read_range: unexpected parameters {names}')
    body = [s for s in rr.body if not (isinstance(s, ast.Expr) and isinstance(s.value, ast.Constant))]
    if len(body) != 2 or not isinstance(body[0], ast.Assign) or ast.unparse(body[0].targets[0]) != 'n':
        raise TieBroken('py-translator', 'AsyncFS.read_range: expected `n = ...` then the async with')
    w = body[1]
    if not (isinstance(w, ast.AsyncWith) and len(w.items) == 1
            and ast.unparse(w.items[0].context_expr) == 'await self.open_from(url, start, length=n)'
            and len(w.body) == 1 and ast.unparse(w.body[0]) == f'return await {ast.unparse(w.items[0].optional_vars)}.readexactly(n)'):
        raise TieBroken('py-translator', 'AsyncFS.read_range: expected `async with await self.open_from(url, start, length=n) as f: return await f.readexactly(n)`')
    val = _Rename({'end': 'stop'}).visit(body[0].value)
    e, s = _Tr(sorts={'start': 'Z', 'stop': 'Z', 'end_inclusive': 'bool'}).expr(val)
    if s != 'Z':
        raise TieBroken('py-translator', 'AsyncFS.read_range: n is not an int expression')
    rf = find_function(src, 'AsyncFS.read_from')
    rb = [s for s in rf.body if not (isinstance(s, ast.Expr) and isinstance(s.value, ast.Constant))]
    if not (len(rb) == 1 and isinstance(rb[0], ast.AsyncWith)
            and ast.unparse(rb[0].items[0].context_expr) == 'await self.open_from(url, start)'
            and len(rb[0].body) == 1 and ast.unparse(rb[0].body[0]) == f'return await {ast.unparse(rb[0].items[0].optional_vars)}.read()'):
        raise TieBroken('py-translator', 'AsyncFS.read_from: expected `async with await self.open_from(url, start) as f: return await f.read()`')
    of = find_function(src, 'AsyncFS.open_from')
    ob = [s for s in of.body if not (isinstance(s, ast.Expr) and isinstance(s.value, ast.Constant))]
    if not (len(ob) == 2 and isinstance(ob[0], ast.If) and ast.unparse(ob[0].test) == 'length == 0' and not ob[0].orelse
            and ast.unparse(ob[1]) == 'return await self._open_from(url, start, length=length)'):
        raise TieBroken('py-translator', 'AsyncFS.open_from: expected `if length == 0: ...` then `return await self._open_from(url, start, length=length)`')
    rets = [n for n in ast.walk(ob[0]) if isinstance(n, ast.Return)]
    if [ast.unparse(r) for r in rets] != ['return EmptyReadableStream()']:
        raise TieBroken('py-translator', 'AsyncFS.open_from: the length == 0 branch does not return exactly one EmptyReadableStream()')
    return f'Definition read_range_n (start stop : Z) (end_inclusive : bool) : Z := {e}.\n'


def _local(src):
    fn = find_function(src, 'TruncatedReadableBinaryIO.read')
    if [a.arg for a in fn.args.args] != ['self', 'n']:
        raise TieBroken('py-translator', 'TruncatedReadableBinaryIO.read: unexpected parameters')
    body = [s for s in fn.body if not (isinstance(s, ast.Expr) and isinstance(s.value, ast.Constant))]
    pre = []
    tr = _Tr(sorts={'offset': 'Z', 'limit': 'Z', 'n': 'Z'})
    ren = _Rename(self_attrs=('offset', 'limit'))
    while body and isinstance(body[0], ast.Assert):
        t = ren.visit(body.pop(0).test)
        pre.append(tr.truth(*tr.expr(t), t))
    if len(body) != 4 or not isinstance(body[0], ast.If):
        raise TieBroken('py-translator', 'TruncatedReadableBinaryIO.read: expected [if n == -1 ... else ...; b = self.bio.read(n); self.offset += len(b); return b]')
    if [ast.unparse(s) for s in body[1:]] != ['b = self.bio.read(n)', 'self.offset += len(b)', 'return b']:
        raise TieBroken('py-translator', f'TruncatedReadableBinaryIO.read: tail is {[ast.unparse(s) for s in body[1:]]}')
    code = tr.block([ren.visit(body[0])], 'n')
    init = ast.unparse(find_function(src, 'TruncatedReadableBinaryIO.__init__'))
    if 'self.offset = 0' not in init or 'self.limit = limit' not in init or 'self.bio = bio' not in init:
        raise TieBroken('py-translator', 'TruncatedReadableBinaryIO.__init__ shape')
    of = find_function(src, 'LocalAsyncFS._open_from')
    txt = [ast.unparse(s) for s in of.body]
    want = ["f = await blocking_to_async(self._thread_pool, open, self._get_path(url), 'rb')", 'f.seek(start, io.SEEK_SET)',
            'bio = cast(BinaryIO, f)',
            'if length is not None:\n    assert length >= 1\n    bio = TruncatedReadableBinaryIO(bio, length)',
            'return blocking_readable_stream_to_async(self._thread_pool, bio)']
    if txt != want:
        raise TieBroken('py-translator', f'LocalAsyncFS._open_from changed: {txt}')
    return (f'Definition trunc_request (offset limit n : Z) : Z :=\n{code}.\n'
            f'Definition trunc_invariant (offset limit : Z) : bool := {" && ".join(pre) if pre else "true"}.\n')


def generate(ctx):
    gcs = _range_str_def(ctx.read_repo(SRC_GCS), 'GoogleStorageAsyncFS._open_from', 'gcs', "headers={'Range': range_str}")
    s3 = _range_str_def(ctx.read_repo(SRC_S3), 'S3AsyncFS._open_from', 's3', 'Range=range_str')
    az = _azure_args(ctx.read_repo(SRC_AZ))
    fs = _fs_generic(ctx.read_repo(SRC_FS))
    loc = _local(ctx.read_repo(SRC_LOCAL))
    text = f'''(* GENERATED by harness/props/C23.py — do not edit *)
From Coq Require Import ZArith List Bool String.
From HailV Require Import RangedRead.Model.
Open Scope Z_scope.

(* {SRC_GCS} :: GoogleStorageAsyncFS._open_from *)
{gcs}
(* {SRC_S3} :: S3AsyncFS._open_from *)
{s3}
(* {SRC_AZ} :: AzureAsyncFS._open_from -> AzureReadableStream(fs, url, offset=..., length=...) *)
{az}
(* {SRC_FS} :: AsyncFS.read_range *)
{fs}
(* {SRC_LOCAL} :: TruncatedReadableBinaryIO.read — the number of bytes asked of the underlying file *)
{loc}'''
    ctx.write_generated('Gen.v', text)


# ------------------------------------------------------------------------------------------------ cases

BACKENDS = ['local', 'gcs', 's3', 'azure']
OPEN = {'gcs': 'gcs_open', 's3': 's3_open', 'azure': 'az_open', 'local': 'loc_open'}


def _content(size):
    return [(7 + 3 * i) % 251 for i in range(size)]


def _patterns(size, rng):
    return [[-1], [1, -1], [2, 2, 2, 2], [size + 3, 1], [0, 1, -1, 1], [1, 1, 1, 1, 1, 1, 1], [rng.randint(0, size + 2) for _ in range(3)] + [-1]]


def _cases(ctx, budget):
    rng = ctx.rng
    cases = []
    d = os.path.join(ctx.verif, 'corpus', ID)
    if os.path.isdir(d):
        for fn in sorted(os.listdir(d)):
            if fn.endswith('.json'):
                doc = json.load(open(os.path.join(d, fn)))
                cases.append({k: v for k, v in doc.items() if k != 'note'})
    max_size = ctx.scale(4, 6)
    for b in BACKENDS:
        for size in range(0, max_size + 1):
            pats = _patterns(size, rng)
            for start in range(0, size + 2):
                for length in [None] + list(range(0, size + 3)):
                    for k, reads in enumerate(pats):
                        if ctx.tier == 'quick' and (k + start + (length or 0) + size) % 2 and k >= 3:
                            continue          # quick tier: half of the longer patterns
                        cases.append({'backend': b, 'size': size, 'chunk': 1 + (start + k) % 4, 'op': 'open_read', 'start': start,
                                      'length': length, 'reads': reads})
                cases.append({'backend': b, 'size': size, 'chunk': 2, 'op': 'read_from', 'start': start})
                for stop in range(start - 1, size + 3):
                    for incl in (True, False):
                        if (stop - start) + (1 if incl else 0) >= 0:
                            cases.append({'backend': b, 'size': size, 'chunk': 1 + stop % 3, 'op': 'read_range', 'start': start, 'stop': stop,
                                          'incl': incl})
    for _ in range(ctx.scale(200, 4000) * budget):
        size = rng.choice([0, 1, 2, 7, 16, 33, 64, 100, 250])
        b = rng.choice(BACKENDS)
        start = rng.choice([0, max(0, size - 1), size, size + 1, rng.randint(0, size + 1)])
        op = rng.choice(['open_read', 'open_read', 'read_range', 'read_from'])
        c = {'backend': b, 'size': size, 'chunk': rng.choice([1, 3, 4, 16, 1000]), 'op': op, 'start': start}
        if op == 'open_read':
            c['length'] = rng.choice([None, 0, 1, max(1, size - start), size - start + 1, rng.randint(0, size + 2)])
            c['reads'] = [rng.choice([-1, 0, 1, 5, size, rng.randint(0, size + 1)]) for _ in range(rng.randint(1, 6))]
        elif op == 'read_range':
            n = rng.choice([0, 1, size - start, size - start + 1, rng.randint(0, size + 2)])
            n = max(n, 0)
            c['incl'] = rng.random() < 0.5
            c['stop'] = start + n - (1 if c['incl'] else 0)
        cases.append(c)
    return cases


# ------------------------------------------------------------------------------------------------ X

HEADER = ('From Coq Require Import ZArith List Bool String. Import ListNotations. From HailV Require Import RangedRead.Model RangedRead.Inst. '
          'From HailG Require C23.Gen. Open Scope Z_scope.')


def _zl(xs):
    return listlit([zlit(x) for x in xs])


def _model_expr(c):
    data = _zl(_content(c['size']))
    bo = f'({OPEN[c["backend"]]} {data})'
    if c['op'] == 'open_read':
        ln = 'None' if c['length'] is None else f'(Some {zlit(c["length"])})'
        if c['backend'] == 'local' and c['length'] != 0:
            # the read-by-read model of the real local classes (seek + TruncatedReadableBinaryIO)
            return f'@Ok (list (list Z)) (local_open_and_read {data} {zlit(c["start"])} {ln} {_zl(c["reads"])})'
        return f'open_and_read {bo} {zlit(c["start"])} {ln} {_zl(c["reads"])}'
    if c['op'] == 'read_from':
        return f'read_from {bo} {zlit(c["start"])}'
    return f'read_range {bo} {zlit(c["start"])} {zlit(c["stop"])} {blit(c["incl"])}'


def _canon_model(v, c):
    if v == 'EOFError':
        return {'err': 'eof' if c['op'] == 'read_range' else 'signal'}
    if v == 'RangeError':
        return {'err': 'signal'}
    assert isinstance(v, tuple) and v[0] == 'Ok', v
    return {'out': v[1]}


def _canon_impl(r, c):
    if r['err'] is None:
        return {'out': r['out']}
    if r['err'] in ('eof', 'range'):
        if c['op'] == 'read_range':
            return {'err': r['err'] if r['err'] == 'eof' else 'range'}
        return {'err': 'signal'}
    return {'err': r['err']}


def correspond(ctx):
    cases = _cases(ctx, 1)
    out = ctx.run_impl('c23_ranged.py', {'cases': cases}, timeout=600)
    impl = out['results']
    for n, b in out['content'].items():
        if b != _content(int(n)):
            raise TieBroken('content', 'harness and impl script disagree on the object content')
    model = coq_eval(ctx, HEADER, [_model_expr(c) for c in cases], label='rr')
    dis = []
    hist = {}
    distinct = set()
    for c, r, m in zip(cases, impl, model):
        cm, ci = _canon_model(m, c), _canon_impl(r, c)
        key = f'{c["backend"]}:{c["op"]}:{"err" if "err" in ci else "ok"}'
        hist[key] = hist.get(key, 0) + 1
        distinct.add(json.dumps(c, sort_keys=True))
        if cm != ci:
            dis.append(Disagreement(f'RangedRead~{c["backend"]}', c, cm, dict(ci, wire=r['wire'])))
    # the headers / SDK arguments actually sent, against the generated constructions
    wire_cases = [(c, r) for c, r in zip(cases, impl) if c['backend'] in ('gcs', 's3') and c['op'] == 'open_read' and c['length'] != 0 and r['wire']]
    wire_cases = wire_cases[:: max(1, len(wire_cases) // 300)]
    exprs = [f'C23.Gen.{c["backend"]}_range_str {zlit(c["start"])} ' + ('None' if c['length'] is None else f'(Some {zlit(c["length"])})')
             for c, _ in wire_cases]
    for (c, r), hdr in zip(wire_cases, coq_eval(ctx, HEADER, exprs, label='hdr')):
        if r['wire'][0] != hdr:
            dis.append(Disagreement(f'Gen.{c["backend"]}_range_str~Range header sent', c, hdr, r['wire']))
    nontrivial = sum(1 for c in cases if c['size'] >= 1)
    return Corr(evaluations=len(cases) + len(exprs), distinct_nontrivial=min(nontrivial, len(distinct)),
                rule='distinct (backend, object size >= 1, operation, offset, length / end, read pattern); real AsyncFS classes (local: real files; '
                     'gcs/s3/azure: over RFC 7233 / download_blob fakes) vs the Coq model with the generated pieces (vm_compute): every read result, '
                     'or the error class; plus the Range header actually sent vs the generated construction',
                samples=[{'case': c, 'impl': _canon_impl(r, c)} for c, r in list(zip(cases, impl))[-3:]],
                disagreements=dis, histograms={'backend_op_outcome': dict(sorted(hist.items()))}, exhaustive=False,
                names=['RangedRead~local', 'RangedRead~gcs', 'RangedRead~s3', 'RangedRead~azure', 'Gen.range_str~Range header sent'])


# ------------------------------------------------------------------------------------------------ oracle

def _judge(c, r):
    data = _content(c['size'])
    size = len(data)
    s = c['start']
    bad = []
    if r['err'] is not None and r['err'] not in ('eof', 'range'):
        return [('unexpected-error', f'{r["err"]}')]
    if c['op'] == 'open_read':
        ln = c['length']
        want = data[s:] if ln is None else data[s:s + ln]
        if r['err'] is not None:
            if s < size or ln == 0:
                bad.append(('signalled-inside-object', f'offset {s} < size {size} but {r["err"]} was raised'))
            return bad
        got = [x for b in r['out'] for x in b]
        if got != want[:len(got)]:
            bad.append(('wrong-bytes' if len(got) <= len(want) else 'beyond-range',
                        f'open_from(start={s}, length={ln}) on {size} bytes, reads {c["reads"]} returned {r["out"]}; the range is {want}'))
            return bad
        ended = False
        for n, b in zip(c['reads'], r['out']):
            if n >= 0 and len(b) > n:
                bad.append(('read-too-long', f'read({n}) returned {len(b)} bytes'))
            if n == -1 or len(b) < n:
                ended = True
        if ended and got != want:
            bad.append(('short', f'the reads {c["reads"]} reached the end of the stream with {got}; the range is {want}'))
    elif c['op'] == 'read_from':
        if r['err'] is not None:
            if s < size:
                bad.append(('signalled-inside-object', f'read_from({s}) on {size} bytes raised {r["err"]}'))
        elif r['out'] != data[s:]:
            bad.append(('wrong-bytes', f'read_from({s}) on {size} bytes returned {r["out"]}, expected {data[s:]}'))
    else:
        n = (c['stop'] - s) + (1 if c['incl'] else 0)
        what = f'read_range({s}, {c["stop"]}, end_inclusive={c["incl"]}) on {size} bytes'
        if n == 0:
            if r['err'] is not None or r['out'] != []:
                bad.append(('empty-range', f'{what}: expected b"", got {r["err"] or r["out"]}'))
        elif s + n <= size:
            if r['err'] is not None or r['out'] != data[s:s + n]:
                bad.append(('wrong-bytes', f'{what}: expected {data[s:s + n]}, got {r["err"] or r["out"]}'))
        else:
            if r['err'] != 'eof':
                bad.append(('no-eof-signal', f'{what}: the span does not exist, expected UnexpectedEOFError, got {r["err"] or r["out"]}'))
    return bad


def oracle(ctx, budget):
    cases = _cases(ctx, budget)
    out = ctx.run_impl('c23_ranged.py', {'cases': cases}, timeout=600)
    fails = []
    hist = {}
    for c, r in zip(cases, out['results']):
        for kind, detail in _judge(c, r):
            hist[kind] = hist.get(kind, 0) + 1
            sized = 'sized-reads' if c['op'] == 'open_read' and any(n >= 0 for n in c['reads']) else 'plain'
            fails.append(Failure(f'{c["backend"]}:{c["op"]}:{kind}:{sized}', f'{c["backend"]}: {detail}', c, expected=None,
                                 observed={'out': r['out'], 'err': r['err'], 'wire': r['wire']}))
    fails.sort(key=lambda f: (len(json.dumps(f.case)), f.key))
    return fails, {'evaluations': len(cases), 'distinct_nontrivial': len({json.dumps(c, sort_keys=True) for c in cases if c['size'] >= 1}),
                   'rule': 'oracle: bytes returned by the real classes vs Python slicing of the object content (prefix / exact / empty / '
                           'UnexpectedEOFError as the property states); no model',
                   'samples': [{'case': c, 'observed': {'out': r['out'], 'err': r['err']}} for c, r in list(zip(cases, out['results']))[-2:]],
                   'histograms': {'oracle_failures': hist}}


def replay(ctx, doc):
    case = doc.get('case') or doc
    if not (isinstance(case, dict) and 'backend' in case and 'op' in case):
        return {'note': 'no replayable input in this file (theorem/translator breakage); stored document follows', 'doc': doc}
    c = {k: v for k, v in case.items() if k != 'note'}
    c.setdefault('chunk', 4)
    r = ctx.run_impl('c23_ranged.py', {'cases': [c]})['results'][0]
    res = {'case': c, 'object': _content(c['size']), 'impl': r, 'property_violations': _judge(c, r)}
    try:
        res['model'] = _canon_model(coq_eval(ctx, HEADER, [_model_expr(c)], label='replay')[0], c)
    except Exception as e:  # noqa
        res['model'] = f'unavailable: {type(e).__name__}'
    return res
