"""C28 — usernames and credential secret names are validated exactly (auth/auth/auth_utils.py, used by auth/auth/auth.py).

Tie: T.  On every run
  * the pattern string of `validate_credentials_secret_name_input` is parsed by the implementation interpreter's own
    `re._parser` and mapped constructor-by-constructor to a `Regex.re` value, together with the entry point used
    (`match` / `fullmatch`);
  * `is_valid_username` is translated statement by statement (PyToCoq + str methods) into Gallina, with `str.isdigit` /
    `str.islower` as *section variables* (arbitrary Unicode tables) — the theorems assume only their ASCII restriction,
    which the harness checks exhaustively (128 code points) against the real `str` methods;
  * auth.py is checked structurally: both validators are called before the first DB statement of `insert_new_user`.
Lemmas.v proves, for ALL code-point lists, that the regenerated regex (under Python's match semantics incl. `$`/`\\Z`) and
the regenerated username function accept exactly the languages written down from the property text.
"""
import ast
import itertools

from harness.core import Corr, Disagreement, Failure, TieBroken, coq_eval, strlit_codepoints
from harness.translate.pyast import find_function, Unsupported
from harness.translate.regex_sre import StrPyToCoq, parsed_to_coq

ID = 'C28'
SRC = 'auth/auth/auth_utils.py'
SRC_AUTH = 'auth/auth/auth.py'
COQ_PROPS = 'theories/Validators/Props_C28.v'
READY = True
META = dict(
    design_ref='§5.B C28',
    technique='Coq proof over all code-point lists about (a) the regex regenerated from the source pattern by CPython\'s own '
              'regex parser, under a relational semantics of re.match/fullmatch with ^, $ and \\Z, and (b) the Gallina translation of '
              'is_valid_username; executable recogniser proved equivalent and run against the real functions',
    level_text='Machine-checked theorems (Coq 8.16, no axioms) that for EVERY string (list of arbitrary code points, any length) '
               'validate_credentials_secret_name_input accepts it iff it is a non-empty [a-z0-9] label followed by (dot-or-hyphen, '
               'label) pairs, and is_valid_username accepts it iff it is [a-z0-9] labels joined by single hyphens — for every possible '
               'Unicode table of str.isdigit/str.islower that agrees with ASCII below 128. Both models are regenerated from the source '
               'on every run. The theorems target the code with fixes/C28.diff applied (`$` -> `\\Z`); on the unfixed tree the regex '
               'theorem fails and the check reports the concrete input "a\\n".',
    level_note='Trusted: Coq kernel; the relational regex semantics Regex.M as a description of CPython re for the constructs used '
               '(sets, sequence, * + ?, groups, ^ $ \\Z; acceptance only); the op-tree -> constructor mapping (regex_sre.py) and pyast.py '
               'with the str-method extension; structural (AST) check that auth.py calls the validators before its INSERT.',
    partial=False,
)
TRUSTED = ['relational semantics HailV.Regex.Regex.M of CPython re (acceptance) for sets, sequence, * + ?, groups, ^, $, \\Z',
           'harness/translate/regex_sre.py (CPython re._parser op-tree -> Regex.re; str-method extension of pyast.py)',
           'harness/translate/pyast.py (Python-ast subset -> Gallina)',
           'AST check that check_valid_new_user / insert_new_user call the validators before any DB statement']
ASSUMPTIONS = ['str.isascii(c) <-> c < 128; str.isdigit/str.islower restricted to code points < 128 are [0-9] / [a-z] — swept exhaustively '
               'against the real str methods on every run (128 + 1,114,112 code points)',
               'a Python str is a finite sequence of code points (lone surrogates included); the model allows any N']


# ------------------------------------------------------------------------------------------------ T

def _strip_doc(body):
    return [s for s in body if not (isinstance(s, ast.Expr) and isinstance(s.value, ast.Constant) and isinstance(s.value.value, str))]


def _secret_pattern(src: str):
    """Structure of validate_credentials_secret_name_input: None passes; otherwise accepted iff regex.<mode>(arg) is truthy."""
    fn = find_function(src, 'validate_credentials_secret_name_input')
    if [a.arg for a in fn.args.args] != ['secret_name'] or fn.args.vararg or fn.args.kwarg or fn.args.kwonlyargs:
        raise TieBroken('py-translator', 'unexpected signature of validate_credentials_secret_name_input')
    body = _strip_doc(fn.body)
    if len(body) != 3:
        raise TieBroken('py-translator', f'validate_credentials_secret_name_input: expected 3 statements, found {len(body)}')
    s0, s1, s2 = body
    if not (isinstance(s0, ast.If) and ast.unparse(s0.test) == 'secret_name is None' and not s0.orelse and len(s0.body) == 1
            and isinstance(s0.body[0], ast.Return) and s0.body[0].value is None):
        raise TieBroken('py-translator', f'line {s0.lineno}: expected `if secret_name is None: return`')
    if not (isinstance(s1, ast.Assign) and len(s1.targets) == 1 and isinstance(s1.targets[0], ast.Name)
            and isinstance(s1.value, ast.Call) and ast.unparse(s1.value.func) == 're.compile' and len(s1.value.args) == 1
            and not s1.value.keywords and isinstance(s1.value.args[0], ast.Constant) and isinstance(s1.value.args[0].value, str)):
        raise TieBroken('py-translator', f'line {s1.lineno}: expected `<name> = re.compile(<str literal>)` without flags')
    var = s1.targets[0].id
    pattern = s1.value.args[0].value
    ok = (isinstance(s2, ast.If) and not s2.orelse and isinstance(s2.test, ast.UnaryOp) and isinstance(s2.test.op, ast.Not)
          and isinstance(s2.test.operand, ast.Call) and isinstance(s2.test.operand.func, ast.Attribute)
          and isinstance(s2.test.operand.func.value, ast.Name) and s2.test.operand.func.value.id == var
          and len(s2.test.operand.args) == 1 and not s2.test.operand.keywords
          and ast.unparse(s2.test.operand.args[0]) == 'secret_name'
          and len(s2.body) == 1 and isinstance(s2.body[0], ast.Raise))
    if not ok:
        raise TieBroken('py-translator', f'line {s2.lineno}: expected `if not {var}.match(secret_name): raise ...`')
    meth = s2.test.operand.func.attr
    if meth not in ('match', 'fullmatch'):
        raise TieBroken('py-translator', f'line {s2.lineno}: entry point .{meth}() is not modelled (match / fullmatch only)')
    tree = ast.parse(src)
    if not any(isinstance(n, ast.Import) and any(a.name == 're' and a.asname is None for a in n.names) for n in tree.body):
        raise TieBroken('py-translator', '`import re` not found at module level')
    return pattern, ('MatchPrefix' if meth == 'match' else 'FullMatch')


def _username_body(src: str) -> str:
    fn = find_function(src, 'is_valid_username')
    if [a.arg for a in fn.args.args] != ['username'] or fn.args.vararg or fn.args.kwarg or fn.args.kwonlyargs:
        raise TieBroken('py-translator', 'unexpected signature of is_valid_username')
    tr = StrPyToCoq(sorts={'username': 'str'})
    code = tr.function_body(fn)
    if getattr(tr, 'return_sort', None) != 'bool' or tr.preconditions:
        raise TieBroken('py-translator', 'is_valid_username must return a bool on every path and contain no assert')
    return code


def _first_index(stmts, pred):
    for i, s in enumerate(stmts):
        if any(pred(n) for n in ast.walk(s)):
            return i
    return None


def _check_call_sites(src_auth: str):
    """check_valid_new_user raises InvalidUsername on `not is_valid_username(username)` before touching the DB;
    insert_new_user validates the secret name before running the transaction; _insert calls check_valid_new_user first."""
    fn = find_function(src_auth, 'check_valid_new_user')
    body = _strip_doc(fn.body)
    is_await = lambda n: isinstance(n, (ast.Await, ast.AsyncFor, ast.AsyncWith))  # noqa: E731
    guard = None
    for i, s in enumerate(body):
        if (isinstance(s, ast.If) and ast.unparse(s.test) == 'not is_valid_username(username)' and not s.orelse
                and len(s.body) == 1 and isinstance(s.body[0], ast.Raise)):
            guard = i
            break
    first_await = _first_index(body, is_await)
    if guard is None or (first_await is not None and first_await < guard) or not all(isinstance(s, ast.If) for s in body[:guard]):
        raise TieBroken('call-sites', 'check_valid_new_user no longer rejects `not is_valid_username(username)` before its first DB statement')
    for s in body[:guard]:
        # earlier guards may only raise (type checks etc.), never return/accept
        if any(isinstance(n, ast.Return) for n in ast.walk(s)):
            raise TieBroken('call-sites', f'line {s.lineno}: check_valid_new_user can return before validating the username')
    fn2 = find_function(src_auth, 'insert_new_user')
    body2 = _strip_doc(fn2.body)
    call = _first_index(body2, lambda n: isinstance(n, ast.Call) and ast.unparse(n) == 'validate_credentials_secret_name_input(hail_credentials_secret_name)')
    tops = [i for i, s in enumerate(body2) if not isinstance(s, (ast.FunctionDef, ast.AsyncFunctionDef)) and any(is_await(n) for n in ast.walk(s))]
    if call is None or not isinstance(body2[call], ast.Expr) or (tops and tops[0] < call):
        raise TieBroken('call-sites', 'insert_new_user no longer validates hail_credentials_secret_name before running its transaction')
    inner = [s for s in body2 if isinstance(s, ast.AsyncFunctionDef) and s.name == '_insert']
    if len(inner) != 1:
        raise TieBroken('call-sites', 'insert_new_user._insert not found')
    ib = _strip_doc(inner[0].body)
    if not ib or 'check_valid_new_user(tx, username, login_id, is_developer, is_service_account)' not in ast.unparse(ib[0]):
        raise TieBroken('call-sites', 'insert_new_user._insert does not start with check_valid_new_user(...)')
    ins = _first_index(ib, lambda n: isinstance(n, ast.Attribute) and n.attr.startswith('execute_insert'))
    if ins is None or ins == 0:
        raise TieBroken('call-sites', 'insert_new_user._insert: INSERT not found after the check')


def generate(ctx):
    src = ctx.read_repo(SRC)
    pattern, mode = _secret_pattern(src)
    parsed = ctx.run_impl('regex_parse.py', {'patterns': [pattern]}, timeout=60)['parsed'][0]
    regex = parsed_to_coq(parsed)
    user = _username_body(src)
    _check_call_sites(ctx.read_repo(SRC_AUTH))
    pat_comment = pattern.replace('(*', '( *').replace('*)', '* )')
    text = f'''(* GENERATED by harness/props/C28.py from {SRC} — do not edit *)
From HailV Require Import Common.Prelude Regex.Regex.
Open Scope N_scope.

(* validate_credentials_secret_name_input: pattern  {pat_comment}  *)
Definition secret_regex : re :=
  {regex}.
Definition secret_mode : mode := {mode}.

Section Username.
  (* str.isdigit / str.islower on one-character strings: arbitrary Unicode tables *)
  Variables py_isdigit py_islower : N -> bool.

  Definition is_valid_username (username : list N) : bool :=
{user}.
End Username.
'''
    ctx.write_generated('Gen.v', text)
    ctx.pattern = pattern
    ctx.mode = mode


# ------------------------------------------------------------------------------------------------ cases

# a-z 0-9 separators, the characters the property names (newline, control), look-alikes from outside ASCII for which
# str.isdigit / str.islower are True, upper case, and code points at the edges of the ranges
ALPHABET = [ord(c) for c in 'az09-.'] + [10, 13, 0, 0x1f, 0x7f, ord('A'), ord('_'), ord(' '), ord('`'), ord('{'), ord('/'), ord(':'),
                                           0xdf, 0xe9, 0x663, 0xb2, 0x2028, 0x85, 0xff0d, 0xd800, 0x10ffff]
SMALL = [ord(c) for c in 'a0-.'] + [10, ord('A'), 0xe9]


def _load_corpus(ctx):
    import glob
    import json
    import os
    out = []
    for f in sorted(glob.glob(os.path.join(ctx.verif, 'corpus', ID, '*.json'))):
        doc = json.load(open(f))
        for c in doc.get('cases', []):
            out.append(list(c['s']))
    return out


def _cases(ctx, n_random, max_len):
    out = _load_corpus(ctx)
    out.append([])
    for k in range(1, max_len + 1):                       # exhaustive small scope
        for t in itertools.product(SMALL, repeat=k):
            out.append(list(t))
    for c in ALPHABET:                                    # every special character in every position of short valid names
        for base in ([97], [97, 98], [97, 45, 98], [97, 46, 98, 45, 99]):
            for i in range(len(base) + 1):
                out.append(base[:i] + [c] + base[i:])
            for i in range(len(base)):
                out.append(base[:i] + [c] + base[i + 1:])
    rng = ctx.rng
    for _ in range(n_random):
        k = rng.choice([1, 2, 3, 5, 8, 13, 30, 70])
        mode = rng.random()
        if mode < 0.5:     # mostly valid material, a few perturbations
            s = [rng.choice([97, 122, 48, 57, 98, 45, 46, 45]) for _ in range(k)]
            for _ in range(rng.randint(0, 2)):
                s.insert(rng.randint(0, len(s)), rng.choice(ALPHABET))
        elif mode < 0.8:
            s = [rng.choice(ALPHABET) for _ in range(k)]
        else:
            s = [rng.choice([rng.randint(0, 0x7f), rng.randint(0, 0x10ffff), rng.choice(ALPHABET)]) for _ in range(k)]
        out.append(s)
    seen = set()
    uniq = []
    for s in out:
        t = tuple(s)
        if t not in seen:
            seen.add(t)
            uniq.append(s)
    return uniq


# The property's two languages, written from its text (split on the separators; every label non-empty and in [a-z0-9]).
def _alnum(c):
    return 97 <= c <= 122 or 48 <= c <= 57


def _in_joined(cps, seps):
    labels, cur = [], []
    for c in cps:
        if c in seps:
            labels.append(cur)
            cur = []
        else:
            cur.append(c)
    labels.append(cur)
    return all(len(lab) > 0 and all(_alnum(c) for c in lab) for lab in labels)


def ref_user(cps):
    return _in_joined(cps, (45,))


def ref_secret(cps):
    return _in_joined(cps, (45, 46))


def _cls(c):
    if 97 <= c <= 122 or 48 <= c <= 57:
        return 'w'
    if c == 45:
        return '-'
    if c == 46:
        return '.'
    if c == 10:
        return 'N'
    if c < 32 or c == 127:
        return 'C'
    if 65 <= c <= 90:
        return 'U'
    if c < 128:
        return 'P'
    return 'u'


def _sig(cps):
    return ''.join(_cls(c) for c in cps)[:24]


def _key(fn, observed, cps):
    return f'{fn}-{"accepts" if observed is True else "rejects" if observed is False else "raises"}:{_sig(cps)}'


def _eval_impl(ctx, strings):
    return ctx.run_impl('c28_auth.py', {'op': 'eval', 'strings': strings}, timeout=300)


# ------------------------------------------------------------------------------------------------ X (smoke test of T)

def correspond(ctx):
    strings = _cases(ctx, ctx.scale(1500, 20000), ctx.scale(4, 5))
    impl = _eval_impl(ctx, strings)
    pts = sorted({c for s in strings for c in s if c >= 128})
    tables = ctx.run_impl('c28_auth.py', {'op': 'tables', 'points': pts}, timeout=120)
    dis = []
    # hypotheses of C28_username_iff, swept completely on the real str methods
    if tables['ascii_digit'] != list(range(48, 58)) or tables['ascii_lower'] != list(range(97, 123)) or tables['isascii_mismatch']:
        dis.append(Disagreement('ascii-tables~str.isdigit/islower/isascii', 'all code points',
                                {'digit': list(range(48, 58)), 'lower': list(range(97, 123))},
                                {k: tables[k] for k in ('ascii_digit', 'ascii_lower', 'isascii_mismatch')}))
    digs = [c for c in pts if tables['points'][str(c)][0]]
    lows = [c for c in pts if tables['points'][str(c)][1]]
    dfun = 'fun c => ascii_isdigit c' + ''.join(f' || (c =? {c})' for c in digs)
    lfun = 'fun c => ascii_islower c' + ''.join(f' || (c =? {c})' for c in lows)
    header = ('From HailV Require Import Common.Prelude Regex.Regex Validators.Model. From HailG Require Import C28.Gen.\n'
              'Open Scope N_scope.\n'
              f'Definition dtab : N -> bool := {dfun}.\nDefinition ltab : N -> bool := {lfun}.')
    B = 250
    exprs = []
    for i in range(0, len(strings), B):
        lst = '[' + '; '.join(strlit_codepoints(''.join(map(chr, s))) if False else '[' + '; '.join(str(c) for c in s) + ']' for s in strings[i:i + B]) + ']'
        exprs.append(f'map (fun s : list N => (is_valid_username dtab ltab s, recog_user s, recog_rfc1123 s)) {lst}')
    model = [t for batch in coq_eval(ctx, header, exprs, shard=4) for t in batch]
    n_acc = {'user': 0, 'secret': 0}
    for s, (gen_u, rec_u, rec_s), iu, isec in zip(strings, model, impl['user'], impl['secret']):
        n_acc['user'] += iu is True
        n_acc['secret'] += isec is True
        if gen_u != iu:
            dis.append(Disagreement('Gen.is_valid_username~auth_utils.is_valid_username', {'fn': 'user', 's': s}, gen_u, iu))
        if rec_u != iu:
            dis.append(Disagreement('recog_user~auth_utils.is_valid_username', {'fn': 'user', 's': s}, rec_u, iu))
        if rec_s != isec:
            dis.append(Disagreement('recog_rfc1123~auth_utils.validate_credentials_secret_name_input', {'fn': 'secret', 's': s}, rec_s, isec))
    nontrivial = sum(1 for s in strings if len(s) >= 2)
    return Corr(evaluations=2 * len(strings) + 128 + 0x110000, distinct_nontrivial=nontrivial,
                rule='distinct code-point strings: corpus + ALL strings of length <= %d over {a,0,-,.,\\n,A,e-acute} + every special character '
                     '(controls, newline, non-ASCII digits/lower-case, range edges, surrogate) inserted/substituted at every position of 4 valid '
                     'names + seeded random (valid-biased / alphabet / arbitrary code points); non-trivial = length >= 2; real functions vs '
                     'generated is_valid_username (with the real isdigit/islower values of the non-ASCII points) and the proved recognisers, '
                     'evaluated by vm_compute; str.isdigit/islower/isascii swept on all 1,114,112 code points for the theorem hypotheses'
                     % ctx.scale(4, 5),
                samples=[{'s': s, 'user': iu, 'secret': isec} for s, iu, isec in list(zip(strings, impl['user'], impl['secret']))[-3:]],
                disagreements=dis, histograms={'accepted': n_acc, 'length': _len_hist(strings)},
                names=['Gen.is_valid_username~auth_utils.is_valid_username', 'recog_user~auth_utils.is_valid_username',
                       'recog_rfc1123~auth_utils.validate_credentials_secret_name_input', 'ascii-tables~str.isdigit/islower/isascii'])


def _len_hist(strings):
    h = {}
    for s in strings:
        k = str(len(s)) if len(s) < 6 else '6+'
        h[k] = h.get(k, 0) + 1
    return dict(sorted(h.items()))


# ------------------------------------------------------------------------------------------------ oracle

def oracle(ctx, budget):
    """The statement itself on the implementation: accepted <=> in the language, for both validators and for insert_new_user."""
    strings = _cases(ctx, ctx.scale(3000, 40000) * budget, ctx.scale(4, 5) + (1 if budget > 1 and ctx.thorough else 0))
    impl = _eval_impl(ctx, strings)
    bad = {}   # key -> (len, Failure)

    def note(fn, cps, expected, observed):
        k = _key(fn, observed, cps)
        if k not in bad or (len(cps), cps) < (len(bad[k].case['s']), bad[k].case['s']):
            what = (f'{"validate_credentials_secret_name_input" if fn == "secret" else "is_valid_username" if fn == "user" else fn} '
                    f'{"accepts" if observed is True else "rejects" if observed is False else "raises " + str(observed) + " on"} '
                    f'{"".join(map(chr, cps))!r}, which is {"in" if expected else "not in"} the language')
            bad[k] = Failure(k, what, {'fn': fn, 's': cps}, expected, observed)
    for s, iu, isec in zip(strings, impl['user'], impl['secret']):
        if iu != ref_user(s):
            note('user', s, ref_user(s), iu)
        if isec != ref_secret(s):
            note('secret', s, ref_secret(s), isec)
    # every code point, in four positions
    templates = [[[], []], [[97], []], [[97], [97]]] + ([[[], [97]], [[97, 45], [97]], [[97], [45, 97]]] if ctx.thorough or budget > 1 else [])
    sw = ctx.run_impl('c28_auth.py', {'op': 'sweep', 'templates': templates}, timeout=600)
    import json
    n_sweep = 0
    for pre, suf in templates:
        got = sw['templates'][json.dumps([pre, suf])]
        n_sweep += 2 * sw['points']
        for fn, ref in (('user', ref_user), ('secret', ref_secret)):
            acc = set(got[fn])
            # expected accepted set: only code points < 128 can possibly be in the language
            exp = {c for c in range(128) if ref(pre + [c] + suf)}
            for c in sorted(acc ^ exp)[:50]:
                note(fn, pre + [c] + suf, c in exp, c in acc)
        for c, fn, exc in got['odd']:
            note(fn, pre + [c] + suf, None, exc)
    # the service entry point: an INSERT happens iff both inputs are in their languages
    pairs = []
    short = [s for s in strings if len(s) <= 6][:ctx.scale(400, 3000)]
    rng = ctx.rng
    for s in short:
        pairs.append([s, None])
        pairs.append([[97, 98], s])
    for _ in range(ctx.scale(200, 2000)):
        pairs.append([rng.choice(short), rng.choice(short)])
    res = ctx.run_impl('c28_auth.py', {'op': 'service', 'pairs': pairs}, timeout=600)['results']
    verdict = {tuple(s): (iu, isec) for s, iu, isec in zip(strings, impl['user'], impl['secret'])}
    verdict.setdefault((97, 98), (True, True))
    for (u, sec), r in zip(pairs, res):
        ok = ref_user(u) and (sec is None or ref_secret(sec))
        # a wrong verdict of a validator is reported above under its own key; here: the service disagrees with its validators
        by_validators = verdict[tuple(u)][0] is True and (sec is None or verdict[tuple(sec)][1] is True)
        if ((r == 'inserted') != by_validators and (r == 'inserted') != ok) or (r != 'inserted' and 'inserted' in r):
            k = f'service-{"inserts" if "inserted" in r else "refuses"}:{_sig(u)}|{"None" if sec is None else _sig(sec)}'
            if k not in bad:
                bad[k] = Failure(k, f'insert_new_user(username={"".join(map(chr, u))!r}, hail_credentials_secret_name='
                                    f'{None if sec is None else "".join(map(chr, sec))!r}) -> {r}; expected {"an INSERT" if ok else "a rejection before the INSERT"}',
                                 {'fn': 'service', 's': u, 'secret': sec}, 'inserted' if ok else 'rejected', r)
    fails = _shrink(ctx, list(bad.values()))
    return fails, {'evaluations': 2 * len(strings) + n_sweep + len(pairs),
                   'distinct_nontrivial': sum(1 for s in strings if len(s) >= 2) + len(pairs),
                   'rule': 'accepted <=> in language (languages recomputed by splitting on separators, no regex) on: the correspondence '
                           'cases with a larger random part; ALL 1,114,112 code points in %d templates (alone, after "a", between "a"s, ...); '
                           'insert_new_user with a recording fake DB on (username, secret) pairs' % len(templates),
                   'samples': [{'pair': p, 'result': r} for p, r in list(zip(pairs, res))[:2]],
                   'histograms': {'service_results': _count(res)}}


def _shrink(ctx, fails):
    """Greedy one-character deletion (batched against the implementation) so that the finding key names the minimal failing shape."""
    cur = {}
    for f in sorted(fails, key=lambda f: (len(f.case['s']) + len(f.case.get('secret') or []), f.key))[:60]:
        cur[f.key] = f
    todo = [f for f in cur.values() if f.case['fn'] in ('user', 'secret')]
    done = [f for f in cur.values() if f.case['fn'] == 'service']
    for _ in range(80):
        if not todo:
            break
        cands = []
        for i, f in enumerate(todo):
            s = f.case['s']
            for j in range(len(s)):
                cands.append((i, s[:j] + s[j + 1:]))
        if not cands:
            break
        r = _eval_impl(ctx, [c for _, c in cands])
        nxt, progressed = [], set()
        for (i, c), iu, isec in zip(cands, r['user'], r['secret']):
            f = todo[i]
            if i in progressed:
                continue
            fn = f.case['fn']
            obs = iu if fn == 'user' else isec
            exp = ref_user(c) if fn == 'user' else ref_secret(c)
            if obs != exp and obs == f.observed:
                progressed.add(i)
                nxt.append(Failure(_key(fn, obs, c), f.what.split(' on ')[0] if False else
                                   f'{"validate_credentials_secret_name_input" if fn == "secret" else "is_valid_username"} '
                                   f'{"accepts" if obs is True else "rejects" if obs is False else "raises " + str(obs) + " on"} '
                                   f'{"".join(map(chr, c))!r}, which is {"in" if exp else "not in"} the language',
                                   {'fn': fn, 's': c}, exp, obs))
        for i, f in enumerate(todo):
            if i not in progressed:
                done.append(f)
        todo = nxt
    done += todo
    uniq = {}
    for f in done:
        uniq.setdefault(f.key, f)
    return sorted(uniq.values(), key=lambda f: (len(f.case['s']) + len(f.case.get('secret') or []), f.key))


def _count(xs):
    h = {}
    for x in xs:
        h[x] = h.get(x, 0) + 1
    return dict(sorted(h.items()))


def replay(ctx, doc):
    case = doc.get('case') or doc
    s = case['s']
    out = {'case': case, 'string': ''.join(map(chr, s)).encode('unicode_escape').decode()}
    if case.get('fn') == 'service':
        out['impl'] = ctx.run_impl('c28_auth.py', {'op': 'service', 'pairs': [[s, case.get('secret')]]})['results'][0]
        out['expected'] = 'inserted' if ref_user(s) and (case.get('secret') is None or ref_secret(case['secret'])) else 'rejected'
    else:
        r = _eval_impl(ctx, [s])
        out['impl'] = {'is_valid_username': r['user'][0], 'validate_credentials_secret_name_input accepts': r['secret'][0]}
        out['expected'] = {'in L_user': ref_user(s), 'in L_rfc1123': ref_secret(s)}
    return out
