"""C20 — bounded gather helpers respect their bound and their error contract
(hail/python/hailtop/utils/utils.py: bounded_gather, bounded_gather2, bounded_gather2_raise_exceptions,
bounded_gather2_return_exceptions, WithoutSemaphore).

Tie: X (schedules).  coq/theories/Gather/Model.v is a hand-written step model of the helpers AFTER fixes/C20.diff (one constructor per
harness action: body i returns / body i raises / the caller is cancelled); Lemmas.v proves the property for ALL numbers of permits, all
numbers of partial functions and ALL action lists by invariant induction.  coq/theories/Gather/OnlineModel.v is a FAITHFUL model of
OnlineBoundedGather2 as it is (n tasks submitted, then the with-body ends or raises; actions: body returns / raises, a task is cancelled,
the caller is cancelled): bound and error contract are proved, "the exit waits for all tasks" is proved partially and refuted for the
two remaining cases (open findings).  The correspondence runs the REAL functions on the deterministic
asyncio loop (harness/aio/detloop.py) and the model (vm_compute) on the same schedules - an exhaustive small scope plus seeded random
schedules - and compares after every action: the state of every body, the number of unfinished tasks, the semaphore value and its
waiters, the caller's result/exception, and the number of bodies running at the instant the helper returned.

The code in /repo before the fix (fixes/C20.diff, committed to /repo as 93fbe4943) violates the property (see findings/C20.json): the
oracle finds the failing schedules there.
"""
import glob
import json
import os

from harness.core import Corr, Disagreement, Failure, coq_eval, listlit, zlit

ID = 'C20'
SRC = 'hail/python/hailtop/utils/utils.py'
COQ_PROPS = 'theories/Gather/Props_C20.v'
READY = True
ERRN = ['ErrA', 'ErrB', 'ErrC']      # ErrC derives from BaseException only
MODES = {'ret': 'MRet', 'raise': 'MRaise', 'cancel': 'MCancel'}

META = dict(
    design_ref='§5.C C20, §6',
    technique='Coq proof (invariant induction over all schedules, all numbers of permits and of partial functions) about two hand-written step '
              'models (gather helpers after the fix; OnlineBoundedGather2 as it is); models tied to the real code by a differential run on a '
              'deterministic asyncio loop (exhaustive small scope + seeded random schedules)',
    level_text='Machine-checked theorems (Coq 8.16, closed under the global context), for every number of permits >= 1, every number of partial '
               'functions and EVERY list of harness actions. (A) bounded_gather / bounded_gather2 / bounded_gather2_raise_exceptions / '
               'bounded_gather2_return_exceptions / WithoutSemaphore AFTER fixes/C20.diff (actions: body i returns v / raises e / the caller is '
               'cancelled): free permits + running bodies = permits at all times (never more than the bound run; at most bound-1 at the instant of '
               'return, when the caller holds its own permit again), no permit idles while a task waits; a returned list holds every task\'s '
               'scripted result in submission order (exceptions in place with return_exceptions); in the raising modes the exception raised is that '
               'of the first body that raised and a list is returned only if none raised; CancelledError only if the caller was cancelled; with '
               'cancel_on_error or return_exceptions (and whenever no body raised) no task is running or waiting at the instant of return or later; '
               'default mode never cancels siblings (as documented); the outcome never changes after return. (B) OnlineBoundedGather2 AS IT IS '
               '(actions additionally: task i is cancelled; the with-body may raise): the same bound; a failing task cancels everything and shuts '
               'the pool; the exit raises the first exception (with-body first), returns normally only if there was none and then every task has '
               'finished; "the exit waits for all background tasks" is proved for normal exit and exit after a task failure and REFUTED (witness '
               'schedules, replayed on the real class) when the with-body raises and when the caller is cancelled during the exit.',
    level_note='PARTIAL. (1) The gather-helper theorems are about the code after fixes/C20.diff; the code in /repo before the fix violates bound, '
               'cancels-rest and none-left-running (oracle replays). (2) OnlineBoundedGather2: exit-waits holds only partially (two open findings); '
               'only the usage "submit n tasks, leave the with-block" is modelled (no pool.wait(), no submission after a wait). (3) Modelled, not '
               'verified: granularity "one harness action, then the loop runs until idle" plus one snapshot at the instant of return; partial functions '
               'that end as soon as they are cancelled; only the helper\'s own tasks use the semaphore; CPython asyncio.Semaphore FIFO / gather / '
               'shield / Task.cancel semantics as encoded in the step functions. The tie between models and code is a differential test, not a proof. '
               'Trusted: DetLoop (private CPython 3.12 loop attributes).',
    partial=True,
)
TRUSTED = ['harness/aio/detloop.py (deterministic stepping of a real asyncio loop)',
           'CPython 3.12 asyncio (Semaphore FIFO wake-up, gather, shield, Task.cancel, wait) as the semantics of the implementation',
           'harness/impl/c20_gather.py instrumentation of the partial functions (entered/exited flags, snapshot at the instant of return)']
ASSUMPTIONS = ['a step is one harness action followed by running the event loop until no callback is ready; one extra observation is taken by the '
               'caller at the instant the helper returns or raises',
               'protocol of bounded_gather2 / OnlineBoundedGather2: the caller holds one permit of the semaphore (the helper lends it out); '
               'bounded_gather creates the semaphore itself',
               'partial functions finish only when the schedule says so and end immediately when cancelled; nobody else uses the semaphore',
               'OnlineBoundedGather2: all tasks are submitted before the with-block ends; pool.wait() and later submissions are not exercised']


# ------------------------------------------------------------------------------------------------ schedules

def _enumerate(n, maxlen):
    """Action lists: every body finishes at most once (ok or error), the caller is cancelled at most once."""
    out = []

    def rec(prefix, finished, cancelled):
        out.append(list(prefix))
        if len(prefix) == maxlen:
            return
        for i in range(n):
            if i not in finished:
                rec(prefix + [['K', i]], finished | {i}, cancelled)
                rec(prefix + [['E', i, i % 2]], finished | {i}, cancelled)
        if not cancelled:
            rec(prefix + [['X']], finished, True)

    rec([], frozenset(), False)
    return out


def _random_case(rng):
    n = rng.randint(0, 8)
    N = rng.randint(1, 4)
    acts = []
    for _ in range(rng.randint(0, 14)):
        r = rng.random()
        if r < 0.55 and n:
            acts.append(['K', rng.randrange(n)])
        elif r < 0.9 and n:
            acts.append(['E', rng.randrange(n), rng.choice([0, 1, 0, 1, 2])])
        else:
            acts.append(['X'])
    return {'entry': rng.choice(['gather2', 'gather2', 'gather']), 'mode': rng.choice(list(MODES)), 'N': N, 'n': n, 'acts': acts}


def _corpus_cases():
    out = []
    for p in sorted(glob.glob(os.path.join(os.path.dirname(__file__), '..', '..', 'corpus', ID, '*.json'))):
        doc = json.load(open(p))
        c = doc['case'] if 'case' in doc else doc
        if c.get('entry') in ('gather', 'gather2', 'online'):
            out.append(c)
    return out


def _cases(ctx, budget=1):
    cases = _corpus_cases()
    n_corpus = len(cases)
    for mode in MODES:
        for N in (1, 2, 3):
            for n in range(0, ctx.scale(4, 5)):
                for acts in _enumerate(n, ctx.scale(3, 5)):
                    cases.append({'entry': 'gather2', 'mode': mode, 'N': N, 'n': n, 'acts': acts})
        for N in (1, 2):
            for n in (2, 3):
                for acts in _enumerate(n, 3):
                    cases.append({'entry': 'gather', 'mode': mode, 'N': N, 'n': n, 'acts': acts})
    exh_online, rnd_online = _online_cases(ctx, budget)
    cases += exh_online
    n_exh = len(cases) - n_corpus
    for _ in range(ctx.scale(400, 8000) * budget):
        cases.append(_random_case(ctx.rng))
    cases += rnd_online
    return cases, n_corpus, n_exh


# ------------------------------------------------------------------------------------------------ model side

HEADER = 'From HailV Require Import Common.Prelude Gather.Model Gather.OnlineModel.\nOpen Scope Z_scope.\n'


def _act_lit(a):
    if a[0] == 'K':
        return f'Ok {a[1]}%nat {zlit(100 + a[1])}'
    if a[0] == 'E':
        return f'Err {a[1]}%nat {zlit(a[2])}'
    if a[0] == 'X':
        return 'CancelCaller'
    raise ValueError(a)


def _oact_lit(a):
    if a[0] == 'K':
        return f'OOk {a[1]}%nat {zlit(100 + a[1])}'
    if a[0] == 'E':
        return f'OErr_ {a[1]}%nat {zlit(a[2])}'
    if a[0] == 'T':
        return f'OCancelTask {a[1]}%nat'
    if a[0] == 'X':
        return 'OCancelCaller'
    raise ValueError(a)


def _model_expr(case):
    if case['entry'] == 'online':
        cf = f'{{| opermits := {zlit(case["N"])}; body_raises := {"true" if case.get("body") == "raise" else "false"} |}}'
        return f'oobserve {cf} (oinit {cf} {case["n"]}%nat) {listlit([_oact_lit(a) for a in case["acts"]])}'
    cf = f'{{| permits := {zlit(case["N"])}; md := {MODES[case["mode"]]} |}}'
    return f'observe {cf} (init {cf} {case["n"]}%nat) {listlit([_act_lit(a) for a in case["acts"]])}'


PF = {'TW': 'W', 'TCw': 'W', 'TR': 'R', 'TCr': 'cancelled'}


def _tag(x):
    return x[0] if isinstance(x, tuple) else x


def _res(r):
    t = _tag(r)
    if t == 'RV':
        return r[1]
    if t == 'RE':
        return ['E', ERRN[r[1]]]
    return ['E', 'CancelledError']


def _fold_ostate(case, st):
    pf = []
    for t in st['ots']:
        tag = _tag(t)
        pf.append('ok' if tag == 'TOk' else 'err' if tag == 'TErr' else PF[tag])
    c = st['ocaller']
    ctag = _tag(c)
    at_return = None
    waiters = sum(1 for t in st['ots'] if _tag(t) == 'TW')
    live = sum(1 for t in st['ots'] if _tag(t) in ('TW', 'TR'))
    if ctag == 'KWait':
        caller = 'P'
    elif ctag == 'KReacq':
        caller = 'P'
        waiters += 1
    else:
        o, nrun, nalive = c[1], c[2], c[3]
        at_return = [nrun, nalive]
        otag = _tag(o)
        if otag == 'OVals':
            rs = o[1] if isinstance(o, tuple) else []
            caller = ['V', [r[1] if _tag(r) == 'RV' else None for r in rs]]
        elif otag == 'OErr':
            caller = ['E', ERRN[o[1]]]
        else:
            caller = 'X'
    return {'pf': pf, 'alive': live, 'value': st['ovalue'], 'waiters': waiters, 'caller': caller, 'at_return': at_return}


def _fold_state(case, st):
    if case['entry'] == 'online':
        return _fold_ostate(case, st)
    pf = []
    for t in st['ts']:
        tag = _tag(t)
        pf.append('ok' if tag == 'TOk' else 'err' if tag == 'TErr' else PF[tag])
    live = sum(1 for t in st['ts'] if _tag(t) in ('TW', 'TR'))
    c = st['caller']
    ctag = _tag(c)
    at_return = None
    if ctag == 'CIn':
        caller = 'P'
        waiters = 0
    elif ctag == 'CReacq':
        caller = 'P'
        waiters = 1
    else:
        o, nrun = c[1], c[2]
        otag = _tag(o)
        at_return = nrun
        waiters = 0
        if otag == 'OVals':
            rs = o[1] if isinstance(o, tuple) else []
            if case['mode'] == 'ret':
                caller = ['V', [(['V', r[1]] if _tag(r) == 'RV' else _res(r)) for r in rs]]
            else:
                caller = ['V', [_res(r) for r in rs]]
        elif otag == 'OErr':
            caller = ['E', ERRN[o[1]]]
        else:
            caller = 'X'
    waiters += sum(1 for t in st['ts'] if _tag(t) == 'TW')
    return {'pf': pf, 'alive': live, 'value': st['value'], 'waiters': waiters, 'caller': caller, 'at_return': at_return}


def _run_model(ctx, cases, label='model'):
    vals = coq_eval(ctx, HEADER, [_model_expr(c) for c in cases], shard=max(150, -(-len(cases) // 8)), label=label)
    return [[_fold_state(c, st) for st in v] for c, v in zip(cases, vals)]


def _run_impl(ctx, cases):
    res = ctx.run_impl('c20_gather.py', {'cases': cases}, timeout=900)['results']
    for r in res:
        if isinstance(r, dict) and 'harness_error' in r:
            raise RuntimeError('c20_gather.py harness error: ' + r['harness_error'])
    return res


def _impl_view(case, o):
    v = {'pf': o['pf'], 'alive': o['alive'], 'caller': o['caller'],
         'at_return': None if o['at_return'] is None else len(o['at_return']['running'])}
    if case['entry'] == 'online' and o['at_return'] is not None:
        v['at_return'] = [len(o['at_return']['running']), o['at_return']['alive']]
    if case['entry'] in ('gather2', 'online'):
        v['value'] = o['value']
        v['waiters'] = o['waiters']
    return v


def _first_diff(case, model, impl):
    for i, (m, o) in enumerate(zip(model, impl)):
        ov = _impl_view(case, o)
        for f, x in ov.items():
            if m[f] != x:
                return i, f, m[f], x
    if len(model) != len(impl):
        return min(len(model), len(impl)), 'length', len(model), len(impl)
    return None


def correspond(ctx):
    cases, n_corpus, n_exh = _cases(ctx)
    impl = _run_impl(ctx, cases)
    model = _run_model(ctx, cases)
    dis = []
    hist = {}
    distinct = set()
    nontrivial = 0
    for c, m, o in zip(cases, model, impl):
        key = json.dumps(c, sort_keys=True)
        hist[c['mode'] + '/' + c['entry']] = hist.get(c['mode'] + '/' + c['entry'], 0) + 1
        if key not in distinct:
            distinct.add(key)
            if c['n'] > c['N'] and any(a[0] in ('E', 'X') for a in c['acts']):
                nontrivial += 1
        d = _first_diff(c, m, o)
        if d is not None:
            i, f, mv, ov = d
            name = 'Gather.OnlineModel.ostep~OnlineBoundedGather2' if c['entry'] == 'online' else 'Gather.Model.step~bounded_gather2'
            dis.append(Disagreement(name, {'case': c, 'observation_index': i, 'field': f}, mv, ov))
    dis.sort(key=lambda d: (len(d.case['case']['acts']), d.case['case']['n']))
    return Corr(evaluations=len(cases), distinct_nontrivial=nontrivial,
                rule='schedule = (entry point, mode, permits N, number of partial functions n, action list); corpus, then every schedule of the small scope '
                     f'(3 modes x N<=3 x n<{ctx.scale(4, 5)} x every action list up to length {ctx.scale(3, 5)} in which a body finishes at most once and the caller is '
                     'cancelled at most once; OnlineBoundedGather2: N<=2, n<=3, with-body normal/raising, action lists incl. task cancellation up to length '
                     f'{ctx.scale(3, 4)}), then seeded random schedules (n<=8, N<=4, up to 14 actions); non-trivial = more partial functions than permits '
                     'and at least one failure or caller cancellation; after the call and after EVERY action the body states, unfinished tasks, semaphore '
                     'value/waiters, caller outcome and the number of bodies running at the instant of return are compared',
                samples=[{'case': c, 'final': o[-1]} for c, o in list(zip(cases, impl))[-3:]],
                disagreements=dis, histograms={'mode/entry': hist, 'corpus': n_corpus, 'exhaustive_small_scope': n_exh,
                                               'random': len(cases) - n_corpus - n_exh},
                exhaustive=False, names=['Gather.Model.step~bounded_gather2', 'Gather.OnlineModel.ostep~OnlineBoundedGather2'])


# ------------------------------------------------------------------------------------------------ oracle (implementation only)

def _enumerate_online(n, maxlen):
    out = []

    def rec(prefix, finished, cancelled):
        out.append(list(prefix))
        if len(prefix) == maxlen:
            return
        for i in range(n):
            if i not in finished:
                rec(prefix + [['K', i]], finished | {i}, cancelled)
                rec(prefix + [['E', i, i % 2]], finished | {i}, cancelled)
                rec(prefix + [['T', i]], finished | {i}, cancelled)
        if not cancelled:
            rec(prefix + [['X']], finished, True)

    rec([], frozenset(), False)
    return out


def _online_cases(ctx, budget):
    exh = []
    for N in (1, 2):
        for n in (1, 2, 3):
            for body in ('normal', 'raise'):
                for acts in _enumerate_online(n, ctx.scale(3, 4)):
                    exh.append({'entry': 'online', 'mode': 'raise', 'N': N, 'n': n, 'body': body, 'acts': acts})
    rnd = []
    rng = ctx.rng
    for _ in range(ctx.scale(150, 3000) * budget):
        n = rng.randint(0, 6)
        acts = []
        for _ in range(rng.randint(0, 10)):
            r = rng.random()
            if n == 0 or r >= 0.9:
                acts.append(['X'])
            else:
                acts.append(['K', rng.randrange(n)] if r < 0.5 else ['E', rng.randrange(n), rng.randint(0, 1)] if r < 0.7
                            else ['T', rng.randrange(n)])
        rnd.append({'entry': 'online', 'mode': 'raise', 'N': rng.randint(1, 3), 'n': n,
                    'body': rng.choice(['normal', 'normal', 'normal', 'raise']), 'acts': acts})
    return exh, rnd


def _check_case(case, obs):
    """C20 evaluated on what the REAL helpers did under one schedule.  Returns [(key, what, detail)]."""
    bad = []
    entry, mode, N, n = case['entry'], case['mode'], case['N'], case['n']
    tag = f'{entry}:{mode}' if entry != 'online' else 'online'
    acts = case['acts']
    first_err = 'ErrB' if case.get('body') == 'raise' else None     # class name of the first exception raised
    cancelled_caller = False
    task_cancelled = set()
    finished = {}              # i -> ('ok', value) | ('err', name), as scripted and effective
    for k, o in enumerate(obs):
        if k > 0:
            a = acts[k - 1]
            before = obs[k - 1]
            if a[0] in ('K', 'E') and 0 <= a[1] < n and before['pf'][a[1]] == 'R':
                if a[0] == 'K':
                    finished[a[1]] = ('ok', 100 + a[1])
                else:
                    finished[a[1]] = ('err', ERRN[a[2]])
                    if first_err is None:
                        first_err = ERRN[a[2]]
            elif a[0] == 'X' and before['caller'] == 'P':
                cancelled_caller = True
            elif a[0] == 'T':
                task_cancelled.add(a[1])
        # --- bound
        if o['peak'] > N and not any(k0.startswith('bound-exceeded') for k0, _, _ in bad):
            bad.append((f'bound-exceeded:{tag}', f'{o["peak"]} bodies (counting the permit the caller itself holds) ran at once with a semaphore of {N}',
                        {'observation': k, 'pf': o['pf']}))
        if o['value'] is not None and (o['value'] < 0 or o['value'] > N) and not any(k0.startswith('permit-leak') for k0, _, _ in bad):
            bad.append((f'permit-leak:{tag}', f'semaphore value {o["value"]} outside 0..{N}', {'observation': k}))
    last = obs[-1]
    c = last['caller']
    if last['value'] is not None and last['alive'] == 0 and c != 'P' and last['value'] != N and not any(k0.startswith('permit-leak') for k0, _, _ in bad):
        bad.append((f'permit-leak:{tag}', f'everything finished but the semaphore value is {last["value"]}, initial {N}', {'caller': c}))
    if c == 'P':
        return bad
    how = 'cancelled' if c == 'X' else 'error' if c[0] == 'E' else 'ok'
    if entry == 'online' and how == 'error':
        how = 'body-raised' if case.get('body') == 'raise' else 'task-error'
    ar = last['at_return']
    # --- error contract
    if c == 'X' and not cancelled_caller:
        bad.append((f'spurious-cancel:{tag}', 'the helper raised CancelledError although its caller was not cancelled', {}))
    if isinstance(c, list) and c[0] == 'E':
        if mode == 'ret' and entry != 'online':
            bad.append((f'raised-in-return-mode:{tag}', f'return_exceptions=True but the helper raised {c[1]}', {}))
        elif c[1] != first_err:
            bad.append((f'not-first-exception:{tag}', f'the helper raised {c[1]}, the first exception raised was {first_err}', {}))
    if isinstance(c, list) and c[0] == 'V':
        rs = c[1]
        if entry != 'online':
            want = []
            for i in range(n):
                f = finished.get(i)
                if mode == 'ret':
                    want.append(None if f is None else (['V', f[1]] if f[0] == 'ok' else ['E', f[1]]))
                else:
                    want.append(None if f is None or f[0] != 'ok' else f[1])
            if rs != want:
                bad.append((f'wrong-results:{tag}', 'the returned list is not the list of the bodies\' results in submission order', {'got': rs, 'want': want}))
            if mode != 'ret' and first_err is not None:
                bad.append((f'error-swallowed:{tag}', f'a body raised {first_err} but the helper returned normally', {}))
        elif first_err is not None:
            bad.append((f'error-swallowed:{tag}', f'{first_err} was raised but the context manager exited normally', {}))
    # --- cancels the rest / none left running (default mode documents that siblings keep running after an error)
    exempt = entry != 'online' and mode == 'raise' and first_err is not None
    if ar is not None and not exempt and (ar['alive'] > 0 or ar['running']):
        bad.append((f'left-running:{tag}:{how}',
                    f'{ar["alive"]} task(s) unfinished ({len(ar["running"])} bodies running) at the instant the helper '
                    f'{"returned" if how == "ok" else "raised"}', {'at_return': ar}))
    if not exempt and last['alive'] > 0:
        bad.append((f'left-running-for-good:{tag}:{how}', f'{last["alive"]} task(s) still unfinished after the event loop went idle', {'pf': last['pf']}))
    # --- nobody is cancelled unless asked for
    if entry != 'online' and mode == 'raise' and not cancelled_caller and 'cancelled' in last['pf']:
        bad.append((f'cancelled-unasked:{tag}', 'default mode cancelled a sibling', {'pf': last['pf']}))
    return bad


def oracle(ctx, budget):
    cases, n_corpus, n_exh = _cases(ctx, budget)
    impl = _run_impl(ctx, cases)
    seen = {}
    for c, o in zip(cases, impl):
        for key, what, detail in _check_case(c, o):
            old = seen.get(key)
            if old is None or (len(c['acts']), c['n']) < (len(old.case['acts']), old.case['n']):
                seen[key] = Failure(key, what, c, expected='C20 statement', observed=detail)
    return list(seen.values()), {
        'evaluations': len(cases),
        'distinct_nontrivial': len({json.dumps(c, sort_keys=True) for c in cases if c['n'] > c['N'] and c['acts']}),
        'rule': 'oracle: bound (peak of running bodies + caller\'s own permit, semaphore value range and final value), result order, error '
                'contract per mode, nothing unfinished at the instant of return, evaluated on the observations of the real helpers incl. '
                'OnlineBoundedGather2 (no model); non-trivial = more partial functions than permits and at least one action',
        'histograms': {'oracle_entries': {e: sum(1 for c in cases if c['entry'] == e) for e in ('gather2', 'gather', 'online')}}}


def replay(ctx, doc):
    case = doc['case']
    if 'case' in case and 'acts' not in case:
        case = case['case']
    impl = _run_impl(ctx, [case])[0]
    out = {'case': case, 'impl': impl, 'oracle': [list(x) for x in _check_case(case, impl)]}
    if True:
        try:
            out['model_fixed_code'] = _run_model(ctx, [case], 'rp')[0]
            out['first_difference_from_model'] = _first_diff(case, out['model_fixed_code'], impl)
        except Exception as e:  # the model may not build while a proof is broken
            out['model_error'] = str(e)[-500:]
    return out
