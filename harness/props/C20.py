"""C20 — bounded gather helpers respect their bound and their error contract
(hail/python/hailtop/utils/utils.py: bounded_gather, bounded_gather2, bounded_gather2_raise_exceptions,
bounded_gather2_return_exceptions, WithoutSemaphore).

Tie: X (schedules).  coq/theories/Gather/Model.v is a hand-written step model of the helpers AFTER fixes/C20.diff (one constructor per
harness action: body i returns / body i raises / the caller is cancelled); Lemmas.v proves the property for ALL numbers of permits, all
numbers of partial functions and ALL action lists by invariant induction.  The correspondence runs the REAL functions on the deterministic
asyncio loop (harness/aio/detloop.py) and the model (vm_compute) on the same schedules - an exhaustive small scope plus seeded random
schedules - and compares after every action: the state of every body, the number of unfinished tasks, the semaphore value and its
waiters, the caller's result/exception, and the number of bodies running at the instant the helper returned.

The code in /repo at the time of writing violates the property (see findings/C20.json): the oracle finds the failing schedules.
OnlineBoundedGather2 is exercised by the oracle only (no Coq model): see META.
"""
import glob
import json
import os

from harness.core import Corr, Disagreement, Failure, coq_eval, listlit, zlit

ID = 'C20'
SRC = 'hail/python/hailtop/utils/utils.py'
COQ_PROPS = 'theories/Gather/Props_C20.v'
READY = False
ERRN = ['ErrA', 'ErrB']
MODES = {'ret': 'MRet', 'raise': 'MRaise', 'cancel': 'MCancel'}

META = dict(design_ref='§5.C C20, §6', technique='', level_text='', level_note='', partial=True)
TRUSTED = []
ASSUMPTIONS = []


# ------------------------------------------------------------------------------------------------ schedules

def _enumerate(n, maxlen):
    """Action lists: every body finishes at most once (ok or error), the caller is cancelled at most once."""
    out = []

    def rec(prefix, finished, cancelled):
        out.append(list(prefix))
        if len(prefix) == maxlen:
            return
        for i in range(n):
            if i not in finished:
                rec(prefix + [['K', i]], finished | {i}, cancelled)
                rec(prefix + [['E', i, i % 2]], finished | {i}, cancelled)
        if not cancelled:
            rec(prefix + [['X']], finished, True)

    rec([], frozenset(), False)
    return out


def _random_case(rng):
    n = rng.randint(0, 8)
    N = rng.randint(1, 4)
    acts = []
    for _ in range(rng.randint(0, 14)):
        r = rng.random()
        if r < 0.55 and n:
            acts.append(['K', rng.randrange(n)])
        elif r < 0.9 and n:
            acts.append(['E', rng.randrange(n), rng.randint(0, 1)])
        else:
            acts.append(['X'])
    return {'entry': rng.choice(['gather2', 'gather2', 'gather']), 'mode': rng.choice(list(MODES)), 'N': N, 'n': n, 'acts': acts}


def _corpus_cases():
    out = []
    for p in sorted(glob.glob(os.path.join(os.path.dirname(__file__), '..', '..', 'corpus', ID, '*.json'))):
        doc = json.load(open(p))
        c = doc['case'] if 'case' in doc else doc
        if c.get('entry') in ('gather', 'gather2'):
            out.append(c)
    return out


def _cases(ctx, budget=1):
    cases = _corpus_cases()
    n_corpus = len(cases)
    for mode in MODES:
        for N in (1, 2, 3):
            for n in range(0, ctx.scale(4, 5)):
                for acts in _enumerate(n, ctx.scale(3, 5)):
                    cases.append({'entry': 'gather2', 'mode': mode, 'N': N, 'n': n, 'acts': acts})
        for N in (1, 2):
            for n in (2, 3):
                for acts in _enumerate(n, 3):
                    cases.append({'entry': 'gather', 'mode': mode, 'N': N, 'n': n, 'acts': acts})
    n_exh = len(cases) - n_corpus
    for _ in range(ctx.scale(400, 8000) * budget):
        cases.append(_random_case(ctx.rng))
    return cases, n_corpus, n_exh


# ------------------------------------------------------------------------------------------------ model side

HEADER = 'From HailV Require Import Common.Prelude Gather.Model.\nOpen Scope Z_scope.\n'


def _act_lit(a):
    if a[0] == 'K':
        return f'Ok {a[1]}%nat {zlit(100 + a[1])}'
    if a[0] == 'E':
        return f'Err {a[1]}%nat {zlit(a[2])}'
    if a[0] == 'X':
        return 'CancelCaller'
    raise ValueError(a)


def _model_expr(case):
    cf = f'{{| permits := {zlit(case["N"])}; md := {MODES[case["mode"]]} |}}'
    return f'observe {cf} (init {cf} {case["n"]}%nat) {listlit([_act_lit(a) for a in case["acts"]])}'


PF = {'TW': 'W', 'TCw': 'W', 'TR': 'R', 'TCr': 'cancelled'}


def _tag(x):
    return x[0] if isinstance(x, tuple) else x


def _res(r):
    t = _tag(r)
    if t == 'RV':
        return r[1]
    if t == 'RE':
        return ['E', ERRN[r[1]]]
    return ['E', 'CancelledError']


def _fold_state(case, st):
    pf = []
    for t in st['ts']:
        tag = _tag(t)
        pf.append('ok' if tag == 'TOk' else 'err' if tag == 'TErr' else PF[tag])
    live = sum(1 for t in st['ts'] if _tag(t) in ('TW', 'TR'))
    c = st['caller']
    ctag = _tag(c)
    at_return = None
    if ctag == 'CIn':
        caller = 'P'
        waiters = 0
    elif ctag == 'CReacq':
        caller = 'P'
        waiters = 1
    else:
        o, nrun = c[1], c[2]
        otag = _tag(o)
        at_return = nrun
        waiters = 0
        if otag == 'OVals':
            rs = o[1] if isinstance(o, tuple) else []
            if case['mode'] == 'ret':
                caller = ['V', [(['V', r[1]] if _tag(r) == 'RV' else _res(r)) for r in rs]]
            else:
                caller = ['V', [_res(r) for r in rs]]
        elif otag == 'OErr':
            caller = ['E', ERRN[o[1]]]
        else:
            caller = 'X'
    waiters += sum(1 for t in st['ts'] if _tag(t) == 'TW')
    return {'pf': pf, 'alive': live, 'value': st['value'], 'waiters': waiters, 'caller': caller, 'at_return': at_return}


def _run_model(ctx, cases, label='model'):
    vals = coq_eval(ctx, HEADER, [_model_expr(c) for c in cases], shard=max(150, -(-len(cases) // 8)), label=label)
    return [[_fold_state(c, st) for st in v] for c, v in zip(cases, vals)]


def _run_impl(ctx, cases):
    res = ctx.run_impl('c20_gather.py', {'cases': cases}, timeout=900)['results']
    for r in res:
        if isinstance(r, dict) and 'harness_error' in r:
            raise RuntimeError('c20_gather.py harness error: ' + r['harness_error'])
    return res


def _impl_view(case, o):
    v = {'pf': o['pf'], 'alive': o['alive'], 'caller': o['caller'],
         'at_return': None if o['at_return'] is None else len(o['at_return']['running'])}
    if case['entry'] == 'gather2':
        v['value'] = o['value']
        v['waiters'] = o['waiters']
    return v


def _first_diff(case, model, impl):
    for i, (m, o) in enumerate(zip(model, impl)):
        ov = _impl_view(case, o)
        for f, x in ov.items():
            if m[f] != x:
                return i, f, m[f], x
    if len(model) != len(impl):
        return min(len(model), len(impl)), 'length', len(model), len(impl)
    return None


def correspond(ctx):
    cases, n_corpus, n_exh = _cases(ctx)
    impl = _run_impl(ctx, cases)
    model = _run_model(ctx, cases)
    dis = []
    hist = {}
    distinct = set()
    nontrivial = 0
    for c, m, o in zip(cases, model, impl):
        key = json.dumps(c, sort_keys=True)
        hist[c['mode'] + '/' + c['entry']] = hist.get(c['mode'] + '/' + c['entry'], 0) + 1
        if key not in distinct:
            distinct.add(key)
            if c['n'] > c['N'] and any(a[0] in ('E', 'X') for a in c['acts']):
                nontrivial += 1
        d = _first_diff(c, m, o)
        if d is not None:
            i, f, mv, ov = d
            dis.append(Disagreement('Gather.Model.step~bounded_gather2', {'case': c, 'observation_index': i, 'field': f}, mv, ov))
    dis.sort(key=lambda d: (len(d.case['case']['acts']), d.case['case']['n']))
    return Corr(evaluations=len(cases), distinct_nontrivial=nontrivial,
                rule='schedule = (entry point, mode, permits N, number of partial functions n, action list); corpus, then every schedule of the small scope '
                     f'(3 modes x N<=3 x n<{ctx.scale(4, 5)} x every action list up to length {ctx.scale(3, 5)} in which a body finishes at most once and the caller is '
                     'cancelled at most once), then seeded random schedules (n<=8, N<=4, up to 14 actions); non-trivial = more partial functions than permits '
                     'and at least one failure or caller cancellation; after the call and after EVERY action the body states, unfinished tasks, semaphore '
                     'value/waiters, caller outcome and the number of bodies running at the instant of return are compared',
                samples=[{'case': c, 'final': o[-1]} for c, o in list(zip(cases, impl))[-3:]],
                disagreements=dis, histograms={'mode/entry': hist, 'corpus': n_corpus, 'exhaustive_small_scope': n_exh,
                                               'random': len(cases) - n_corpus - n_exh},
                exhaustive=False, names=['Gather.Model.step~bounded_gather2'])


def oracle(ctx, budget):
    return [], {}
