"""C38 — GVCF/VDS combiner merges every input exactly once; even genome partitioning covers every base once.

Anchors: hail/python/hail/vds/combiner/variant_dataset_combiner.py (VariantDatasetCombiner.step/_step_gvcfs/_step_vdses/
save/load) and hail/python/hail/vds/combiner/combine.py (calculate_even_genome_partitioning).

Tie
  T  calc_parts: the arithmetic and the `while` loop of calculate_even_genome_partitioning.calc_parts are translated from
     the current source into coq/generated/C38/Gen.v; Combiner/Lemmas.v proves Gen.calc_parts equal to the hand model and
     the cover/length theorems for ALL contig lengths and interval sizes.  The surrounding code (the locus_interval helper,
     the fixed contig lists, the concatenation loop) is checked structurally (fail closed) and by the oracle.
  X  plan: the hand model of the merge plan (Combiner/Model.v) is run (vm_compute) against the REAL module, executed
     unmodified with the `hail` package replaced by provenance-tracking fakes (harness/impl/c38_combiner.py), on the same
     inputs and step/resume schedules; every intermediate plan is compared.  The float `floor(log(n, b))` enters the model
     as a Section variable whose instance is the table the implementation's interpreter computes.
"""
import ast
import itertools
import os

from harness.core import Corr, Disagreement, Failure, TieBroken, coq_eval, listlit, zlit
from harness.translate.pyast import PyToCoq, Unsupported, find_function

ID = 'C38'
SRC_COMBINE = 'hail/python/hail/vds/combiner/combine.py'
SRC_COMBINER = 'hail/python/hail/vds/combiner/variant_dataset_combiner.py'
COQ_PROPS = 'theories/Combiner/Props_C38.v'
READY = True
META = dict(
    design_ref='§5.F C38, §6',
    technique='Coq proofs (loop invariant for the partition arithmetic regenerated from the Python source by a fail-closed '
              'translator; measure + provenance-multiset invariant over all step/resume schedules of a hand model of the merge '
              'plan) and a differential run of that model against the real combiner module with the engine replaced by '
              'provenance-tracking fakes',
    level_text='Machine-checked (Coq 8.16, closed under the global context): (1) for EVERY contig length >= 1 and interval size >= 1 '
               'the intervals computed by calc_parts (definition regenerated from combine.py on every run, targets the code with '
               'fixes/C38.diff applied) tile 1..length in order - every base is in exactly one interval, nothing outside - and no '
               'interval is longer than requested; (2) for EVERY list of GVCFs and VDSes, branch factor >= 2, batch size >= 1, every '
               'float binning function and EVERY schedule of steps and save/load resumes (with any valid new branch factor / batch '
               'size): the plan is finished after at most 2*#gvcfs + #vdses steps, exactly one final dataset is written, its '
               'provenance is a permutation of the inputs (each used exactly once), and any two schedules produce final datasets '
               'built from the same inputs. The plan model is hand-written and tied to the real module by correspondence runs.',
    level_note='Partial: the engine (import of GVCF intervals, combine_variant_datasets, reading/writing datasets) is replaced by '
               'fakes that record provenance - what the merged data contains is not verified, only which inputs each merge is '
               'asked to combine. new_combiner (argument validation, sorting, plan hashing) is not run; the model starts at the '
               'VariantDatasetCombiner constructor. A crash is modelled at step boundaries (the plan is only saved there). '
               'math.ceil(a / b) is modelled as exact ceiling division (true for a < 2^53). On resume the merge tree may differ '
               '(load re-bins by sample count); equivalence is proved for the set of inputs of the result, not its column order.',
    partial=True,
)
TRUSTED = ['translator harness/translate/pyast.py + the While/ceil extension in harness/props/C38.py',
           'harness/impl/c38_combiner.py: fake hail package (provenance-tracking datasets, dict file system, JSON-able fake types)',
           'structural checks in generate(): locus_interval builds an inclusive [start,end] interval on the contig; the outer function '
           'concatenates calc_parts over the fixed contig list']
ASSUMPTIONS = ['math.ceil(x / y) on ints equals exact ceiling division (holds for x < 2**53; real contigs are < 2**28)',
               'combine_variant_datasets / the GVCF import use every dataset they are handed exactly once (engine, not modelled)',
               'crashes happen between steps or lose the whole step (the plan file is only written before a step)',
               'contig lengths and interval_size are >= 1; branch_factor >= 2 and gvcf_batch_size >= 1 (the constructor enforces these); '
               'sample counts are >= 1 (log(0) raises)']

RESERVED = {'end': 'end_', 'at': 'at_', 'as': 'as_', 'in': 'in_', 'fix': 'fix_', 'fun': 'fun_', 'match': 'match_', 'with': 'with_',
            'then': 'then_', 'let': 'let_', 'return': 'return_', 'Type': 'Type_', 'Set': 'Set_', 'Prop': 'Prop_', 'using': 'using_'}


class _Rename(ast.NodeTransformer):
    def visit_Name(self, n):
        if n.id in RESERVED:
            return ast.copy_location(ast.Name(id=RESERVED[n.id], ctx=n.ctx), n)
        return n


class PyToCoqWhile(PyToCoq):
    """pyast subset + `while` (fuelled: `while_loop fuel cond body state`, result in the option monad)."""

    def __init__(self, *a, fuel='', **k):
        super().__init__(*a, option_mode=True, **k)
        self.fuel = fuel

    def block(self, stmts, result, declare_sorts=None):
        if stmts and isinstance(stmts[0], ast.While):
            s, rest = stmts[0], stmts[1:]
            if s.orelse:
                raise Unsupported(s, 'while/else')
            for sub in ast.walk(s):
                if isinstance(sub, (ast.Break, ast.Continue, ast.Return, ast.Raise)):
                    raise Unsupported(sub, 'inside while')
            live = [k for k in self.assigned(s.body) if k in self.sorts]
            if not live:
                raise Unsupported(s, 'loop without state')
            cond = self.truth(*self.expr(s.test), s.test)
            saved = dict(self.sorts)
            body = self.block(list(s.body), self.tuple_of(live))
            for k in live:
                if self.sorts.get(k) != saved.get(k):
                    raise Unsupported(s, f'loop changes the sort of {k}')
            self.sorts = saved
            pat = self.pat_of(live)
            tup = self.tuple_of(live)
            return (f'match while_loop {self.fuel} (fun {pat} => {cond}) (fun {pat} =>\n{body})\n  {tup} with\n'
                    f'| None => None\n| Some {tup} =>\n{self.block(rest, result)}\nend')
        return super().block(stmts, result, declare_sorts)


def _ceil_call(tr, n):
    """math.ceil(a / b) with int a, b"""
    if not (isinstance(n.func, ast.Attribute) and isinstance(n.func.value, ast.Name) and n.func.value.id == 'math'
            and len(n.args) == 1 and isinstance(n.args[0], ast.BinOp) and isinstance(n.args[0].op, ast.Div)):
        raise Unsupported(n, 'ceil form')
    a, sa = tr.expr(n.args[0].left)
    b, sb = tr.expr(n.args[0].right)
    if sa != 'Z' or sb != 'Z':
        raise Unsupported(n, 'ceil of non-int division')
    return f'(cdiv {a} {b})', 'Z'


def _locus_interval_call(tr, n):
    if len(n.args) != 2:
        raise Unsupported(n, 'locus_interval arity')
    a, sa = tr.expr(n.args[0])
    b, sb = tr.expr(n.args[1])
    if sa != 'Z' or sb != 'Z':
        raise Unsupported(n, 'locus_interval of non-int')
    return f'({a}, {b})', 'pair'


EXPECTED_LOCUS_INTERVAL = ("return hl.Interval(start=hl.Locus(contig=contig, position=start, reference_genome=reference_genome), "
                           "end=hl.Locus(contig=contig, position=end, reference_genome=reference_genome), includes_end=True)")
EXPECTED_TAIL = [
    "if reference_genome.name == 'GRCh37':\n    contigs = [f'{i}' for i in range(1, 23)] + ['X', 'Y', 'MT']\n"
    "elif reference_genome.name == 'GRCh38':\n    contigs = [f'chr{i}' for i in range(1, 23)] + ['chrX', 'chrY', 'chrM']\n"
    "else:\n    raise ValueError(f\"Unsupported reference genome '{reference_genome.name}', only 'GRCh37' and 'GRCh38' are supported\")",
    "intervals = []",
    "for ctg in contigs:\n    intervals.extend(calc_parts(ctg))",
    "return intervals",
]


def generate(ctx):
    src = ctx.read_repo(SRC_COMBINE)
    outer = find_function(src, 'calculate_even_genome_partitioning')
    if [a.arg for a in outer.args.args] != ['reference_genome', 'interval_size']:
        raise TieBroken('py-translator', 'unexpected parameters of calculate_even_genome_partitioning')
    body = [s for s in outer.body if not (isinstance(s, ast.Expr) and isinstance(s.value, ast.Constant))]
    if not body or not isinstance(body[0], ast.FunctionDef) or body[0].name != 'calc_parts':
        raise TieBroken('py-translator', 'calc_parts is no longer the first statement')
    tail = [ast.unparse(s) for s in body[1:]]
    if tail != EXPECTED_TAIL:
        raise TieBroken('py-translator', f'outer function no longer concatenates calc_parts over the fixed contig lists: {tail!r:.400}')
    cp = body[0]
    if [a.arg for a in cp.args.args] != ['contig']:
        raise TieBroken('py-translator', 'unexpected parameters of calc_parts')
    cbody = list(cp.body)
    li = cbody.pop(0)
    if not (isinstance(li, ast.FunctionDef) and li.name == 'locus_interval' and [a.arg for a in li.args.args] == ['start', 'end']
            and len(li.body) == 1 and ast.unparse(li.body[0]) == EXPECTED_LOCUS_INTERVAL):
        raise TieBroken('py-translator', 'locus_interval no longer builds the inclusive interval [start, end] on the contig')
    first = cbody.pop(0)
    if ast.unparse(first) != 'contig_length = reference_genome.lengths[contig]':
        raise TieBroken('py-translator', f'expected `contig_length = reference_genome.lengths[contig]`, got `{ast.unparse(first)}`')
    cbody = [_Rename().visit(s) for s in cbody]
    tr = PyToCoqWhile(sorts={'contig_length': 'Z', 'interval_size': 'Z'},
                      calls={'.ceil': _ceil_call, 'locus_interval': _locus_interval_call},
                      fuel='(loop_fuel contig_length)')
    code = tr.function_body(ast.FunctionDef(name='calc_parts', args=cp.args, body=cbody, decorator_list=[], lineno=cp.lineno))
    if getattr(tr, 'return_sort', None) != 'list':
        raise TieBroken('py-translator', 'calc_parts does not return the interval list')
    text = f'''(* GENERATED by harness/props/C38.py from {SRC_COMBINE}::calculate_even_genome_partitioning.calc_parts - do not edit *)
From HailV Require Import Common.Prelude Combiner.Model.
Open Scope Z_scope.

Definition calc_parts (contig_length interval_size : Z) : option (list (Z * Z)) :=
{code}.
'''
    ctx.write_generated('Gen.v', text)
    # the resume path of new_combiner overrides these two plan parameters after loading (mirrored by the impl runner)
    csrc = ctx.read_repo(SRC_COMBINER)
    ml = find_function(csrc, 'new_combiner.maybe_load_from_saved_path')
    txt = ast.unparse(ml)
    for need in ('combiner = load_combiner(save_path)', 'combiner._branch_factor = branch_factor', 'combiner._gvcf_batch_size = gvcf_batch_size'):
        if need not in txt:
            raise TieBroken('py-translator', f'new_combiner.maybe_load_from_saved_path no longer contains `{need}`')


# ------------------------------------------------------------------------------------------------
# cases

GRCH38 = [248956422, 242193529, 198295559, 190214555, 181538259, 170805979, 159345973, 145138636, 138394717, 133797422,
          135086622, 133275309, 114364328, 107043718, 101991189, 90338345, 83257441, 80373285, 58617616, 64444167,
          46709983, 50818468, 156040895, 57227415, 16569]


def _partition_cases(ctx, n_random, big=True, max_size=26):
    """[lengths(25), size, rg] - every contig of one call is an independent (L, size) instance."""
    out = [[c['lengths'], c['size'], c['rg']] for c in _corpus('partition')]
    # exhaustive small scope: every (L, size) with 1 <= L <= 50 (25 when max_size is small), 1 <= size <= max_size
    for size in range(1, max_size + 1):
        out.append([list(range(1, 26)), size, 'GRCh38'])
        if max_size >= 26:
            out.append([list(range(26, 51)), size, 'GRCh37'])
    if big:
        out.append([GRCH38, 1_200_000, 'GRCh38'])
        out.append([GRCH38, 60_000_000, 'GRCh38'])
    rng = ctx.rng
    for _ in range(n_random):
        size = rng.choice([rng.randint(1, 40), rng.randint(1, 2000), rng.randint(1000, 300000)])
        ls = [rng.choice([rng.randint(1, 3 * size + 3), size * rng.randint(1, 5) + rng.randint(-1, 1), rng.randint(1, 400000)]) for _ in range(25)]
        ls = [max(1, x) for x in ls]
        if max(ls) // size > 3000:
            size = max(size, max(ls) // 3000)
        out.append([ls, size, rng.choice(['GRCh37', 'GRCh38'])])
    return out


def _plan_cases(ctx, n):
    rng = ctx.rng
    out = [{k: v for k, v in c.items() if k != 'kind'} for c in _corpus('plan')]

    def mk(G, vd, b, g, names, resumes):
        mu = 2 * G + len(vd)
        evs = []
        steps = 0
        while steps < mu + 1:
            if resumes and rng.random() < resumes:
                evs.append(['resume', rng.choice([b, 2, 3, 4, 7]), rng.choice([g, 1, 2, 3])])
            else:
                evs.append('step')
                steps += 1
        return {'gvcfs': G, 'vdses': vd, 'b': b, 'g': g, 'names': names, 'events': evs}
    # small scope, no resumes and resume-after-every-step
    for G, V, b, g in itertools.product(range(0, 7), range(0, 4), (2, 3), (1, 2)):
        if G + V == 0:
            continue
        vd = [1 + ((3 * i + G + b) % 7) * (i + 1) for i in range(V)]
        out.append(mk(G, vd, b, g, (G + V) % 2 == 0, 0))
    while len(out) < n:
        G = rng.choice([0, 1, 2, 3, 5, 8, 13, 21, rng.randint(0, 30)])
        V = rng.choice([0, 0, 1, 2, 3, 5, 9, rng.randint(0, 12)])
        if G + V == 0:
            continue
        b = rng.choice([2, 2, 3, 4, 5, 10])
        g = rng.choice([1, 1, 2, 3, 5])
        vd = [rng.choice([1, b, b * b, b * b - 1, b ** 3, rng.randint(1, 200)]) for _ in range(V)]
        if rng.random() < 0.5:
            vd.sort(reverse=True)          # what new_combiner does
        out.append(mk(G, vd, b, g, rng.random() < 0.6, rng.choice([0, 0.2, 0.5])))
    return out


def _corpus(kind):
    d = os.path.join(os.path.dirname(os.path.dirname(os.path.dirname(os.path.abspath(__file__)))), 'corpus', ID)
    out = []
    if os.path.isdir(d):
        import json
        for f in sorted(os.listdir(d)):
            if f.endswith('.json'):
                c = json.load(open(os.path.join(d, f))).get('case', {})
                if c.get('kind') == kind:
                    out.append(c)
    return out


def _norm_impl_obs(o):
    bins = [(k, [(list(p), n) for p, n in l]) for k, l in o['bins']]
    return (list(o['gvcfs']), bins, tuple(o['params']), [list(x) for x in o['outs']], bool(o['finished']))


def _norm_model_obs(o):
    gv, bins, params, outs, fin = o
    return (list(gv), [(k, [(list(p), n) for p, n in l]) for k, l in bins], tuple(params), [list(x) for x in outs], bool(fin))


def _model_trace_expr(case, table):
    G = case['gvcfs']
    vd = case['vdses']
    rows = ' '.join(f'if b =? {b} then {listlit([zlit(x) for x in t])} else' for b, t in sorted(table.items(), key=lambda kv: int(kv[0])))
    binf = f'(fun n b : Z => nth (Z.to_nat (n - 1)) ({rows} []) (-99))'
    evs = listlit(['EStep' if e == 'step' else f'(EResume {e[1]} {e[2]})' for e in case['events']])
    gv = listlit([str(i) for i in range(G)])
    vds = listlit([f'([{G + j}], {n})' for j, n in enumerate(vd)])
    return f'let binf := {binf} in trace binf {evs} (init binf {gv} {vds} {case["b"]} {case["g"]})'


HEADER = ('From HailV Require Import Common.Prelude Combiner.Model.\nFrom HailG Require C38.Gen.\nOpen Scope Z_scope.')


def _check_partition(lengths, size, res):
    """Property statement on the real function's output. Returns list of (key, what, detail)."""
    if res['error']:
        return [('partition:raises', f'calculate_even_genome_partitioning raised {res["error"]}', None)]
    fails = []
    by_contig = {}
    order = []
    for c, s, e, ok in res['intervals']:
        if not ok:
            fails.append(('partition:interval-shape', 'interval is not an inclusive [start, end] locus interval on one contig', [c, s, e]))
        by_contig.setdefault(c, []).append((s, e))
        order.append(c)
    for c, L in zip(res['contigs'], lengths):
        ivs = by_contig.get(c, [])
        # every base covered exactly once, nothing outside 1..L (counted arithmetically, no per-base loop for big contigs)
        if any(s > e for s, e in ivs):
            fails.append(('partition:empty-interval', f'contig of length {L}, size {size}: empty interval', [L, size, ivs[:6]]))
            continue
        if any(s < 1 or e > L for s, e in ivs):
            fails.append(('partition:outside-contig', f'contig of length {L}, size {size}: interval outside 1..{L}', [L, size, ivs[:6]]))
        srt = sorted(ivs)
        pos = 1
        for s, e in srt:
            if s > pos:
                fails.append(('partition:uncovered-base', f'contig of length {L}, interval_size {size}: base {pos} is in no interval', [L, size, srt[:6]]))
                break
            if s < pos:
                fails.append(('partition:overlap', f'contig of length {L}, interval_size {size}: base {s} is in two intervals', [L, size, srt[:6]]))
                break
            pos = e + 1
        else:
            if pos <= L:
                fails.append(('partition:uncovered-base', f'contig of length {L}, interval_size {size}: base {pos} is in no interval (got {srt[-3:]})', [L, size, srt[-6:]]))
        for s, e in ivs:
            if e - s + 1 > size:
                fails.append(('partition:too-long', f'contig of length {L}, interval_size {size}: interval [{s},{e}] has {e - s + 1} bases', [L, size, [s, e]]))
                break
    return fails


def correspond(ctx):
    corr = Corr(names=[])
    # ---- T smoke test: generated calc_parts vs the real function
    pcases = _partition_cases(ctx, ctx.scale(4, 60), big=False, max_size=ctx.scale(10, 26))
    pres = ctx.run_impl('c38_combiner.py', {'op': 'partition', 'cases': pcases})['results']
    exprs, keys = [], []
    for (lengths, size, _), r in zip(pcases, pres):
        for L in lengths:
            exprs.append(f'C38.Gen.calc_parts {L} {size}')
            keys.append((L, size))
    model = coq_eval(ctx, HEADER, exprs, shard=250)
    dis = []
    i = 0
    seen = set()
    for (lengths, size, rg), r in zip(pcases, pres):
        per = {}
        if not r['error']:
            for c, s, e, ok in r['intervals']:
                per.setdefault(c, []).append((s, e))
        for c, L in zip(r.get('contigs', [None] * 25), lengths):
            m = model[i]
            i += 1
            seen.add((L, size))
            mv = None if m is None else [tuple(x) for x in m[1]]
            iv = ('error', r['error']) if r['error'] else per.get(c, [])
            if mv != iv:
                dis.append(Disagreement('Gen.calc_parts~calculate_even_genome_partitioning', {'kind': 'partition', 'lengths': lengths, 'size': size, 'rg': rg, 'contig_length': L}, mv, iv))
    corr.merge(Corr(evaluations=len(exprs), distinct_nontrivial=len({k for k in seen if k[0] > k[1]}),
                    rule='partition: every (L, size) of a small grid (quick: L<=25, size<=10; thorough: L<=50, size<=26) plus seeded random; non-trivial = more than one interval needed (L > size); '
                         'generated Gallina (vm_compute) vs the real function body run on a fake reference genome',
                    samples=[{'contig_length': keys[-1][0], 'interval_size': keys[-1][1], 'model': model[-1]}],
                    disagreements=dis, names=['Gen.calc_parts~calculate_even_genome_partitioning'], exhaustive=False))
    # ---- X: merge plan
    cases = _plan_cases(ctx, ctx.scale(190, 2500))
    res = ctx.run_impl('c38_combiner.py', {'op': 'plans', 'cases': cases})['results']
    exprs = [_model_trace_expr(c, r['bin_table']) for c, r in zip(cases, res)]
    model = coq_eval(ctx, HEADER, exprs, shard=60)
    dis = []
    hist = {'steps_to_finish': {}, 'events': {'step': 0, 'resume': 0}}
    nontrivial = 0
    for c, r, m in zip(cases, res, model):
        mt = [_norm_model_obs(o) for o in m]
        it = [_norm_impl_obs(o) for o in r['trace']]
        for e in c['events']:
            hist['events']['step' if e == 'step' else 'resume'] += 1
        fin = next((k for k, o in enumerate(it) if o[4]), None)
        hist['steps_to_finish'][str(fin)] = hist['steps_to_finish'].get(str(fin), 0) + 1
        if c['gvcfs'] + len(c['vdses']) >= 3:
            nontrivial += 1
        if r['error'] or mt != it:
            k = next((k for k in range(min(len(mt), len(it))) if mt[k] != it[k]), min(len(mt), len(it)))
            dis.append(Disagreement('Model.trace~VariantDatasetCombiner', dict(c, kind='plan'),
                                    {'at_observation': k, 'model': mt[k] if k < len(mt) else None},
                                    {'error': r['error'], 'impl': it[k] if k < len(it) else None}))
    corr.merge(Corr(evaluations=len(cases), distinct_nontrivial=nontrivial,
                    rule='plan: (#gvcfs, vds sample counts, branch factor, batch size, names given?, schedule of step/resume events); small-scope '
                         'grid + seeded random; non-trivial = at least 3 inputs; every intermediate plan (gvcf list, bins with provenance and '
                         'sample counts, parameters, job id, outputs, finished) of the model equals that of the real module run on fakes',
                    samples=[{'case': cases[-1], 'final': res[-1]['trace'][-1] if res[-1]['trace'] else None}],
                    disagreements=dis, histograms=hist, names=['Model.trace~VariantDatasetCombiner']))
    corr.exhaustive = False
    return corr


def _check_plan(case, r):
    fails = []
    n_in = case['gvcfs'] + len(case['vdses'])
    shape = f'G={case["gvcfs"]},V={len(case["vdses"])},b={case["b"]},g={case["g"]}'
    if r['error']:
        return [('plan:raises', f'combiner raised {r["error"]} ({shape})')]
    tr = r['trace']
    for o in tr:
        if len(o['outs']) > 1:
            fails.append(('plan:two-final-datasets', f'more than one final dataset written ({shape})'))
            break
        if o['finished'] != (len(o['outs']) == 1):
            fails.append(('plan:finished-without-output', f'finished <-> exactly one final dataset fails ({shape})'))
            break
        pend = list(o['gvcfs']) + [x for _, l in o['bins'] for p, _ in l for x in p] + [x for p in o['outs'] for x in p]
        if sorted(pend) != list(range(n_in)):
            missing = sorted(set(range(n_in)) - set(pend))
            dup = sorted({x for x in pend if pend.count(x) > 1})
            kind = 'lost-input' if missing else ('duplicated-input' if dup else 'foreign-input')
            fails.append((f'plan:{kind}', f'inputs {missing or dup or pend} are {kind} in the plan ({shape})'))
            break
    n_steps = sum(1 for e in case['events'] if e == 'step')
    if n_steps >= 2 * case['gvcfs'] + len(case['vdses']) and tr and not tr[-1]['finished']:
        fails.append(('plan:not-finished', f'not finished after {n_steps} steps (bound 2*G+V) ({shape})'))
    return fails


def oracle(ctx, budget):
    fails = []
    pcases = _partition_cases(ctx, ctx.scale(20, 200) * budget)
    pres = ctx.run_impl('c38_combiner.py', {'op': 'partition', 'cases': pcases})['results']
    n_eval = 0
    for (lengths, size, rg), r in zip(pcases, pres):
        n_eval += len(lengths)
        for key, what, detail in _check_partition(lengths, size, r):
            fails.append(Failure(key, what, {'kind': 'partition', 'lengths': lengths, 'size': size, 'rg': rg}, 'tiles 1..L, each interval <= size', detail))
    cases = _plan_cases(ctx, ctx.scale(300, 3000) * budget)
    res = ctx.run_impl('c38_combiner.py', {'op': 'plans', 'cases': cases})['results']
    for c, r in zip(cases, res):
        for key, what in _check_plan(c, r):
            fails.append(Failure(key, what, dict(c, kind='plan'), 'one final dataset built from every input once', r['trace'][-1] if r['trace'] else r['error']))
    # the real run() loop (save before every step), bounded
    full = [dict(c, bound=2 * c['gvcfs'] + len(c['vdses']) + 1) for c in cases[: ctx.scale(150, 1500)]]
    fres = ctx.run_impl('c38_combiner.py', {'op': 'full', 'cases': full})['results']
    for c, r in zip(full, fres):
        n_in = c['gvcfs'] + len(c['vdses'])
        shape = f'G={c["gvcfs"]},V={len(c["vdses"])},b={c["b"]},g={c["g"]}'
        if r['error']:
            key = 'run:not-terminating' if r['error'].startswith('TimeoutError') else 'run:raises'
            fails.append(Failure(key, f'run() {r["error"]} ({shape})', dict(c, kind='full'), 'terminates', r['error']))
        elif not (r['final']['finished'] and len(r['final']['outs']) == 1 and sorted(r['final']['outs'][0]) == list(range(n_in))):
            fails.append(Failure('run:wrong-result', f'run() did not produce one dataset built from every input once ({shape})', dict(c, kind='full'),
                                 list(range(n_in)), r['final']))
    stats = {'evaluations': n_eval + len(cases) + len(full),
             'distinct_nontrivial': len({(L, s) for ls, s, _ in pcases for L in ls if L > s}) + sum(1 for c in cases if c['gvcfs'] + len(c['vdses']) >= 3),
             'rule': 'oracle: tiling/length of the real partition function per (contig length, size), incl. GRCh38 with the two default sizes; '
                     'provenance/termination/one-output recomputed on the real combiner traces and on the real run() loop'}
    return fails, stats


def replay(ctx, doc):
    case = doc['case']
    kind = case.get('kind')
    if kind == 'partition':
        r = ctx.run_impl('c38_combiner.py', {'op': 'partition', 'cases': [[case['lengths'], case['size'], case['rg']]]})['results'][0]
        return {'case': case, 'impl': r, 'verdict': [f[:2] for f in _check_partition(case['lengths'], case['size'], r)]}
    if kind == 'full':
        r = ctx.run_impl('c38_combiner.py', {'op': 'full', 'cases': [case]})['results'][0]
        return {'case': case, 'impl': r}
    r = ctx.run_impl('c38_combiner.py', {'op': 'plans', 'cases': [case]})['results'][0]
    out = {'case': case, 'impl': r, 'verdict': _check_plan(case, r)}
    try:
        m = coq_eval(ctx, HEADER, [_model_trace_expr(case, r['bin_table'])])[0]
        out['model'] = [_norm_model_obs(o) for o in m]
    except Exception as ex:  # noqa: BLE001
        out['model'] = f'not available: {ex}'
    return out
