"""C07 — cancellation stops work in the cancelled subtree only.

Tie: X (shared family correspondence: model step ~ real SQL routines + handlers on minisql, after every op).
Proof: coq/theories/BatchDB/{StepFrame,Cancel}.v over the frozen model BatchDB/Model.v; theorems in Props_C07.v.
Oracle: harness/batchdb/oracles.py::c07 after every op of every history (no non-always-run job of a cancelled group
enters Creating/Running, no job / group appears under a cancelled group, a repeated cancel changes nothing, a cancel
changes no job or group outside the subtree, schedule / creating / started are answered without error).
"""
from harness.batchdb import family

ID = 'C07'
COQ_PROPS = 'theories/BatchDB/Props_C07.v'
READY = True

META = dict(
    design_ref='§5.A C07',
    technique='Coq invariant proof over all histories of an executable model of the batch database + '
              'correspondence of the model with the real SQL routines/handlers on a MySQL-subset interpreter',
    level_text='Machine-checked theorems (Coq 8.16, closed under the global context) about the batch-database model, most of them for ARBITRARY '
               'states and transactions: (1) a non-always-run job whose group has a cancelled ancestor-or-self is never moved into Creating or '
               'Running by any transaction (C07_no_new_work_step; only "a completion names a terminal state" is assumed), marks and "under a '
               'cancelled group" are monotone along every history, the ancestors of an existing group never change, and over all legal histories '
               'the job persists with the same group and never enters Creating/Running once a group above it is cancelled (C07_no_new_work, by '
               'induction with the invariant "job keys are unique"); (2) every job row that appears belongs to a group that is not under a '
               'cancelled group, job bunches and group bunches naming a cancelled group / parent are rejected and leave the state unchanged, '
               'no update can be opened or committed on a cancelled batch; (3) a repeated cancellation leaves the state exactly as the first one '
               'left it and is answered alike, in every state of every history (C07_cancel_idempotent, invariant "every group has its own '
               'ancestors row"); (4) a cancellation changes no job, group, ancestor, batch, update, attempt, instance or billing row of any '
               'batch, changes cancellable counters only on rows of ancestors-or-self of the group, and user counters only for the batch\'s user '
               'and by exactly the cancellable sums of the group\'s rows in committed updates; (5) is_job_cancelled is total, schedule / creating / '
               'started never answer error 1242 and answer ok for an existing job and instance, and the history of the defect repaired by migration '
               '121 (sub-group cancelled, then the batch, then an always-run job of the sub-group is scheduled) evaluates to success in the model.',
    level_note='Trusted: Coq kernel; the sampled model-vs-implementation correspondence and the minisql engine. "Job of a cancelled group" is '
               'what the SQL computes: some row of job_group_self_and_ancestors of the job\'s group is in job_groups_cancelled. The job is identified '
               'by its key (batch, job id) as the SQL does; "moved into Creating/Running" compares the row before and after each transaction, so a '
               'job that already was Creating/Running when the group was cancelled may stay there until the canceller / worker ends it (C39 liveness, '
               'not part of this property). The in-memory state of the driver is not modelled.',
    partial=False,
)
TRUSTED = family.COMMON_TRUSTED + []
ASSUMPTIONS = family.COMMON_ASSUMPTIONS + [
    'only one clause of Legal.v is used, and only by the no-new-work theorems: a completion report names a terminal state (op_terminal); '
    'all other C07 theorems hold for arbitrary transactions',
]

correspond = family.correspond
oracle = family.oracle_for(ID)
replay = family.replay
