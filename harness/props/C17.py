"""C17 — Batch DSL: jobs numbered/executed in dependency order, cycles rejected, LocalBackend skips exactly the right jobs.

Tie: X.  Hand model coq/theories/DslOrder/Model.v (DFS post-order with a seen set, the index cycle test, the local job loop
with cancelled_jobs) against the real hailtop.batch.Batch / LocalBackend; pipelines are built through the real DSL
(depends_on + commands that mention another job's resource file), commands are "executed" by a scripted pass/fail table
(backend.sp is replaced, no shell).  The model is run on the dependency lists in the iteration order Python really used.

PythonJob pipelines (case['py']): Bash and Python jobs created in one order and wired in another; a resource reaches a PythonJob only
through the arguments of j.call(f, *args, **kwargs) — positionally, as a keyword value, nested in lists / tuples / dicts (depth 0..3) —
and results are used raw or via as_str / as_repr / as_json.  The oracle recomputes the expected dependency edges from the operations
(every resource REACHABLE in the arguments induces an edge to its producer) and applies the same numbering / order / skip-set clauses.
"""
import itertools

from harness.core import Corr, Disagreement, Failure, coq_eval, listlit, blit

ID = 'C17'
SRC = ['hail/python/hailtop/batch/batch.py', 'hail/python/hailtop/batch/backend.py', 'hail/python/hailtop/batch/job.py']
COQ_PROPS = 'theories/DslOrder/Props_C17.v'
READY = True
META = dict(
    design_ref='§5.D C17',
    technique='Coq proofs (induction on DFS fuel with a seen/ordered invariant; induction over the job loop) about a hand-written '
              'executable model, tied to the real hailtop.batch Batch/LocalBackend by a differential run over enumerated and random pipelines',
    level_text='Machine-checked theorems (Coq 8.16, closed under the global context), for ALL dependency graphs, creation orders, '
               'set-iteration orders, always_run flags and failing-command sets: the numbering is a permutation of the jobs; every '
               'pipeline that admits a topological ranking is accepted, processed in numbering order, with every dependency numbered '
               'before its dependant; every accepted numbering respects all dependencies; every pipeline with a dependency cycle '
               '(incl. self-dependency) is rejected with nothing run; the local backend skips a job iff it is not always_run and one of '
               'its parents failed or was skipped, and every other job runs and fails iff its command fails. The model is hand-written '
               'and compared with the real Batch.run()/LocalBackend on all digraphs with <= 3 jobs, all DAGs on 4 (thorough: 5) jobs, '
               'cyclic and larger random pipelines, with explicit and resource-induced edges, and on PythonJob pipelines (Bash and Python jobs; '
               'resources passed to j.call(f, *args, **kwargs) positionally, by keyword and nested in lists / tuples / dicts to depth 3 — all nestings x '
               '7 kinds of resource enumerated, plus random mixed pipelines; results used raw and via as_str / as_repr / as_json).',
    level_note='"Transitively depends on a failed or skipped job" is read as the inductive closure the code implements (a child of an '
               'always_run job that ran successfully is NOT skipped even if a grand-parent failed) — DESIGN §5.D. "DAG-shaped" is '
               'formalised as "admits a ranking", "cyclic" as "a job reaches itself"; that every finite graph is one or the other is '
               'standard but not proved here. Single run() of a fresh batch. The theorems take the dependency SETS as given; that the sets the DSL '
               'records are exactly {depends_on} + {producers of the resources mentioned in Bash commands / reachable in the arguments of '
               'PythonJob.call} is RUN-CHECKED by the oracle on the real DSL (not proved here; the Coq statement of the PythonJob bookkeeping is '
               'C18\'s call_ops/reach). PythonJobs are compiled and "run" through the same scripted pass/fail table, their functions never execute. '
               'Re-running a batch with previously submitted jobs, Python\'s recursion limit on very deep chains and the ServiceBackend are not covered. '
               'Trusted: the model-to-code correspondence run (not a translator), the loader stubs, the fake subprocess module.',
    partial=False,
)
TRUSTED = ['correspondence harness/props/C17.py + harness/impl/c17_dsl_order.py (hand model vs real hailtop.batch, fake subprocess module)',
           'loader stubs for third-party packages imported by hailtop.batch (dill, rich, ...)']
ASSUMPTIONS = ['one Batch.run() of a fresh batch on LocalBackend (BashJobs and PythonJobs; python functions are never executed); every dependency is a job of the same batch (closed)',
               'commands are atomic pass/fail events given by a table; no shell, docker or file transfer is executed',
               'reading of "transitively": inductive closure over direct parents that failed or were skipped']

HEADER = ('From HailV Require Import Common.Prelude DslOrder.Model.\n'
          'Definition tbl {A} (t : list A) (d : A) (j : nat) : A := nth j t d.\n')


# ------------------------------------------------------------------------------------------------
# pipeline generation

def has_cycle(n, edges):
    adj = {i: [] for i in range(n)}
    for j, d in edges:
        adj[j].append(d)
    color = [0] * n

    def dfs(u):
        color[u] = 1
        for v in adj[u]:
            if color[v] == 1 or (color[v] == 0 and dfs(v)):
                return True
        color[u] = 2
        return False
    return any(color[i] == 0 and dfs(i) for i in range(n))


def all_digraphs(n, loops=True):
    pairs = [(j, d) for j in range(n) for d in range(n) if loops or j != d]
    for mask in range(1 << len(pairs)):
        yield [list(p) for k, p in enumerate(pairs) if mask >> k & 1]


def all_dags(n):
    """All labelled DAGs on n nodes (labels = creation order)."""
    seen = set()
    for perm in itertools.permutations(range(n)):
        pairs = [(perm[a], perm[b]) for a in range(n) for b in range(a)]      # later in perm depends on earlier
        for mask in range(1 << len(pairs)):
            e = frozenset(p for k, p in enumerate(pairs) if mask >> k & 1)
            if e not in seen:
                seen.add(e)
                yield sorted(list(p) for p in e)


def mk_case(rng, n, edges, always=None, fails=None):
    explicit, resource, order = [], [], []
    for j, d in edges:
        k = rng.random()
        if j == d or k < 0.45:
            explicit.append([j, d]); order.append(['e', j, d])
        elif k < 0.9:
            resource.append([j, d]); order.append(['r', j, d])
        else:
            explicit.append([j, d]); resource.append([j, d]); order += [['e', j, d], ['r', j, d]]
    rng.shuffle(order)
    return {'n': n, 'explicit': explicit, 'resource': resource, 'edge_order': order,
            'always': always if always is not None else [rng.random() < 0.3 for _ in range(n)],
            'fails': fails if fails is not None else [rng.random() < 0.35 for _ in range(n)]}


def random_graph(rng, n, cyclic):
    perm = list(range(n))
    rng.shuffle(perm)
    p = rng.choice([0.1, 0.2, 0.4])
    edges = {(perm[a], perm[b]) for a in range(n) for b in range(a) if rng.random() < p}
    if cyclic:
        for _ in range(rng.randint(1, 2)):
            a = rng.randrange(n)
            b = rng.randrange(n)
            edges.add((a, b))
            edges.add((b, a)) if rng.random() < 0.5 else None
        if not has_cycle(n, edges):
            a = rng.randrange(n)
            edges.add((a, a))
    return sorted(list(e) for e in edges)


def cases(ctx, scale):
    rng = ctx.rng
    out = []
    # 1. all digraphs (self-loops included) on <= 3 jobs
    for n in (1, 2, 3):
        for e in all_digraphs(n):
            out.append(mk_case(rng, n, e))
    # 2. all DAGs on 3 jobs x all always/fail tables; all DAGs on 4 jobs x 2 random tables
    for e in all_dags(3):
        for a in itertools.product([False, True], repeat=3):
            for f in itertools.product([False, True], repeat=3):
                out.append(mk_case(rng, 3, e, list(a), list(f)))
    for e in all_dags(4):
        for _ in range(2):
            out.append(mk_case(rng, 4, e))
    # 3. DAGs on 5 jobs: thorough = all, quick = sample
    d5 = list(all_dags(5)) if ctx.thorough else None
    if d5 is not None:
        for e in d5:
            out.append(mk_case(rng, 5, e))
    else:
        for _ in range(300 * scale):
            out.append(mk_case(rng, 5, random_graph(rng, 5, False)))
    # 4. digraphs on 4 jobs (mostly cyclic), random
    pairs4 = [(j, d) for j in range(4) for d in range(4)]
    for _ in range(ctx.scale(300, 3000) * scale):
        e = [list(p) for p in pairs4 if rng.random() < rng.choice([0.15, 0.3])]
        out.append(mk_case(rng, 4, e))
    # 5. larger random pipelines, half of them cyclic
    for k in range(ctx.scale(200, 2000) * scale):
        n = rng.randint(6, 30)
        out.append(mk_case(rng, n, random_graph(rng, n, k % 2 == 1)))
    # 6. PythonJob pipelines: every argument shape (container nesting depth 0..3, positional / keyword) x every kind of resource,
    #    consumer created before its producer; then random mixed Bash/Python pipelines
    out += py_shape_cases()
    for _ in range(ctx.scale(400, 4000) * scale):
        out.append(gen_py_case(rng))
    return out


# ------------------------------------------------------------------------------------------------
# PythonJob pipelines: a resource reaches a PythonJob through the arguments of j.call(f, *args, **kwargs)

PY_LEAVES = [['file', 'ofile'], ['group'], ['groupfile', 'bed'], ['res', 'raw'], ['res', 'str'], ['res', 'repr'], ['res', 'json']]


def py_arg_refs(a):
    """All resource references reachable in a call argument (any nesting of lists / tuples / dict values)."""
    if a[0] == 'r':
        yield a[1]
    elif a[0] in ('l', 't'):
        for x in a[1]:
            yield from py_arg_refs(x)
    elif a[0] == 'd':
        for _, x in a[1]:
            yield from py_arg_refs(x)


def py_edges(case):
    """(explicit, resource-induced) dependency edges a PythonJob pipeline spec asks for, from the spec alone."""
    spec = case['py']
    call_job = [op[1] for op in spec['ops'] if op[0] == 'call']

    def src(ref):
        return call_job[ref[1]] if ref[0] == 'res' else ref[1]
    explicit, resource = set(), set()
    for op in spec['ops']:
        if op[0] == 'dep':
            explicit.add((op[1], op[2]))
        elif op[0] == 'cat':
            if src(op[2]) != op[1]:
                resource.add((op[1], src(op[2])))
        elif op[0] == 'call':
            for a in list(op[2]) + [x for _, x in op[3]]:
                for ref in py_arg_refs(a):
                    if src(ref) != op[1]:
                        resource.add((op[1], src(ref)))
    return sorted(map(list, explicit)), sorted(map(list, resource))


def py_wrap(a, path, fill):
    """Nest argument a in containers, innermost first: path is a string over l(ist) t(uple) d(ict)."""
    for depth, k in enumerate(path):
        if k == 'd':
            a = ['d', ([['p', fill]] if depth % 2 else []) + [['key', a]]]
        else:
            a = [k, ([fill] if depth % 2 == 0 else []) + [a]]
    return a


def py_finish(n, kinds, ops, always, fails):
    case = {'n': n, 'explicit': [], 'resource': [], 'always': always, 'fails': fails, 'py': {'kinds': kinds, 'ops': ops}}
    case['explicit'], case['resource'] = py_edges(case)
    return case


def py_shape_cases():
    """Consumer (a PythonJob, created FIRST) gets one resource of the producer through one argument of one call; the argument is
    the resource itself or nests it in every combination of list / tuple / dict up to depth 3, passed positionally and by keyword."""
    out = []
    paths = [''.join(p) for d in range(4) for p in itertools.product('ltd', repeat=d)]
    for leaf in PY_LEAVES:
        for path in paths:
            for place in ('pos', 'kw'):
                if leaf[0] == 'res':
                    kinds = ['py', 'py']
                    pre = [['call', 1, [['v', 3]], [], 'f']]
                    ref = ['res', 0, leaf[1]]
                elif leaf[0] == 'file':
                    kinds, pre, ref = ['py', 'bash'], [['produce', 1, leaf[1]]], ['file', 1, leaf[1]]
                else:
                    kinds, pre = ['py', 'bash'], [['declare', 1]]
                    ref = ['group', 1] if leaf[0] == 'group' else ['groupfile', 1, leaf[1]]
                a = py_wrap(['r', ref], path, ['v', 7])
                call = ['call', 0, [['v', 1], a], [], 'g'] if place == 'pos' else ['call', 0, [], [['flag', ['v', True]], ['data', a]], 'f']
                # the producer fails: the consumer must be skipped
                out.append(py_finish(2, kinds, pre + [call], [False, False], [False, True]))
    return out


def gen_py_case(rng):
    n = rng.randint(2, 6)
    kinds = [rng.choice(['py', 'py', 'bash']) for _ in range(n)]
    if 'py' not in kinds:
        kinds[rng.randrange(n)] = 'py'
    topo = list(range(n))
    rng.shuffle(topo)          # data-flow order; the job index is the CREATION order
    avail = []                 # references defined so far
    ops = []
    ncalls = 0

    def pick(for_bash):
        ref = list(rng.choice(avail))
        if ref[0] == 'res':
            ref.append(rng.choice(['str', 'repr', 'json'] if for_bash else ['raw', 'raw', 'str', 'repr', 'json']))
        return ref

    def filler():
        return ['v', rng.choice([0, 'x', None, 1.5, True])]

    for pos, j in enumerate(topo):
        if pos and rng.random() < 0.12:
            ops.append(['dep', j, rng.choice(topo[:pos])])
        if kinds[j] == 'bash':
            for _ in range(rng.randint(0, 2)):
                if avail:
                    ops.append(['cat', j, pick(True)])
            if rng.random() < 0.3:
                ops.append(['declare', j])
                avail += [['group', j], ['groupfile', j, 'bed'], ['groupfile', j, 'bim']]
            for ident in rng.sample(['ofile', 'out2'], rng.randint(0, 2)):
                ops.append(['produce', j, ident])
                avail.append(['file', j, ident])
        else:
            for _ in range(rng.randint(1, 2)):
                args, kwargs = [], []
                for _ in range(rng.randint(0, 2)):
                    args.append(filler())
                for _ in range(rng.choice([0, 1, 1, 2, 3]) if avail else 0):
                    path = ''.join(rng.choice('ltd') for _ in range(rng.choice([0, 1, 1, 2, 2, 3])))
                    a = py_wrap(['r', pick(False)], path, filler())
                    if rng.random() < 0.5:
                        args.insert(rng.randint(0, len(args)), a)
                    else:
                        kwargs.append([f'kw{len(kwargs)}', a])
                if rng.random() < 0.3:
                    kwargs.insert(rng.randint(0, len(kwargs)), [f'opt{len(kwargs)}', filler()])
                ops.append(['call', j, args, kwargs, 'g' if args and rng.random() < 0.5 else 'f'])
                avail.append(['res', ncalls])
                ncalls += 1
    always = [rng.random() < 0.3 for _ in range(n)]
    fails = [rng.random() < 0.35 for _ in range(n)]
    case = py_finish(n, kinds, ops, always, fails)
    if rng.random() < 0.08 and case['resource']:
        j, d = rng.choice(case['resource'])
        case['py']['ops'].append(['dep', d, j])          # closes a cycle through a call argument
        case['explicit'], case['resource'] = py_edges(case)
    return case


def corpus_cases():
    """corpus/C17/*.json: hand-written edge cases and minimised past failures (run first)."""
    import glob
    import json
    import os
    out = []
    for f in sorted(glob.glob(os.path.join(os.path.dirname(os.path.dirname(os.path.dirname(os.path.abspath(__file__)))), 'corpus', 'C17', '*.json'))):
        out.append(json.load(open(f))['case'])
    return out


# ------------------------------------------------------------------------------------------------
# running both sides

def run_impl(ctx, cs):
    res = []
    for i in range(0, len(cs), 4000):
        res += ctx.run_impl('c17_dsl_order.py', {'cases': cs[i:i + 4000]}, timeout=900)['results']
    return res


def impl_view(case, r):
    """Canonical observable of the implementation, in the model's vocabulary."""
    if r['result'] == 'cycle':
        return 'Rejected'
    if r['result'] not in ('ok', 'failed'):
        return r['result']
    n = case['n']
    ids = r['ids']
    if sorted(ids) != list(range(1, n + 1)):
        return f'bad-ids:{ids}'
    ord_ = sorted(range(n), key=lambda j: ids[j])
    executed = [j for _, j in r['executed']]
    skipped = set(r['skipped'])
    log = []
    for j in ord_:
        if j in skipped:
            log.append((j, 'Skipped'))
        elif j in executed:
            log.append((j, 'Failed' if case['fails'][j] else 'Ok'))
        else:
            log.append((j, 'Missing'))
    return ('Ran', ord_, log)


def model_expr(case, deps):
    n = case['n']
    d = listlit([listlit([str(x) for x in ds]) for ds in deps])
    return (f'batch_run (tbl {d} []) (tbl {listlit([blit(x) for x in case["always"]])} false) '
            f'(tbl {listlit([blit(x) for x in case["fails"]])} false) {listlit([str(i) for i in range(n)])}')


def correspond(ctx):
    cs = corpus_cases() + cases(ctx, 1)
    impl = run_impl(ctx, cs)
    model = coq_eval(ctx, HEADER, [model_expr(c, r['deps']) for c, r in zip(cs, impl)], shard=250)
    dis = []
    hist = {}
    distinct = set()
    for c, r, m in zip(cs, impl, model):
        iv = impl_view(c, r)
        if isinstance(m, tuple) and m[0] == 'Ran':
            m = ('Ran', m[1], [tuple(x) for x in m[2]])
        key = 'Rejected' if iv == 'Rejected' else (r['result'] if isinstance(iv, tuple) else 'other')
        hist[key] = hist.get(key, 0) + 1
        edges = frozenset(map(tuple, c['explicit'])) | frozenset(map(tuple, c['resource']))
        if len(edges) >= 1:
            distinct.add((c['n'], edges, tuple(c['always']), tuple(c['fails']), repr(c.get('py'))))
        if c.get('py'):
            hist['pythonjob-pipelines'] = hist.get('pythonjob-pipelines', 0) + 1
        if iv != m:
            dis.append(Disagreement('Model.batch_run~Batch.run/LocalBackend', c, m, iv))
        # the executed sequence must follow the numbering (model: map fst log = ord)
        if isinstance(iv, tuple):
            ex = [j for _, j in r['executed']]
            want = [j for j, s in iv[2] if s != 'Skipped']
            if ex != want:
                dis.append(Disagreement('Model.run_local order~LocalBackend execution order', c, want, ex))
    return Corr(evaluations=len(cs), distinct_nontrivial=len(distinct),
                rule='pipeline = (n, explicit edges, resource edges, always_run table, fail table); all digraphs on <=3 jobs, all DAGs on 3 jobs x all '
                     'tables, all DAGs on 4 jobs, DAGs on 5 jobs (thorough: all), random digraphs on 4 jobs, random pipelines of 6..30 jobs; '
                     'PythonJob pipelines: 7 resource kinds x all list/tuple/dict nestings of depth 0..3 x positional/keyword (consumer created first), '
                     'and random mixed Bash/Python pipelines of 2..6 jobs (results used raw / as_str / as_repr / as_json); non-trivial = at least one edge; real Batch.run on LocalBackend (scripted commands) vs Model.batch_run by vm_compute',
                samples=[{'case': c, 'impl': r} for c, r in list(zip(cs, impl))[3:5] + list(zip(cs, impl))[-1:]],
                disagreements=dis, histograms={'outcome': hist}, names=['Model.batch_run~Batch.run/LocalBackend'],
                exhaustive=False)


# ------------------------------------------------------------------------------------------------
# oracle: the property evaluated on the implementation only

def expected_statuses(case):
    """Least solution of: skipped j <-> not always j and some parent failed or skipped — computed along a topological order of the SPEC graph."""
    n = case['n']
    parents = {i: set() for i in range(n)}
    for j, d in case['explicit'] + case['resource']:
        parents[j].add(d)
    status = {}
    remaining = set(range(n))
    while remaining:
        ready = [j for j in sorted(remaining) if parents[j] <= set(status)]
        assert ready
        for j in ready:
            bad = any(status[p] in ('Failed', 'Skipped') for p in parents[j])
            if bad and not case['always'][j]:
                status[j] = 'Skipped'
            else:
                status[j] = 'Failed' if case['fails'][j] else 'Ok'
            remaining.discard(j)
    return status


def judge(case, r):
    n = case['n']
    edges = sorted(set(map(tuple, case['explicit'])) | set(map(tuple, case['resource'])))
    fails = []
    got_deps = sorted((j, d) for j in range(n) for d in r['deps'][j])
    if case.get('py'):
        # PythonJob pipeline: the expected edges are recomputed from the operations (every resource REACHABLE in the arguments of a
        # call — positional, keyword, nested in lists / tuples / dicts — and every resource in a Bash command induces an edge)
        ex, rs = py_edges(case)
        if sorted(map(tuple, ex + rs)) != sorted(map(tuple, case['explicit'] + case['resource'])):
            raise ValueError(f'C17: stored edges of a PythonJob case differ from its operations: {case}')
        if got_deps != edges:
            missing = sorted(set(edges) - set(got_deps))
            fails.append(Failure('pyjob-dependency-set', 'job._dependencies differs from {explicit dependencies} + {producers of the resources reachable in '
                                 f'the arguments of PythonJob.call / mentioned in Bash commands}}; missing {missing}, extra {sorted(set(got_deps) - set(edges))}',
                                 case, edges, got_deps))
    elif got_deps != edges:
        fails.append(Failure('dependency-set', 'job._dependencies differs from the explicit + resource-induced dependencies of the pipeline',
                             case, edges, got_deps))
    if has_cycle(n, edges):
        if r['result'] != 'cycle':
            fails.append(Failure('cycle-not-rejected', 'a cyclic pipeline was not rejected with BatchException("cycle detected ...")', case, 'cycle', r))
        elif r['shell'] or r['rm'] or r['executed']:
            fails.append(Failure('ran-before-reject', 'something ran before the cyclic pipeline was rejected', case, 'nothing run', r))
        return fails
    if r['result'] == 'cycle':
        fails.append(Failure('dag-rejected', 'an acyclic pipeline was rejected as cyclic', case, 'accepted', r))
        return fails
    if r['result'] not in ('ok', 'failed'):
        fails.append(Failure('raises', f'Batch.run raised {r["result"]}', case, 'ok|failed', r))
        return fails
    ids = r['ids']
    if sorted(ids) != list(range(1, n + 1)):
        fails.append(Failure('numbering', 'job ids are not a permutation of 1..n', case, None, r))
        return fails
    for j, d in edges:
        if not ids[d] < ids[j]:
            fails.append(Failure('order', f'job {j} (id {ids[j]}) is numbered before its dependency {d} (id {ids[d]})', case, None, r))
            return fails
    ex_ids = [i for i, _ in r['executed']]
    if ex_ids != sorted(ex_ids) or len(set(ex_ids)) != len(ex_ids) or any(ids[j] != i for i, j in r['executed']):
        fails.append(Failure('exec-order', 'jobs were not executed in increasing job-id order', case, None, r))
    exp = expected_statuses(case)
    exp_skipped = sorted(j for j, s in exp.items() if s == 'Skipped')
    if sorted(r['skipped']) != exp_skipped or sorted(j for _, j in r['executed']) != sorted(j for j, s in exp.items() if s != 'Skipped'):
        fails.append(Failure('skip-set', 'the set of skipped jobs differs from {non-always-run jobs with a failed or skipped parent}', case,
                             {'skipped': exp_skipped}, {'skipped': sorted(r['skipped']), 'executed': r['executed']}))
    want = 'failed' if any(s == 'Failed' for s in exp.values()) else 'ok'
    if r['result'] != want:
        fails.append(Failure('final-result', 'run() did not raise exactly when some executed job failed', case, want, r['result']))
    return fails


def oracle(ctx, budget):
    cs = corpus_cases() + cases(ctx, budget)
    impl = run_impl(ctx, cs)
    fails = []
    hist = {}
    for c, r in zip(cs, impl):
        fs = judge(c, r)
        fails += fs
        k = 'cyclic' if r['result'] == 'cycle' else ('with-skips' if r['skipped'] else 'no-skips')
        hist[k] = hist.get(k, 0) + 1
        if c.get('py'):
            hist['pythonjob-pipelines'] = hist.get('pythonjob-pipelines', 0) + 1
    distinct = len({(c['n'], frozenset(map(tuple, c['explicit'] + c['resource'])), tuple(c['always']), tuple(c['fails']), repr(c.get('py')))
                    for c in cs if c['explicit'] or c['resource']})
    return fails, {'evaluations': len(cs), 'distinct_nontrivial': distinct,
                   'rule': 'oracle: ids/edges/cycle/skip-set recomputed in Python from the pipeline spec on the real run() output; for PythonJob '
                           'pipelines the edges are {explicit} + {producer of every resource reachable in the arguments of a call or mentioned in a command}',
                   'histograms': {'oracle_outcome': hist}}


def replay(ctx, doc):
    case = doc['case']
    r = run_impl(ctx, [case])[0]
    m = coq_eval(ctx, HEADER, [model_expr(case, r['deps'])])[0]
    return {'case': case, 'impl': r, 'impl_view': impl_view(case, r), 'model': m,
            'oracle': [{'key': f.key, 'what': f.what} for f in judge(case, r)]}
