"""C06 — batch and job-group completion reflect their jobs (+ the tally half of C04: every job counted exactly once).

Tie: X (shared family correspondence: model step ~ real SQL routines + handlers on minisql, after every op).
Proof: coq/theories/BatchDB/{Tally,TallyOps,TallyStruct,TallyCommit,TallyMC,TallyInv}.v (the tally invariant TInv, proved
inductive on top of the dependency invariant DInv of Deps*.v) over the frozen model BatchDB/Model.v; theorems in Props_C06.v.
Oracle: harness/batchdb/oracles.py::c06 after every op of every history: for every job group n_jobs = number of committed
jobs in its subtree and state = 'complete' iff all of them are terminal; the same for the batch row (the completed /
succeeded / failed / cancelled tallies are recomputed by ::c04).
"""
from harness.batchdb import family

ID = 'C06'
COQ_PROPS = 'theories/BatchDB/Props_C06.v'
READY = True

META = dict(
    design_ref='§5.A C06',
    technique='Coq invariant proof over all histories of an executable model of the batch database + '
              'correspondence of the model with the real SQL routines/handlers on a MySQL-subset interpreter',
    level_text='Machine-checked (Coq 8.16, every theorem closed under the global context), for ALL good histories of the batch-database model '
               '(any interleaving, duplication and delay of batch / update / nested job-group / job creation, commits, scheduling, worker '
               'and canceller completions incl. stale and repeated ones, cancellations, deletions, instance deactivations, clean-ups; '
               '"good" = driver/worker messages legal as in Legal.v + client requests schema-valid as in DepsDef.client_ok): '
               '(1) C06_counts: in every reachable state the five numbers of EVERY job-group row - n_jobs, n_completed, n_succeeded, n_failed '
               '(Failed or Error), n_cancelled - equal the counts over the committed jobs of the group\'s subtree (jobs whose group has the group '
               'among its ancestors-or-self), so each job is counted exactly once in every group above it and nowhere else; '
               '(2) C06_batch_counts: the batch row\'s n_jobs is the number of committed jobs of the batch and the batch mirrors n_jobs and state '
               'of its root group, which exists; (3) C06_complete_iff: a job group / a batch is in state complete EXACTLY when every committed job '
               'in its subtree / in the batch is terminal (a group without committed jobs is complete); C06_uncommitted_jobs_unfinished: the jobs '
               'the tallies do not see (uncommitted updates) are never terminal; (4) C06_update_reopens: a successful commit of an update adds to '
               'every group of the batch exactly the number of the update\'s jobs in its subtree and to the batch the update\'s job count, and makes '
               'each of them running again when that number is positive; (5) C06_counted_once (from ANY state): a MarkComplete for an already '
               'terminal job, or with a stale attempt id, changes no job, job-group or batch row (rc 0 with the old state / rc 2 / error 1452); '
               '(6) the invariant TInv behind (1)-(4) is inductive (C06_invariant_step) and reachable (C06_invariant_reachable). It also contains the '
               'generalisation of the staging invariant to every group (staging counter of (batch, update, group) of an uncommitted update = number '
               'of the update\'s jobs in that subtree), duplicate-freeness of ancestor lists and existence of every named ancestor.',
    level_note='Trusted: Coq kernel; the sampled model-vs-implementation correspondence and the minisql engine; the environment assumptions of '
               'Legal.v (job-directed driver/worker messages name jobs of committed updates, completions report a terminal state, updates are '
               'committed in order) and the front end\'s schema validation (client_ok: contiguous job-group ids, non-negative parents and sizes). '
               '"Job in a group" is what the SQL uses: the rows of job_group_self_and_ancestors of the job\'s group. "Every job" means every job of '
               'a COMMITTED update: rows of an open update are not part of the batch yet (they are counted at commit, theorem (4)). The numbers a '
               'client sees through _get_batch/_get_job_group are read from these rows (n_jobs, state, job_groups_n_jobs_in_complete_states); the '
               'JSON rendering (batch_record_to_dict) is not modelled.',
    partial=False,
)
TRUSTED = family.COMMON_TRUSTED + []
ASSUMPTIONS = family.COMMON_ASSUMPTIONS + [
    'good histories (Deps.good_history): Legal.v (messages about jobs of committed updates, terminal completion states, updates committed in order) '
    'and DepsDef.client_ok (schema validation of job-group bunches and update sizes); C06_counted_once needs none of them',
]

correspond = family.correspond
oracle = family.oracle_for(ID)
replay = family.replay
