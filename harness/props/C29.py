"""C29 — post-login redirects stay on Hail hosts (auth/auth/auth.py::validate_next_page_url and its uses).

Tie: X.  coq/theories/Redirect/Model.v models CPython 3.12's urlsplit netloc extraction ([py_netloc]) and transcribes the
WHATWG URL parser as far as the host is concerned ([browser]); Redirect/Lemmas.v proves for ALL strings that an accepted
URL is parsed by the browser to exactly the accepted host.  The correspondence compares, on structure-aware adversarial
strings, (1) [py_netloc] with the running interpreter's urllib.parse.urlparse(...).netloc, (2) [accepts] with the REAL
validate_next_page_url under a fake deploy_config (sub-domain and base-path deployments), (3) [browser] with the Python
twin of the WHATWG transcription that the oracle uses.
Oracle (implementation only): every string the real validate_next_page_url accepts must be parsed by the WHATWG twin to
one of the allowed hosts — both the raw string and the Location header the real aiohttp.web.HTTPFound produces from it.
"""
import ast

from harness.core import Corr, Disagreement, Failure, TieBroken, coq_eval, listlit, nlit

ID = 'C29'
SRC = 'auth/auth/auth.py'
COQ_PROPS = 'theories/Redirect/Props_C29.v'
READY = True
META = dict(
    design_ref='§5.E C29',
    technique='Coq proof over all strings (lists of code points) relating a model of CPython urlsplit netloc extraction to a transcription '
              'of the WHATWG URL host parser; differential correspondence with the real urllib.parse and the real validate_next_page_url',
    level_text='Machine-checked (Coq 8.16, no axioms): for EVERY string s and every list of well-formed host names, if validate_next_page_url '
               'accepts s (urlparse(s).netloc is one of the hosts) then the WHATWG URL parser, with the auth service as base URL, parses s to a '
               'URL whose host is exactly that host — whatever the scheme, userinfo/port/backslash/tab/newline/control-character tricks. '
               'Also: the accepted netloc never involves userinfo or a port. The Python side is tied to the running CPython and to the real '
               'validate_next_page_url on adversarial strings.',
    level_note='Partial: the browser side is a transcription of the WHATWG URL standard (hosts needing IDNA, percent-decoding or IP parsing are '
               'classified "other" and never arise for accepted strings); it cannot be validated against a browser here. The scheme is not '
               'restricted by the code (javascript://<host>/… is accepted; browsers refuse HTTP redirects to non-HTTP(S) schemes). The '
               'Location header goes through yarl (aiohttp.web.HTTPFound); that re-serialisation is checked by the oracle, not proved.',
    partial=True,
)
TRUSTED = ['hand model coq/theories/Redirect/Model.v: py_netloc (CPython 3.12 urlsplit) and browser (WHATWG URL parser transcription)',
           'harness/impl/c29_redirect.py: Python twin of the WHATWG transcription; fake DeployConfig',
           'CPython 3.12 urllib.parse and yarl/aiohttp of /venv as the implementation\'s semantics']
ASSUMPTIONS = ['deployment host names are lower-case LDH names (not localhost, last label not numeric, no punycode label)',
               'the browser resolves the Location value against https://auth.<domain>/… as the WHATWG URL standard specifies']

D_SUB = ['batch.hail.example', 'auth.hail.example', 'ci.hail.example', 'monitoring.hail.example']
D_BASE = ['internal.hail.example']
HEADER = 'From HailV Require Import Common.Prelude Redirect.Model.'


def generate(ctx):
    """Structural tie for the USE of the validator: in auth.py every value that reaches `web.HTTPFound(next_page)` or
    `session['next'] = next_page` is a local `next_page` whose every assignment is immediately followed by
    `validate_next_page_url(next_page)`; and the validator itself still has the shape the model was written for."""
    src = ctx.read_repo(SRC)
    tree = ast.parse(src)
    users = 0
    for fn in ast.walk(tree):
        if not isinstance(fn, (ast.FunctionDef, ast.AsyncFunctionDef)) or fn.name == 'validate_next_page_url':
            continue
        uses = [n for n in ast.walk(fn) if isinstance(n, ast.Name) and n.id == 'next_page' and isinstance(n.ctx, ast.Load)]
        sinks = [n for n in ast.walk(fn) if (isinstance(n, ast.Call) and ast.unparse(n.func).endswith('HTTPFound') and n.args
                                             and not (isinstance(n.args[0], ast.Call) or isinstance(n.args[0], ast.Constant)
                                                      or isinstance(n.args[0], ast.JoinedStr)))]
        for k in sinks:
            a = k.args[0]
            if not (isinstance(a, ast.Name) and a.id in ('next_page', 'creating_url')) and 'next' in ast.unparse(a):
                raise TieBroken('use-sites', f'{fn.name}: redirect to `{ast.unparse(a)}` is not a validated local')
        if not uses:
            continue
        users += 1

        def blocks(node):
            for field in ('body', 'orelse', 'finalbody'):
                b = getattr(node, field, None)
                if isinstance(b, list) and b and isinstance(b[0], ast.stmt):
                    yield b
                    for st in b:
                        yield from blocks(st)
            for h in getattr(node, 'handlers', []):
                yield from blocks(h)
        n_assign = 0
        for b in blocks(fn):
            for i, st in enumerate(b):
                tg = [t for t in getattr(st, 'targets', []) if isinstance(t, ast.Name) and t.id == 'next_page']
                if isinstance(st, (ast.AugAssign, ast.AnnAssign)) and isinstance(st.target, ast.Name) and st.target.id == 'next_page':
                    raise TieBroken('use-sites', f'{fn.name}: unsupported assignment to next_page')
                if tg:
                    n_assign += 1
                    nxt = b[i + 1] if i + 1 < len(b) else None
                    if nxt is None or ast.unparse(nxt) != 'validate_next_page_url(next_page)':
                        raise TieBroken('use-sites', f'{fn.name} line {st.lineno}: `next_page` is assigned without being validated by the next statement')
        if n_assign == 0 and any(a.arg == 'next_page' for a in fn.args.args):
            raise TieBroken('use-sites', f'{fn.name}: next_page arrives as a parameter')
        if n_assign == 0:
            raise TieBroken('use-sites', f'{fn.name}: next_page used but never assigned locally')
    if users == 0:
        raise TieBroken('use-sites', 'no handler uses next_page any more')
    fn = next((n for n in ast.walk(tree) if isinstance(n, ast.FunctionDef) and n.name == 'validate_next_page_url'), None)
    if fn is None:
        raise TieBroken('validator-shape', 'validate_next_page_url not found')
    want = ["if not next_page:\n    raise web.HTTPBadRequest(text='Invalid next page: empty')",
            "valid_next_services = ['batch', 'auth', 'ci', 'monitoring']",
            "valid_next_domains = [urlparse(deploy_config.external_url(s, '/')).netloc for s in valid_next_services]",
            'actual_next_page_domain = urlparse(next_page).netloc',
            "if actual_next_page_domain not in valid_next_domains:\n    raise web.HTTPBadRequest(text='Invalid next page.')"]
    got = [ast.unparse(st) for st in fn.body]
    if got != want:
        ctx.notes.append('validate_next_page_url no longer has the shape the model was written for; relying on the correspondence')


def cps(s):
    return [ord(c) for c in s]


def coq_str(s):
    return listlit([nlit(ord(c)) for c in s])


def gen_strings(rng, n, hosts):
    D = hosts[0]
    schemes = ['http', 'https', 'HTTPS', 'hTtP', 'ftp', 'ws', 'wss', 'file', 'FILE', 'javascript', 'data', 'x-y+z.1', 'a', '', '', '', '1http',
               'ht tp', 'http ', 'h\ttp', 'https\n', 'http+', '-http']
    seps = ['//', '//', '//', '//', '/\\', '\\\\', '\\/', '/', '///', '////', ':', '', '/\t/', '//\t', '/\n/', '\\\\\\', '/ /', '//\\']
    users = ['', '', '', '', 'user@', 'a:b@', 'evil.com@', '@', 'evil.com%40', 'evil.com\\@', 'evil.com/@', D + '@', '@@']
    hs = hosts + [D] * 6 + ['evil.com', D + '.evil.com', 'evil.com#' + D, 'evil.com?' + D, 'evil.com/' + D, 'evil.com\\' + D, D.upper(),
                            'hail.example', D + '.', D + ':443', D + ':', '[' + D + ']', '[::1]', D + '%2eevil.com', D + '／evil.com',
                            D + '。evil.com', 'evil℀.com', D + '\t', D + '\x00', D + ' ', ' ' + D, '', 'localhost', '127.0.0.1', '0x7f.1',
                            'xn--80ak6aa92e.com', 'a|', 'c:', D[:-1], D + 'x', D.replace('.', '。', 1)]
    tails = ['', '', '/', '/', '/x?y#z', '\\', '?', '#', '\\@evil.com', '/@evil.com', ';', '%2f', '\t', '/..//evil.com', '/\\evil.com', '//evil.com',
             '?@evil.com', '#@evil.com', '\\\\evil.com', ':80@evil.com', '@evil.com', '.evil.com', '\t.evil.com', '\n@evil.com', ':80', ':99999',
             ':8a', '/ ', ' ', '\x1f', '/\x00', '#\t']
    ctrl = ['\t', '\n', '\r', '\x00', ' ', '\x1f', '\x0b', '\x0c', '\x7f', '\xa0', ' ', '​', '﻿', '\x01', '\x20']
    out = ['', ' ', '\t', '//' + D, 'https://' + D + '/', '//' + D + '\\@evil.com', 'javascript://' + D + '/%0aalert(1)', 'https:' + D,
           'https:/' + D, 'https:\\\\' + D, '/\\' + D, 'http:////' + D, ' \t //' + D + '/ ', '//' + D + ' ', 'file://' + D + '/x', 'file://localhost/x']
    good_tails = ['', '/', '?x=1', '#frag', '/a/b?c=d#e', '/..//evil.com', '//evil.com/', '/\\evil.com', '?@evil.com', '#@evil.com', '/@evil.com',
                  '/%2f%2fevil.com', '/;x', '/ ', '/\x00', '?\\', '#\\@evil.com/', '/' + 'a' * 30]
    while len(out) < n:
        if rng.random() < 0.35:
            # near the accepted language: [ws] [scheme:] // host tail [ws], with tabs / newlines sprinkled in
            s = rng.choice(['', '', ' ', '\x00 ', '\t', '\n ']) + rng.choice(['', '', 'https:', 'http:', 'HtTpS:', 'ftp:', 'file:', 'javascript:', 'x+y:', 'wss:'])
            s += '//' + rng.choice(hosts) + rng.choice(good_tails) + rng.choice(['', '', '', ' ', '\t', '\x1f'])
            for _ in range(rng.choice([0, 0, 1, 2])):
                i = rng.randint(0, len(s))
                s = s[:i] + rng.choice(['\t', '\n', '\r']) + s[i:]
            out.append(s)
            continue
        s = rng.choice(schemes)
        if s != '' and rng.random() < 0.9:
            s += ':'
        s += rng.choice(seps) + rng.choice(users) + rng.choice(hs) + rng.choice(tails)
        for _ in range(rng.choice([0, 0, 0, 0, 1, 1, 2, 3])):
            i = rng.randint(0, len(s))
            s = s[:i] + rng.choice(ctrl) + s[i:]
        if rng.random() < 0.12:
            i = rng.randint(0, len(s))
            s = s[:i] + rng.choice(['/', '\\', '@', ':', '#', '?', '%', '[', ']', '.', '|']) + s[i:]
        if rng.random() < 0.05 and s:
            i = rng.randint(0, len(s) - 1)
            s = s[:i] + s[i + 1:]
        out.append(s)
    return out


def _impl(ctx, strings, base_path):
    dom = 'internal.hail.example' if base_path else 'hail.example'
    return ctx.run_impl('c29_redirect.py', {'strings': [cps(s) for s in strings], 'domain': dom, 'base_path': base_path}, timeout=600)


def canon_twin(t):
    if t is None:
        return None
    k = t[0]
    if k == 'host':
        return ('BHost', cps(t[1]))
    return {'fail': 'BFail', 'base': 'BBase', 'nohost': 'BNoHost', 'other': 'BOther'}[k]


def canon_model_b(v):
    if isinstance(v, tuple) and v[0] == 'BHost':
        return ('BHost', list(v[1]))
    return v


def correspond(ctx):
    dis = []
    total = 0
    n_acc = 0
    hist = {}
    runs = []
    for hosts, base_path in ((D_SUB, None), (D_BASE, '/pr-123')):
        strings = gen_strings(ctx.rng, ctx.scale(1500, 20000), hosts)
        res = _impl(ctx, strings, base_path)
        assert res['allowed'] == (hosts if base_path is None else hosts * 4), res['allowed']
        allowed_lit = listlit([coq_str(h) for h in hosts])
        exprs = []
        for s in strings:
            c = coq_str(s)
            exprs.append(f'(py_netloc {c}, accepts {allowed_lit} {c}, browser {c})')
        model = coq_eval(ctx, HEADER, exprs, shard=250, label='c29')
        runs.append((strings, res, hosts))
        for s, r, m in zip(strings, res['results'], model):
            total += 1
            m_netloc, m_acc, m_br = m
            # (1) netloc
            real = r['netloc']
            if real == 'ValueError' or any(c in (91, 93) or c > 127 for c in real):
                real_c = None
            else:
                real_c = real
            mm = m_netloc[1] if isinstance(m_netloc, tuple) and m_netloc[0] == 'Some' else None
            if real_c != (list(mm) if mm is not None else None):
                dis.append(Disagreement('py_netloc ~ urllib.parse.urlparse(s).netloc', {'string': cps(s), 'repr': repr(s)}, mm, real))
            # (2) accept decision
            real_acc = r['accepted'] is True
            if real_acc != m_acc:
                dis.append(Disagreement('accepts ~ validate_next_page_url', {'string': cps(s), 'repr': repr(s), 'base_path': base_path}, m_acc, r['accepted']))
            if real_acc:
                n_acc += 1
            # (3) browser model ~ twin
            tw = canon_twin(r['twin_raw'])
            if canon_model_b(m_br) != tw:
                dis.append(Disagreement('browser ~ WHATWG twin used by the oracle', {'string': cps(s), 'repr': repr(s)}, canon_model_b(m_br), tw))
            k = m_br[0] if isinstance(m_br, tuple) else m_br
            hist[k] = hist.get(k, 0) + 1
    ctx._c29_runs = runs
    return Corr(evaluations=total, distinct_nontrivial=n_acc,
                rule='structure-aware adversarial strings (schemes x slash/backslash separators x userinfo x hosts x ports x tails, control/'
                     'Unicode insertions) for a sub-domain and a base-path deployment; non-trivial = strings the real validate_next_page_url accepts',
                samples=[{'string': repr(s)} for s in runs[0][0][16:19]], disagreements=dis[:20],
                histograms={'browser_outcome': dict(sorted(hist.items())), 'accepted': n_acc},
                names=['py_netloc ~ urlparse', 'accepts ~ validate_next_page_url', 'browser ~ twin'])


def oracle(ctx, budget):
    runs = getattr(ctx, '_c29_runs', None)
    if runs is None or budget > 1:
        runs = []
        for hosts, base_path in ((D_SUB, None), (D_BASE, '/pr-123')):
            strings = gen_strings(ctx.rng, ctx.scale(1500, 20000) * budget, hosts)
            runs.append((strings, _impl(ctx, strings, base_path), hosts))
    fails = []
    n = 0
    n_acc = 0
    for strings, res, hosts in runs:
        for s, r in zip(strings, res['results']):
            n += 1
            if r['accepted'] is not True:
                continue
            n_acc += 1
            for which in ('twin_raw', 'twin_location'):
                t = r[which]
                # ('base',): a relative reference, i.e. the auth service itself, which is one of the allowed hosts
                ok = t is not None and ((t[0] == 'host' and t[1] in hosts) or t[0] == 'base')
                if not ok:
                    cls = 'location-header-error' if t is None else (t[0] if t[0] != 'host' else 'foreign-host')
                    fails.append(Failure(f'{which}:{cls}', f'validate_next_page_url accepts {s!r} but the browser-side parse of '
                                         f'{"the Location header" if which == "twin_location" else "the string"} gives {t}',
                                         {'string': cps(s), 'repr': repr(s), 'hosts': hosts}, 'host in ' + str(hosts),
                                         {'parsed': t, 'location': r['location'] if isinstance(r['location'], str) else ''.join(map(chr, r['location']))}))
    # the use sites: the four real handlers that consume a next-page URL
    hstrings = []
    for strings, res, hosts in runs[:1]:
        acc = [s for s, r in zip(strings, res['results']) if r['accepted'] is True][:60]
        rej = [s for s, r in zip(strings, res['results']) if r['accepted'] is not True and s][:ctx.scale(140, 1500)]
        hstrings = acc + rej + ['https://evil.com/', '//evil.com', '/\\evil.com', 'https://' + hosts[0] + '@evil.com/', '//evil.com\\@' + hosts[0]]
        hres = ctx.run_impl('c29_redirect.py', {'strings': [], 'handler_strings': [cps(s) for s in hstrings], 'domain': 'hail.example',
                                                'base_path': None}, timeout=600)['handlers']
        idp = 'accounts.idp.example'
        stored_all = sorted({''.join(chr(c) for c in o['session_next']) for hr in hres for o in hr.values() if o.get('session_next') is not None})
        twin_of = {st: r['twin_raw'] for st, r in zip(stored_all, _impl(ctx, stored_all, None)['results'])} if stored_all else {}
        for s, hr in zip(hstrings, hres):
            for name, o in hr.items():
                n += 1
                if o.get('session_next') is not None:
                    # a next-page URL was stored for after the login: it must be one the browser takes to an allowed host
                    stored = ''.join(chr(c) for c in o['session_next'])
                    t = twin_of[stored]
                    if not ((t[0] == 'host' and t[1] in hosts) or t[0] == 'base'):
                        fails.append(Failure(f'use:{name}:stores-' + ('foreign-host' if t[0] == 'host' else t[0]), f'{name} stores next={stored!r} in the session although the browser '
                                             f'would take it to {t}', {'string': cps(s), 'repr': repr(s), 'hosts': hosts, 'handler': name},
                                             'HTTP 400', o))
                if o['outcome'] == 'redirect':
                    t = o['twin']
                    if not ((t[0] == 'host' and (t[1] in hosts or t[1] == idp)) or t[0] == 'base'):
                        fails.append(Failure(f'use:{name}:redirects-' + ('foreign-host' if t[0] == 'host' else t[0]), f'{name} redirects to {"".join(map(chr, o["location"]))!r} '
                                             f'(browser host {t}) for next={s!r}', {'string': cps(s), 'repr': repr(s), 'hosts': hosts, 'handler': name},
                                             'redirect to an allowed host or HTTP 400', o))
    by = {}
    for f in fails:
        if f.key not in by or len(f.case['string']) < len(by[f.key].case['string']):
            by[f.key] = f
    ordered = sorted(by.values(), key=lambda f: (0 if 'foreign-host' in f.key else 1, f.key))
    return ordered, {'evaluations': n, 'distinct_nontrivial': n_acc, 'histograms': {'handler_strings': len(hstrings)},
                               'rule': 'oracle: strings accepted by the real validate_next_page_url (non-trivial), raw and as Location header of the real '
                                       'aiohttp HTTPFound, parsed by the WHATWG twin'}


def replay(ctx, doc):
    case = doc.get('case') or doc
    s = ''.join(chr(c) for c in case['string'])
    hosts = case.get('hosts', D_SUB)
    res = _impl(ctx, [s], None if hosts == D_SUB else '/pr-123')
    return {'string': repr(s), 'result': res['results'][0], 'allowed': res['allowed']}
