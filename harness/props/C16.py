"""C16 — worker CPU semaphore (batch/batch/semaphore.py::FIFOWeightedSemaphore) is safe, FIFO and live.

Model coq/theories/SemFifo/Model.v (init/step, one constructor per harness action); theorems for ALL action lists in
Props_C16.v.  Tie X: the real class, entered through its context manager exactly as worker.Job.run does
(`async with self.worker.cpu_sem(self.cpu_in_mcpu)`), runs on the deterministic asyncio loop on the same schedules as
the model (vm_compute); the observable state (value, queue with job ids and weights in order, who is inside the body,
order of entry into the bodies) is compared after every Settle.  Oracle: capacity / FIFO / no-lost-wake-up judged only from what the jobs
experience (who is in a body, who is blocked), never from the semaphore's fields.
"""
from harness.core import Corr, Disagreement, Failure, coq_eval, zlit, listlit

ID = 'C16'
SRC = 'batch/batch/semaphore.py'
COQ_PROPS = 'theories/SemFifo/Props_C16.v'
READY = True
META = dict(
    design_ref='§5.C C16',
    technique='Coq proof (invariant induction over arbitrary action lists) about a hand-written executable model of '
              'FIFOWeightedSemaphore; correspondence of the model with the real class on a deterministic asyncio loop',
    level_text='Machine-checked theorems (Coq 8.16, closed under the global context) over ALL lists of Acquire(w)/Release(i)/Settle '
               'actions, any number of jobs, any capacity: free value + granted weights = capacity and (weights >= 0) the granted '
               'weights never exceed the capacity; the jobs granted so far are exactly the first k arrivals in arrival order and the '
               'queue is exactly the rest in arrival order; grants are never revoked; after every action a queued head has weight '
               'strictly larger than the free capacity (no lost wake-up); with weights <= capacity nobody waits when no one holds. '
               'The model is tied to the source by running the real class (via its context manager, real asyncio tasks and Events) '
               'and the model on the same schedules and comparing value, queue (ids and weights, in order), holders and body-entry order '
               'after every settle: exhaustive small scope plus seeded random schedules plus LARGE-POPULATION schedules (bursts of 1..300 '
               '(thorough 513) simultaneous waiters behind a holder around every power of two, unit/whole-machine/half-machine weights, and '
               'random mixed-weight acquire/release crowds held at 65..300 simultaneous waiters, each drained to the end), so that any bound '
               'on the number of waiters, or behaviour that only appears with long queues, shows up in the tie and in the oracle.',
    level_note='The theorems are about the hand model; the tie to batch/batch/semaphore.py is the correspondence run (sampled), not a '
               'translation. Cancellation of waiters is outside the property (its quantifier is acquire/release interleavings) and is '
               'not modelled. Trusted: Coq kernel, CPython asyncio, harness/aio/detloop.py, harness/impl/c16_fifo.py.',
    partial=False,
)
TRUSTED = ['harness/aio/detloop.py (deterministic stepping of a real asyncio SelectorEventLoop; CPython private attributes)',
           'harness/impl/c16_fifo.py (job coroutine `async with sem(w): await gate.wait()`; mapping queue entries to job ids via Event._waiters / Task._fut_waiter)',
           'CPython 3.12 asyncio (FIFO ready queue, Event) as the semantics of the implementation']
ASSUMPTIONS = ['acquire up to its await and release contain no suspension point, hence are atomic under asyncio: an interleaving of jobs is a list of Acquire/Release/Settle actions',
               'only a job inside its `async with` body releases (Release of any other job is ignored by model and harness alike)',
               'waiter cancellation is excluded (as in the property text)']

HEADER = 'From HailV Require Import Common.Prelude SemFifo.Model.\nOpen Scope Z_scope.'


# ------------------------------------------------------------------------------------------------
# schedules.  A tiny reference simulation is used ONLY to enumerate schedules whose Release actions hit a holder
# (it decides coverage, never a verdict).

class _Ref:
    def __init__(self, cap):
        self.value, self.queue, self.granted, self.holding, self.n = cap, [], [], [], 0

    def copy(self):
        r = _Ref(0)
        r.value, r.queue, r.granted, r.holding, r.n = self.value, list(self.queue), list(self.granted), list(self.holding), self.n
        return r

    def do(self, a):
        if a[0] == 'a':
            w = a[1]
            if not self.queue and self.value >= w:
                self.value -= w
                self.granted.append((self.n, w))
            else:
                self.queue.append((self.n, w))
            self.n += 1
        elif a[0] == 'r':
            for k, (i, w) in enumerate(self.holding):
                if i == a[1]:
                    del self.holding[k]
                    self.value += w
                    while self.queue and self.value >= self.queue[0][1]:
                        e = self.queue.pop(0)
                        self.value -= e[1]
                        self.granted.append(e)
                    break
        else:
            self.holding += self.granted
            self.granted = []


def enum_settled(cap, weights, max_jobs, length):
    """All schedules of `length` acquire/release actions, each followed by Settle (prefixes are covered by the traces)."""
    out = []

    def rec(ref, acts, left):
        if left == 0:
            out.append(acts)
            return
        opts = [['a', w] for w in weights] if ref.n < max_jobs else []
        opts += [['r', i] for i, _ in ref.holding]
        if not opts:
            out.append(acts)
            return
        for a in opts:
            r2 = ref.copy()
            r2.do(a)
            r2.do(['s'])
            rec(r2, acts + [a, ['s']], left - 1)
    rec(_Ref(cap), [], length)
    return out


def enum_burst(cap, weights, max_jobs, length):
    """All schedules of `length` actions in which Settle is an explicit action (several acquires/releases may pile up
    in the ready queue before the loop runs); a final Settle is appended."""
    out = []

    def rec(ref, acts, left, dirty):
        if left == 0:
            out.append(acts + [['s']])
            return
        opts = [['a', w] for w in weights] if ref.n < max_jobs else []
        opts += [['r', i] for i, _ in ref.holding]
        if dirty:
            opts.append(['s'])
        if not opts:
            out.append(acts + [['s']])
            return
        for a in opts:
            r2 = ref.copy()
            r2.do(a)
            rec(r2, acts + [a], left - 1, a[0] != 's')
    rec(_Ref(cap), [], length, False)
    return out


def random_schedule(rng, cap, n):
    ref = _Ref(cap)
    acts = []
    wmax = max(cap, 1)
    for _ in range(n):
        x = rng.random()
        if x < 0.40:
            w = rng.choice([1, wmax, rng.randint(1, wmax), rng.randint(1, wmax), max(1, wmax // 2)])
            a = ['a', w]
        elif x < 0.75 and ref.holding:
            a = ['r', rng.choice(ref.holding)[0]]
        elif x < 0.80:
            a = ['r', rng.randint(0, ref.n + 1)]          # possibly a non-holder: must be ignored on both sides
        else:
            a = ['s']
        ref.do(a)
        acts.append(a)
        if a[0] != 's' and rng.random() < 0.5:
            ref.do(['s'])
            acts.append(['s'])
    acts.append(['s'])
    return {'cap': cap, 'acts': acts}


# Large populations: the worker's semaphore has no bound on the number of waiters (a 16-core worker that is fully
# occupied keeps receiving jobs), so the schedules must not stop at a handful of jobs.  These are few but long; the
# model side gets them as one numeral (decode) and only fingerprints are compared.

_W_CORES = [250, 250, 250, 250, 500, 500, 1000, 2000, 4000, 8000, 16000]


def _drain(ref, acts, rng, group):
    """Release every holder (in groups of `group`, or random group sizes when group is None) until nobody holds or
    nobody can be admitted any more; Settle after each group."""
    ref.do(['s'])
    acts.append(['s'])
    guard = 0
    while ref.holding and guard < 5000:
        guard += 1
        k = group if group is not None else rng.choice([1, 1, 2, 3, 8, 64])
        ids = [i for i, _ in ref.holding]
        if group is None:
            rng.shuffle(ids)
        for i in ids[:k]:
            a = ['r', i]
            ref.do(a)
            acts.append(a)
        ref.do(['s'])
        acts.append(['s'])


def burst_schedule(n, cap, w_hold, w, group):
    """A job of weight w_hold occupies the semaphore; n jobs of weight w arrive behind it while it runs (so that n of
    them wait at the same time when w_hold + w > cap); then everybody is released, `group` holders at a time."""
    ref, acts = _Ref(cap), []
    for a in [['a', w_hold], ['s']] + [['a', w]] * n:
        ref.do(a)
        acts.append(a)
    _drain(ref, acts, None, group)
    return {'cap': cap, 'acts': acts}


def crowd_schedule(rng, target):
    """Mixed weights, mixed acquire/release: arrivals dominate until `target` jobs wait simultaneously, then a long
    balanced phase of arrivals and departures at that population, then everything drains."""
    cap = rng.choice([16000, 16000, 8000, 4000, 1000])
    ws = [w for w in _W_CORES if w <= cap]
    ref, acts = _Ref(cap), []

    def do(a):
        ref.do(a)
        acts.append(a)
        if a[0] != 's' and rng.random() < 0.08:
            do(['s'])

    guard = 0
    while len(ref.queue) < target and guard < 20 * target:
        guard += 1
        if rng.random() < 0.9 or not ref.holding:
            do(['a', rng.choice(ws)])
        else:
            do(['r', rng.choice(ref.holding)[0]])
    for _ in range(rng.choice([40, 120])):
        if rng.random() < 0.5 or not ref.holding:
            do(['a', rng.choice(ws)])
        else:
            do(['r', rng.choice(ref.holding)[0]])
    _drain(ref, acts, rng, None)
    return {'cap': cap, 'acts': acts}


def large_schedules(ctx):
    out = []
    # quarter-core jobs behind a whole-machine job on a 16-core worker, around every power of two up to 300 waiters
    for n in ctx.scale([1, 31, 32, 33, 63, 64, 65, 66, 100, 127, 128, 129, 200, 255, 256, 257, 300],
                       [1, 15, 16, 17, 31, 32, 33, 63, 64, 65, 66, 100, 127, 128, 129, 200, 255, 256, 257, 300, 400, 511, 512, 513]):
        out.append(('large-burst', burst_schedule(n, 16000, 16000, 250, 64)))
    # unit semaphore: each release admits exactly the next waiter
    for n in ctx.scale([65, 130], [65, 130, 260, 330]):
        out.append(('large-burst', burst_schedule(n, 1, 1, 1, 1)))
    # whole-machine jobs only; half-machine jobs released two at a time
    out.append(('large-burst', burst_schedule(ctx.scale(70, 300), 16000, 16000, 16000, 1)))
    out.append(('large-burst', burst_schedule(ctx.scale(150, 400), 16000, 8000, 8000, 2)))
    for k in range(ctx.scale(16, 80)):
        target = ctx.rng.choice([65, 70, 100, 130, 200, 300])
        sc = crowd_schedule(ctx.rng, target)
        while len(sc['acts']) > 1250:           # keep one schedule within what coqc's stack evaluates (see below)
            target = max(65, target // 2)
            sc = crowd_schedule(ctx.rng, target)
        out.append(('large-mixed', sc))
    # coqc's stack limits one vm_compute'd schedule to ~1500 actions (measured: 1060 fine, 1565 overflows)
    too_long = [len(s['acts']) for _, s in out if len(s['acts']) > 1300]
    if too_long:
        raise RuntimeError(f'C16: large schedule of {too_long} actions exceeds what the model side can evaluate')
    return out


def corpus_schedules():
    import glob, json, os
    extra = []
    for f in sorted(glob.glob(os.path.join(os.path.dirname(__file__), '..', '..', 'corpus', ID, '*.json'))):
        for d in json.load(open(f)):
            extra.append({'cap': d['cap'], 'acts': d['acts']})
    return extra + [
        # equal-to-capacity hand-over, the classic lost-wake-up shape (value == head weight after a release)
        {'cap': 3, 'acts': [['a', 3], ['s'], ['a', 3], ['a', 1], ['s'], ['r', 0], ['s'], ['r', 1], ['s'], ['r', 2], ['s']]},
        # small job must not overtake a big queued one (FIFO, no barging)
        {'cap': 3, 'acts': [['a', 2], ['s'], ['a', 2], ['s'], ['a', 1], ['s'], ['r', 0], ['s'], ['r', 1], ['s']]},
        # one release wakes several waiters; two releases pile up before the loop runs
        {'cap': 4, 'acts': [['a', 2], ['a', 2], ['s'], ['a', 1], ['a', 1], ['a', 2], ['a', 3], ['s'], ['r', 0], ['r', 1], ['s'], ['r', 2], ['r', 3], ['r', 4], ['s']]},
        # weight larger than capacity blocks everybody behind it for ever; zero weight
        {'cap': 2, 'acts': [['a', 3], ['a', 1], ['s'], ['a', 0], ['s']]},
        {'cap': 0, 'acts': [['a', 0], ['a', 1], ['s'], ['r', 0], ['s']]},
    ]


def all_schedules(ctx):
    """[(class, schedule)] — deterministic order: corpus, exhaustive settled, exhaustive burst, random, large populations."""
    out = [('corpus', s) for s in corpus_schedules()]
    L = ctx.scale(7, 9)
    out += [('settled', {'cap': 3, 'acts': a}) for a in enum_settled(3, [1, 2, 3], ctx.scale(4, 5), L)]
    out += [('settled', {'cap': 2, 'acts': a}) for a in enum_settled(2, [1, 2], 5, L)]
    out += [('burst', {'cap': 3, 'acts': a}) for a in enum_burst(3, [1, 2, 3], ctx.scale(3, 4), ctx.scale(7, 8))]
    nrand = ctx.scale(300, 3000)
    for k in range(nrand):
        cap = ctx.rng.choice([1, 2, 3, 4, 5, 8, 16, 1000, 8000])
        out.append(('random', random_schedule(ctx.rng, cap, ctx.rng.choice([10, 30, 60, 200 if k % 10 == 0 else 40]))))
    out += large_schedules(ctx)
    return out


# ------------------------------------------------------------------------------------------------

def coq_actions(acts):
    items = []
    for a in acts:
        if a[0] == 'a':
            items.append(f'Acquire {zlit(a[1])}')
        elif a[0] == 'r':
            items.append(f'Release {a[1]}%nat')
        else:
            items.append('Settle')
    return listlit(items)


def model_traces(ctx, schedules):
    # short schedules as readable action lists; long ones through decode (a list literal costs milliseconds per action)
    exprs = [f'trace (init {zlit(s["cap"])}) ' + (coq_actions(s["acts"]) if len(s["acts"]) <= 60 else f'(decode {len(s["acts"])} {hex(encode(s["acts"]))})')
             for s in schedules]
    vals = coq_eval(ctx, HEADER, exprs, shard=100 if sum(len(s["acts"]) for s in schedules) <= 2000 else 4)
    return [[[v, [list(e) for e in q], sorted(h), list(g)] for (v, q, h, g) in tr] for tr in vals]


_P = 2305843009213693951


def encode(acts):
    z = 0
    for k, a in enumerate(acts):
        if a[0] == 's':
            d = 1
        elif a[0] == 'a':
            d = 2 + 4 * a[1]
        else:
            d = 3 + 4 * a[1]
        assert 0 < d < 2 ** 20 and (a[0] == 's' or a[1] >= 0)
        z |= d << (20 * k)
    return z


def fingerprint(trace):
    """Same function as SemFifo.Model.fingerprint, computed from the implementation's observations."""
    h, seen = 7, 0
    for v, q, hold, elog in trace:
        xs = [v, len(q)]
        for i, w in q:
            xs += [i, w]
        xs += [len(hold)] + sorted(hold) + [len(elog)] + list(elog[seen:])
        seen = len(elog)
        for x in xs:
            h = (h * 131 + x + 7) & _P
    return h


def model_fingerprints(ctx, schedules, n_sh=8):
    exprs = [f'fingerprint {zlit(s["cap"])} (decode {len(s["acts"])} {hex(encode(s["acts"]))})' for s in schedules]   # hex: long schedules are numerals of thousands of digits
    order = sorted(range(len(exprs)), key=lambda k: -len(schedules[k]['acts']))
    perm = [k for r in range(n_sh) for k in order[r::n_sh]]
    vals = coq_eval(ctx, HEADER, [exprs[k] for k in perm], shard=max(1, (len(exprs) + n_sh - 1) // n_sh), label='fp')
    out = [None] * len(exprs)
    for k, v in zip(perm, vals):
        out[k] = v
    return out


def impl_results(ctx, schedules):
    return ctx.run_impl('c16_fifo.py', {'schedules': schedules}, timeout=900)['results']


def correspond(ctx):
    tagged = all_schedules(ctx)
    schedules = [s for _, s in tagged]
    impl = impl_results(ctx, schedules)
    fps = model_fingerprints(ctx, schedules)
    differing = [k for k, (fp, r) in enumerate(zip(fps, impl)) if fp != fingerprint(r['trace'])]
    differing.sort(key=lambda k: len(schedules[k]['acts']))
    chosen, tot = [], 0              # full traces of the shortest differing schedules (bounded work: long ones keep 'fingerprint differs')
    for k in differing[:30]:
        tot += len(schedules[k]['acts'])
        if chosen and tot > 3000:
            break
        chosen.append(k)
    full = dict(zip(chosen, model_traces(ctx, [schedules[k] for k in chosen])))
    dis = []
    hist = {}
    n_obs = 0
    nontrivial = set()
    max_wait = max((len(o[1]) for r in impl for o in r['trace']), default=0)
    for (tag, s), r in zip(tagged, impl):
        hist[tag] = hist.get(tag, 0) + 1
        n_obs += len(r['trace'])
        if any(o[1] for o in r['trace']):            # some observation with a non-empty queue: blocking actually happened
            nontrivial.add(str(s))
    for k in differing:
        s, r = schedules[k], impl[k]
        if k in full:
            m = full[k]
            j = next((j for j, (x, y) in enumerate(zip(m, r['trace'])) if x != y), min(len(m), len(r['trace'])))
            dis.append(Disagreement('SemFifo.trace~FIFOWeightedSemaphore', {'schedule': s, 'first_diff_at_settle': j},
                                    m[j] if j < len(m) else None, r['trace'][j] if j < len(r['trace']) else None))
        else:
            dis.append(Disagreement('SemFifo.trace~FIFOWeightedSemaphore', {'schedule': s}, 'fingerprint differs', r['trace'][-1] if r['trace'] else None))
    ctx._c16_cache = (tagged, impl)
    return Corr(evaluations=len(schedules), distinct_nontrivial=len(nontrivial),
                rule='one evaluation = one schedule run on the real FIFOWeightedSemaphore (DetLoop) and on the Coq model (vm_compute; fingerprint of the whole trace, differing schedules re-evaluated in full), '
                     'all observations (value, queue ids+weights in order, set of holders, order of entry into the bodies) after every Settle compared; '
                     'non-trivial = distinct schedule in which some job actually blocked; '
                     f'{n_obs} observations compared; exhaustive classes: settled cap3/w123/4 jobs (thorough 5)/7 actions (thorough 9), settled cap2/w12/5 jobs, burst cap3/3 jobs (thorough 4); '
                     f'large populations: up to {max_wait} jobs waiting simultaneously',
                samples=[{'schedule': s, 'trace': r['trace']} for (_, s), r in list(zip(tagged, impl))[:2] + list(zip(tagged, impl))[-1:]],
                disagreements=dis, histograms={'schedule_class': hist, 'max_simultaneous_waiters': max_wait},
                exhaustive=True, names=['SemFifo.trace~FIFOWeightedSemaphore'])


def _failures(tagged, impl):
    fails = []
    for (tag, s), r in zip(tagged, impl):
        for v in r['viol']:
            fails.append(Failure(v['kind'], {
                'capacity': 'jobs inside `async with cpu_sem(w)` bodies hold more than the capacity',
                'fifo': 'at a quiescent point the admitted jobs are not the first k arrivals, or waiting jobs were admitted out of arrival order',
                'lost-wakeup': 'the longest-waiting blocked job fits into the free capacity but is still blocked after the loop settled',
                'job-raised': 'a job raised inside acquire/release'}.get(v['kind'], v['kind']),
                s, None, v))
    # shortest witness first for each kind
    fails.sort(key=lambda f: (f.key, len(f.case['acts'])))
    return fails


def oracle(ctx, budget):
    cache = getattr(ctx, '_c16_cache', None)
    if cache is None or budget > 1:
        tagged = all_schedules(ctx)
        if budget > 1:
            for k in range(ctx.scale(600, 3000) * budget):
                cap = ctx.rng.choice([1, 2, 3, 4, 5, 8])
                tagged.append(('random', random_schedule(ctx.rng, cap, ctx.rng.choice([8, 15, 30]))))
        impl = impl_results(ctx, [s for _, s in tagged])
    else:
        tagged, impl = cache
    fails = _failures(tagged, impl)
    return fails, {'evaluations': len(tagged), 'distinct_nontrivial': len({str(s) for _, s in tagged}),
                   'rule': 'oracle: capacity (sum of weights of jobs inside bodies <= cap, checked at every entry and settle), FIFO (after settle the admitted jobs are exactly the first k arrivals; '
                           'jobs that waited were admitted in arrival order), no lost wake-up (after settle the oldest blocked job does not fit) — judged from the jobs only',
                   'samples': [{'schedule': tagged[0][1], 'violations': impl[0]['viol']}]}


def replay(ctx, doc):
    s = doc['case']['schedule'] if isinstance(doc.get('case'), dict) and 'schedule' in doc['case'] else doc['case']
    r = impl_results(ctx, [s])[0]
    return {'schedule': s, 'impl_trace': r['trace'], 'impl_property_violations': r['viol'], 'model_trace': model_traces(ctx, [s])[0]}
