"""C16 — worker CPU semaphore (batch/batch/semaphore.py::FIFOWeightedSemaphore) is safe, FIFO and live.

Model coq/theories/SemFifo/Model.v (init/step, one constructor per harness action); theorems for ALL action lists in
Props_C16.v.  Tie X: the real class, entered through its context manager exactly as worker.Job.run does
(`async with self.worker.cpu_sem(self.cpu_in_mcpu)`), runs on the deterministic asyncio loop on the same schedules as
the model (vm_compute); the observable state (value, queue with job ids and weights in order, who is inside the body,
order of entry into the bodies) is compared after every Settle.  Oracle: capacity / FIFO / no-lost-wake-up judged only from what the jobs
experience (who is in a body, who is blocked), never from the semaphore's fields.

The worker's USE of the semaphore (batch/batch/worker/worker.py: `async with self.worker.cpu_sem(self.cpu_in_mcpu)` in
DockerJob.run / JVMJob.run) with task cancellation at every await point: model coq/theories/SemFifo/Use.v (Spawn / Finish /
Cancel / USettle over asyncio's ready queue; reservation pattern AcquireThenTry | AcquireInTry as a parameter), theorems in
Props_C16.v (C16_use_*).  Tie T: harness/impl/c16_usesite.py classifies EVERY occurrence of `cpu_sem` in worker.py (fail
closed) and checks the context manager of semaphore.py; the pattern of every use site goes to coq/generated/C16/Gen.v and the
theorems are stated for the generated sites.  Tie X + oracle: harness/impl/c16_use.py extracts the real run() methods (body of
the reservation replaced by a harness body) and every helper the reservation goes through, verbatim, and runs them with the
real semaphore, real tasks and real task.cancel() on the deterministic loop.
"""
from harness.core import Corr, Disagreement, Failure, TieBroken, coq_eval, zlit, listlit
from harness.impl import c16_usesite

ID = 'C16'
SRC = ['batch/batch/semaphore.py', 'batch/batch/worker/worker.py']
COQ_PROPS = 'theories/SemFifo/Props_C16.v'
READY = True
META = dict(
    design_ref='§5.C C16',
    technique='Coq proof (invariant induction over arbitrary action lists) about a hand-written executable model of '
              'FIFOWeightedSemaphore; correspondence of the model with the real class on a deterministic asyncio loop; '
              'for the worker: model of the use pattern with cancellation whose pattern parameter is regenerated from worker.py by a '
              'fail-closed AST walker, correspondence with the reservation code extracted from worker.py',
    level_text='Machine-checked theorems (Coq 8.16, closed under the global context) over ALL lists of Acquire(w)/Release(i)/Settle '
               'actions, any number of jobs, any capacity: free value + granted weights = capacity and (weights >= 0) the granted '
               'weights never exceed the capacity; the jobs granted so far are exactly the first k arrivals in arrival order and the '
               'queue is exactly the rest in arrival order; grants are never revoked; after every action a queued head has weight '
               'strictly larger than the free capacity (no lost wake-up); with weights <= capacity nobody waits when no one holds. '
               'The model is tied to the source by running the real class (via its context manager, real asyncio tasks and Events) '
               'and the model on the same schedules and comparing value, queue (ids and weights, in order), holders and body-entry order '
               'after every settle: exhaustive small scope plus seeded random schedules plus LARGE-POPULATION schedules (bursts of 1..300 '
               '(thorough 513) simultaneous waiters behind a holder around every power of two, unit/whole-machine/half-machine weights, and '
               'random mixed-weight acquire/release crowds held at 65..300 simultaneous waiters, each drained to the end), so that any bound '
               'on the number of waiters, or behaviour that only appears with long queues, shows up in the tie and in the oracle. '
               'WORKER LEVEL (worker.py): every use of cpu_sem is classified from the source on every run; proved for the generated use sites, '
               'for ALL lists of Spawn(w)/Finish(i)/Cancel(i)/Settle actions and after any number of further single task steps (i.e. at every await '
               'point; cancellation before the first step, while queued at the head or behind others, after the grant but before resuming, inside the '
               'body, after the end, repeatedly): the jobs inside their bodies never weigh more than the capacity (C16_use_capacity); free value + '
               'running + granted-not-yet-resumed + taken-for-dead-tasks = capacity, nothing is released that was not acquired, and every grant is '
               'released exactly once or still held or went to a task cancelled inside acquire (C16_use_grants_match_releases); the model refutes the '
               'acquire-inside-the-guard pattern (C16_use_acquire_inside_guard_unsafe). The use model is tied by running the real reservation code '
               'extracted from worker.py (both job classes, helpers verbatim) with real task.cancel() against the model: exhaustive small scope '
               '(settled and batched) plus random schedules, value / deque incl. dead entries / running jobs / entry order compared after every settle.',
    level_note='The theorems are about the hand model; the tie to batch/batch/semaphore.py is the correspondence run (sampled), not a '
               'translation. Cancellation: the property text quantifies over acquire/release interleavings; under cancellation only the SAFETY clause '
               '(never more than the capacity; grants match releases) is claimed and checked at the worker level. Faithful to the code, a waiter '
               'cancelled while queued leaves its entry in the deque and the weight later granted to it is lost for good '
               '(C16_use_cancelled_waiter_loses_capacity states this limit): FIFO/liveness under cancellation are NOT claimed. The body of run() is '
               'replaced by a harness body (only the reservation statement and its helpers are real code). Trusted: Coq kernel, CPython asyncio, harness/aio/detloop.py, harness/impl/c16_fifo.py, '
               'harness/impl/c16_usesite.py (AST walker), harness/impl/c16_use.py.',
    partial=False,
)
TRUSTED = ['harness/aio/detloop.py (deterministic stepping of a real asyncio SelectorEventLoop; CPython private attributes)',
           'harness/impl/c16_fifo.py (job coroutine `async with sem(w): await gate.wait()`; mapping queue entries to job ids via Event._waiters / Task._fut_waiter)',
           'CPython 3.12 asyncio (FIFO ready queue, Event, Task.cancel) as the semantics of the implementation',
           'harness/impl/c16_usesite.py (classification of every `cpu_sem` occurrence in worker.py; syntactic check of FIFOWeightedSemaphoreContextManager)',
           'harness/impl/c16_use.py (run() cut down to the reservation statement by AST; unknown globals of extracted helpers are inert stubs)']
ASSUMPTIONS = ['acquire up to its await and release contain no suspension point, hence are atomic under asyncio: an interleaving of jobs is a list of Acquire/Release/Settle actions',
               'only a job inside its `async with` body releases (Release of any other job is ignored by model and harness alike)',
               'semaphore level: waiter cancellation is excluded (as in the property text); worker level: cancellation anywhere, safety only',
               'worker level: the semaphore is used only through the recognised use sites (every textual occurrence of cpu_sem in worker.py is classified; other modules are not scanned)',
               'asyncio model of Use.v: Task.cancel() cancels the awaited future at once and delivers CancelledError at the task\'s next step in FIFO ready order']

HEADER = 'From HailV Require Import Common.Prelude SemFifo.Model.\nOpen Scope Z_scope.'


# ------------------------------------------------------------------------------------------------
# schedules.  A tiny reference simulation is used ONLY to enumerate schedules whose Release actions hit a holder
# (it decides coverage, never a verdict).

class _Ref:
    def __init__(self, cap):
        self.value, self.queue, self.granted, self.holding, self.n = cap, [], [], [], 0

    def copy(self):
        r = _Ref(0)
        r.value, r.queue, r.granted, r.holding, r.n = self.value, list(self.queue), list(self.granted), list(self.holding), self.n
        return r

    def do(self, a):
        if a[0] == 'a':
            w = a[1]
            if not self.queue and self.value >= w:
                self.value -= w
                self.granted.append((self.n, w))
            else:
                self.queue.append((self.n, w))
            self.n += 1
        elif a[0] == 'r':
            for k, (i, w) in enumerate(self.holding):
                if i == a[1]:
                    del self.holding[k]
                    self.value += w
                    while self.queue and self.value >= self.queue[0][1]:
                        e = self.queue.pop(0)
                        self.value -= e[1]
                        self.granted.append(e)
                    break
        else:
            self.holding += self.granted
            self.granted = []


def enum_settled(cap, weights, max_jobs, length):
    """All schedules of `length` acquire/release actions, each followed by Settle (prefixes are covered by the traces)."""
    out = []

    def rec(ref, acts, left):
        if left == 0:
            out.append(acts)
            return
        opts = [['a', w] for w in weights] if ref.n < max_jobs else []
        opts += [['r', i] for i, _ in ref.holding]
        if not opts:
            out.append(acts)
            return
        for a in opts:
            r2 = ref.copy()
            r2.do(a)
            r2.do(['s'])
            rec(r2, acts + [a, ['s']], left - 1)
    rec(_Ref(cap), [], length)
    return out


def enum_burst(cap, weights, max_jobs, length):
    """All schedules of `length` actions in which Settle is an explicit action (several acquires/releases may pile up
    in the ready queue before the loop runs); a final Settle is appended."""
    out = []

    def rec(ref, acts, left, dirty):
        if left == 0:
            out.append(acts + [['s']])
            return
        opts = [['a', w] for w in weights] if ref.n < max_jobs else []
        opts += [['r', i] for i, _ in ref.holding]
        if dirty:
            opts.append(['s'])
        if not opts:
            out.append(acts + [['s']])
            return
        for a in opts:
            r2 = ref.copy()
            r2.do(a)
            rec(r2, acts + [a], left - 1, a[0] != 's')
    rec(_Ref(cap), [], length, False)
    return out


def random_schedule(rng, cap, n):
    ref = _Ref(cap)
    acts = []
    wmax = max(cap, 1)
    for _ in range(n):
        x = rng.random()
        if x < 0.40:
            w = rng.choice([1, wmax, rng.randint(1, wmax), rng.randint(1, wmax), max(1, wmax // 2)])
            a = ['a', w]
        elif x < 0.75 and ref.holding:
            a = ['r', rng.choice(ref.holding)[0]]
        elif x < 0.80:
            a = ['r', rng.randint(0, ref.n + 1)]          # possibly a non-holder: must be ignored on both sides
        else:
            a = ['s']
        ref.do(a)
        acts.append(a)
        if a[0] != 's' and rng.random() < 0.5:
            ref.do(['s'])
            acts.append(['s'])
    acts.append(['s'])
    return {'cap': cap, 'acts': acts}


# Large populations: the worker's semaphore has no bound on the number of waiters (a 16-core worker that is fully
# occupied keeps receiving jobs), so the schedules must not stop at a handful of jobs.  These are few but long; the
# model side gets them as one numeral (decode) and only fingerprints are compared.

_W_CORES = [250, 250, 250, 250, 500, 500, 1000, 2000, 4000, 8000, 16000]


def _drain(ref, acts, rng, group):
    """Release every holder (in groups of `group`, or random group sizes when group is None) until nobody holds or
    nobody can be admitted any more; Settle after each group."""
    ref.do(['s'])
    acts.append(['s'])
    guard = 0
    while ref.holding and guard < 5000:
        guard += 1
        k = group if group is not None else rng.choice([1, 1, 2, 3, 8, 64])
        ids = [i for i, _ in ref.holding]
        if group is None:
            rng.shuffle(ids)
        for i in ids[:k]:
            a = ['r', i]
            ref.do(a)
            acts.append(a)
        ref.do(['s'])
        acts.append(['s'])


def burst_schedule(n, cap, w_hold, w, group):
    """A job of weight w_hold occupies the semaphore; n jobs of weight w arrive behind it while it runs (so that n of
    them wait at the same time when w_hold + w > cap); then everybody is released, `group` holders at a time."""
    ref, acts = _Ref(cap), []
    for a in [['a', w_hold], ['s']] + [['a', w]] * n:
        ref.do(a)
        acts.append(a)
    _drain(ref, acts, None, group)
    return {'cap': cap, 'acts': acts}


def crowd_schedule(rng, target):
    """Mixed weights, mixed acquire/release: arrivals dominate until `target` jobs wait simultaneously, then a long
    balanced phase of arrivals and departures at that population, then everything drains."""
    cap = rng.choice([16000, 16000, 8000, 4000, 1000])
    ws = [w for w in _W_CORES if w <= cap]
    ref, acts = _Ref(cap), []

    def do(a):
        ref.do(a)
        acts.append(a)
        if a[0] != 's' and rng.random() < 0.08:
            do(['s'])

    guard = 0
    while len(ref.queue) < target and guard < 20 * target:
        guard += 1
        if rng.random() < 0.9 or not ref.holding:
            do(['a', rng.choice(ws)])
        else:
            do(['r', rng.choice(ref.holding)[0]])
    for _ in range(rng.choice([40, 120])):
        if rng.random() < 0.5 or not ref.holding:
            do(['a', rng.choice(ws)])
        else:
            do(['r', rng.choice(ref.holding)[0]])
    _drain(ref, acts, rng, None)
    return {'cap': cap, 'acts': acts}


def large_schedules(ctx):
    out = []
    # quarter-core jobs behind a whole-machine job on a 16-core worker, around every power of two up to 300 waiters
    for n in ctx.scale([1, 31, 32, 33, 63, 64, 65, 66, 100, 127, 128, 129, 200, 255, 256, 257, 300],
                       [1, 15, 16, 17, 31, 32, 33, 63, 64, 65, 66, 100, 127, 128, 129, 200, 255, 256, 257, 300, 400, 511, 512, 513]):
        out.append(('large-burst', burst_schedule(n, 16000, 16000, 250, 64)))
    # unit semaphore: each release admits exactly the next waiter
    for n in ctx.scale([65, 130], [65, 130, 260, 330]):
        out.append(('large-burst', burst_schedule(n, 1, 1, 1, 1)))
    # whole-machine jobs only; half-machine jobs released two at a time
    out.append(('large-burst', burst_schedule(ctx.scale(70, 300), 16000, 16000, 16000, 1)))
    out.append(('large-burst', burst_schedule(ctx.scale(150, 400), 16000, 8000, 8000, 2)))
    for k in range(ctx.scale(16, 80)):
        target = ctx.rng.choice([65, 70, 100, 130, 200, 300])
        sc = crowd_schedule(ctx.rng, target)
        while len(sc['acts']) > 1250:           # keep one schedule within what coqc's stack evaluates (see below)
            target = max(65, target // 2)
            sc = crowd_schedule(ctx.rng, target)
        out.append(('large-mixed', sc))
    # coqc's stack limits one vm_compute'd schedule to ~1500 actions (measured: 1060 fine, 1565 overflows)
    too_long = [len(s['acts']) for _, s in out if len(s['acts']) > 1300]
    if too_long:
        raise RuntimeError(f'C16: large schedule of {too_long} actions exceeds what the model side can evaluate')
    return out


def corpus_schedules():
    import glob, json, os
    extra = []
    for f in sorted(glob.glob(os.path.join(os.path.dirname(__file__), '..', '..', 'corpus', ID, '*.json'))):
        for d in json.load(open(f)):
            extra.append({'cap': d['cap'], 'acts': d['acts']})
    return extra + [
        # equal-to-capacity hand-over, the classic lost-wake-up shape (value == head weight after a release)
        {'cap': 3, 'acts': [['a', 3], ['s'], ['a', 3], ['a', 1], ['s'], ['r', 0], ['s'], ['r', 1], ['s'], ['r', 2], ['s']]},
        # small job must not overtake a big queued one (FIFO, no barging)
        {'cap': 3, 'acts': [['a', 2], ['s'], ['a', 2], ['s'], ['a', 1], ['s'], ['r', 0], ['s'], ['r', 1], ['s']]},
        # one release wakes several waiters; two releases pile up before the loop runs
        {'cap': 4, 'acts': [['a', 2], ['a', 2], ['s'], ['a', 1], ['a', 1], ['a', 2], ['a', 3], ['s'], ['r', 0], ['r', 1], ['s'], ['r', 2], ['r', 3], ['r', 4], ['s']]},
        # weight larger than capacity blocks everybody behind it for ever; zero weight
        {'cap': 2, 'acts': [['a', 3], ['a', 1], ['s'], ['a', 0], ['s']]},
        {'cap': 0, 'acts': [['a', 0], ['a', 1], ['s'], ['r', 0], ['s']]},
    ]


def all_schedules(ctx):
    """[(class, schedule)] — deterministic order: corpus, exhaustive settled, exhaustive burst, random, large populations."""
    out = [('corpus', s) for s in corpus_schedules()]
    L = ctx.scale(7, 9)
    out += [('settled', {'cap': 3, 'acts': a}) for a in enum_settled(3, [1, 2, 3], ctx.scale(4, 5), L)]
    out += [('settled', {'cap': 2, 'acts': a}) for a in enum_settled(2, [1, 2], 5, L)]
    out += [('burst', {'cap': 3, 'acts': a}) for a in enum_burst(3, [1, 2, 3], ctx.scale(3, 4), ctx.scale(7, 8))]
    nrand = ctx.scale(300, 3000)
    for k in range(nrand):
        cap = ctx.rng.choice([1, 2, 3, 4, 5, 8, 16, 1000, 8000])
        out.append(('random', random_schedule(ctx.rng, cap, ctx.rng.choice([10, 30, 60, 200 if k % 10 == 0 else 40]))))
    out += large_schedules(ctx)
    return out


# ------------------------------------------------------------------------------------------------

def coq_actions(acts):
    items = []
    for a in acts:
        if a[0] == 'a':
            items.append(f'Acquire {zlit(a[1])}')
        elif a[0] == 'r':
            items.append(f'Release {a[1]}%nat')
        else:
            items.append('Settle')
    return listlit(items)


def model_traces(ctx, schedules):
    # short schedules as readable action lists; long ones through decode (a list literal costs milliseconds per action)
    exprs = [f'trace (init {zlit(s["cap"])}) ' + (coq_actions(s["acts"]) if len(s["acts"]) <= 60 else f'(decode {len(s["acts"])} {hex(encode(s["acts"]))})')
             for s in schedules]
    vals = coq_eval(ctx, HEADER, exprs, shard=100 if sum(len(s["acts"]) for s in schedules) <= 2000 else 4)
    return [[[v, [list(e) for e in q], sorted(h), list(g)] for (v, q, h, g) in tr] for tr in vals]


_P = 2305843009213693951


def encode(acts):
    z = 0
    for k, a in enumerate(acts):
        if a[0] == 's':
            d = 1
        elif a[0] == 'a':
            d = 2 + 4 * a[1]
        else:
            d = 3 + 4 * a[1]
        assert 0 < d < 2 ** 20 and (a[0] == 's' or a[1] >= 0)
        z |= d << (20 * k)
    return z


def fingerprint(trace):
    """Same function as SemFifo.Model.fingerprint, computed from the implementation's observations."""
    h, seen = 7, 0
    for v, q, hold, elog in trace:
        xs = [v, len(q)]
        for i, w in q:
            xs += [i, w]
        xs += [len(hold)] + sorted(hold) + [len(elog)] + list(elog[seen:])
        seen = len(elog)
        for x in xs:
            h = (h * 131 + x + 7) & _P
    return h


def model_fingerprints(ctx, schedules, n_sh=8):
    exprs = [f'fingerprint {zlit(s["cap"])} (decode {len(s["acts"])} {hex(encode(s["acts"]))})' for s in schedules]   # hex: long schedules are numerals of thousands of digits
    order = sorted(range(len(exprs)), key=lambda k: -len(schedules[k]['acts']))
    perm = [k for r in range(n_sh) for k in order[r::n_sh]]
    vals = coq_eval(ctx, HEADER, [exprs[k] for k in perm], shard=max(1, (len(exprs) + n_sh - 1) // n_sh), label='fp')
    out = [None] * len(exprs)
    for k, v in zip(perm, vals):
        out[k] = v
    return out


def impl_results(ctx, schedules):
    return ctx.run_impl('c16_fifo.py', {'schedules': schedules}, timeout=900)['results']


# ================================================================================================
# the worker's USE of the semaphore (worker.py), with task cancellation
# ================================================================================================

def generate(ctx):
    """T: every occurrence of `cpu_sem` in worker.py classified (fail closed) -> reservation pattern of every use site;
    the context manager of semaphore.py must be acquire-in-__aenter__ / release-in-__aexit__."""
    try:
        c16_usesite.check_context_manager(ctx.read_repo(c16_usesite.SEM_PY))
        info = c16_usesite.analyse(ctx.read_repo(c16_usesite.WORKER_PY))
    except c16_usesite.Unrecognised as e:
        raise TieBroken('py-translator', str(e))
    items = ';\n  '.join(f'{e["pattern"]} (* {e["cls"]}.run: async with {e["expr"]}' + (f' -> helper {e["via"]}' if e["via"] else '') + ' *)'
                         for e in info['entries'])
    ctx.write_generated('Gen.v', f"""(* GENERATED by harness/props/C16.py from {c16_usesite.WORKER_PY} and {c16_usesite.SEM_PY} - do not edit *)
From Coq Require Import List.
Import ListNotations.
From HailV Require Import SemFifo.Use.

(* reservation pattern of every job class whose run() reserves cores on the worker's cpu_sem *)
Definition use_sites : list pattern := [
  {items}
].
""")
    ctx._c16_use = info


class _URef:
    """mirror of SemFifo.Use (AcquireThenTry) - ONLY to enumerate schedules whose Finish/Cancel hit interesting tasks"""

    def __init__(self, cap):
        self.v, self.q, self.fresh, self.wait, self.woken, self.body, self.ready, self.throw, self.n = cap, [], {}, {}, {}, {}, [], set(), 0

    def copy(self):
        r = _URef(0)
        r.v, r.q, r.n = self.v, list(self.q), self.n
        r.fresh, r.wait, r.woken, r.body = dict(self.fresh), dict(self.wait), dict(self.woken), dict(self.body)
        r.ready, r.throw = list(self.ready), set(self.throw)
        return r

    def _release(self, w):
        self.v += w
        while self.q and self.v >= self.q[0][1]:
            j, wj = self.q.pop(0)
            self.v -= wj
            if j in self.wait:
                self.woken[j] = self.wait.pop(j)
                if j not in self.throw:
                    self.ready.append(j)

    def _tick(self):
        i = self.ready.pop(0)
        thr = i in self.throw
        self.throw.discard(i)
        if i in self.fresh:
            w = self.fresh.pop(i)
            if not thr:
                if not self.q and self.v >= w:
                    self.v -= w
                    self.body[i] = w
                else:
                    self.q.append((i, w))
                    self.wait[i] = w
        elif i in self.woken:
            w = self.woken.pop(i)
            if not thr:
                self.body[i] = w
        elif i in self.wait:
            if thr:
                self.wait.pop(i)
        elif i in self.body:
            self._release(self.body.pop(i))

    def live(self):
        return sorted(set(self.fresh) | set(self.wait) | set(self.woken) | set(self.body))

    def do(self, a):
        if a[0] == 'a':
            self.fresh[self.n] = a[1]
            self.ready.append(self.n)
            self.n += 1
        elif a[0] == 'f':
            if a[1] in self.body and a[1] not in self.ready:
                self.ready.append(a[1])
        elif a[0] == 'c':
            i = a[1]
            if i not in self.throw and i in self.live():
                self.throw.add(i)
                if i not in self.ready:
                    self.ready.append(i)
        else:
            while self.ready:
                self._tick()


def use_enum(cap, weights, max_jobs, length, settled):
    """settled: every action is followed by a settle; otherwise settle is an explicit action (cancellations and finishes pile up)"""
    out = []

    def rec(ref, acts, left, dirty):
        if left == 0:
            out.append(acts + ([] if settled else [['s']]))
            return
        opts = [['a', w] for w in weights] if ref.n < max_jobs else []
        opts += [['f', i] for i in sorted(ref.body) if i not in ref.ready]
        opts += [['c', i] for i in ref.live() if i not in ref.throw]
        if dirty and not settled:
            opts.append(['s'])
        if not opts:
            out.append(acts + ([] if settled else [['s']]))
            return
        for a in opts:
            r2 = ref.copy()
            r2.do(a)
            if settled:
                r2.do(['s'])
                rec(r2, acts + [a, ['s']], left - 1, False)
            else:
                rec(r2, acts + [a], left - 1, a[0] != 's')
    rec(_URef(cap), [], length, False)
    return out


def use_random(rng, cap, n):
    ref, acts = _URef(cap), []
    ws = [w for w in ([250, 500, 1000, 2000, 4000, 8000, 16000] if cap >= 1000 else [1, 1, 2, 3, cap, max(1, cap // 2)]) if w <= cap] or [1]
    for _ in range(n):
        x = rng.random()
        live = ref.live()
        if x < 0.33:
            a = ['a', rng.choice(ws)]
        elif x < 0.50 and ref.body:
            a = ['f', rng.choice(sorted(ref.body))] + (['raise'] if rng.random() < 0.3 else [])
        elif x < 0.68 and live:
            # cancel: prefer waiters that are NOT at the head, then anybody (incl. running, fresh, already cancelled)
            behind = [j for j, _ in ref.q[1:] if j in ref.wait]
            a = ['c', rng.choice(behind) if behind and rng.random() < 0.5 else rng.choice(live)]
        elif x < 0.72:
            a = rng.choice([['c', rng.randint(0, ref.n + 1)], ['f', rng.randint(0, ref.n + 1)]])      # maybe dead / unknown: ignored on both sides
        else:
            a = ['s']
        ref.do(a)
        acts.append(a)
    acts.append(['s'])
    return acts


def use_schedules(ctx):
    """[(class, {'cap', 'site', 'acts'})]"""
    hand = [
        # the waiter behind the head is cancelled, then a holder finishes (quiet and batched variants)
        (1, [['a', 1], ['a', 1], ['a', 1], ['s'], ['c', 2], ['s'], ['f', 0], ['s'], ['f', 1], ['s']]),
        (4000, [['a', 2000], ['a', 2000], ['s'], ['a', 3000], ['a', 2000], ['s'], ['c', 3], ['s'], ['f', 1], ['s'], ['f', 0], ['s'], ['f', 2], ['s']]),
        (4000, [['a', 2000], ['a', 2000], ['a', 3000], ['a', 2000], ['s'], ['c', 3], ['f', 1], ['s'], ['f', 0], ['s']]),
        # cancel at the head; cancel after the grant but before the task resumes; cancel a running job; cancel before the first step; cancel twice
        (2, [['a', 2], ['a', 1], ['a', 1], ['s'], ['c', 1], ['s'], ['f', 0], ['s'], ['f', 2], ['s']]),
        (2, [['a', 2], ['a', 2], ['s'], ['f', 0], ['c', 1], ['s'], ['a', 1], ['s']]),
        (2, [['a', 1], ['a', 1], ['a', 2], ['s'], ['c', 0], ['s'], ['c', 1], ['c', 1], ['s'], ['f', 2], ['s']]),
        (2, [['a', 2], ['c', 0], ['a', 2], ['s'], ['c', 0], ['f', 1, 'raise'], ['s'], ['a', 1], ['s']]),
    ]
    out = []
    import glob, json, os
    for f in sorted(glob.glob(os.path.join(os.path.dirname(__file__), '..', '..', 'corpus', ID, 'use', '*.json'))):
        for d in json.load(open(f)):
            out.append(('use-corpus', {'cap': d['cap'], 'site': d.get('site', 0), 'acts': d['acts']}))
    for site in (0, 1):
        out += [('use-hand', {'cap': c, 'site': site, 'acts': a}) for c, a in hand]
        out += [('use-settled', {'cap': 2, 'site': site, 'acts': a}) for a in use_enum(2, [1, 2], 3, ctx.scale(5, 6), True)]
        out += [('use-batched', {'cap': 1, 'site': site, 'acts': a}) for a in use_enum(1, [1], 3, ctx.scale(6, 7), False)]
    for k in range(ctx.scale(400, 5000)):
        cap = ctx.rng.choice([1, 2, 2, 3, 4, 8, 4000, 16000])
        out.append(('use-random', {'cap': cap, 'site': k % 2, 'acts': use_random(ctx.rng, cap, ctx.rng.choice([10, 20, 40, 80]))}))
    return out


def use_encode(acts):
    z = 0
    for k, a in enumerate(acts):
        d = 0 if a[0] == 's' else {'a': 1, 'f': 2, 'c': 3}[a[0]] + 4 * a[1]
        assert 0 <= d < 2 ** 20 and (a[0] == 's' or a[1] >= 0)
        z |= d << (20 * k)
    return z


def use_fingerprint(trace):
    h, seen = 7, 0
    for v, q, body, elog, nready in trace:
        xs = [v, len(q)]
        for i, w in q:
            xs += [i, w]
        xs += [len(body)] + sorted(body) + [len(elog)] + list(elog[seen:]) + [nready]
        seen = len(elog)
        for x in xs:
            h = (h * 131 + x + 7) & _P
    return h


USE_HEADER = 'From HailV Require Import Common.Prelude SemFifo.Model SemFifo.Use.\nOpen Scope Z_scope.'


def use_coq_actions(acts):
    return listlit(['USettle' if a[0] == 's' else (f'Spawn {zlit(a[1])}' if a[0] == 'a' else f'{"Finish" if a[0] == "f" else "Cancel"} {a[1]}%nat')
                    for a in acts])


def use_model_traces(ctx, schedules, patterns):
    exprs = [f'utrace {patterns[s["site"]]} (uinit {zlit(s["cap"])}) {use_coq_actions(s["acts"])}' for s in schedules]
    vals = coq_eval(ctx, USE_HEADER, exprs, shard=100, label='usetr')
    return [[[v, [list(e) for e in q], list(h), list(e), r] for (v, q, h, e, r) in tr] for tr in vals]


def use_model_fingerprints(ctx, schedules, patterns, n_sh=8):
    exprs = [f'ufingerprint {patterns[s["site"]]} {zlit(s["cap"])} (udecode {len(s["acts"])} {hex(use_encode(s["acts"]))})' for s in schedules]
    order = sorted(range(len(exprs)), key=lambda k: -len(schedules[k]['acts']))
    perm = [k for r in range(n_sh) for k in order[r::n_sh]]
    vals = coq_eval(ctx, USE_HEADER, [exprs[k] for k in perm], shard=max(1, (len(exprs) + n_sh - 1) // n_sh), label='usefp')
    out = [None] * len(exprs)
    for k, v in zip(perm, vals):
        out[k] = v
    return out


def use_impl(ctx, schedules):
    return ctx.run_impl('c16_use.py', {'schedules': schedules}, timeout=900)


def use_correspond(ctx):
    info = getattr(ctx, '_c16_use', None)
    if info is None:
        raise TieBroken('SemFifo.utrace~worker.py reservation', 'the use sites of cpu_sem were not recognised (see translator)')
    patterns = [e['pattern'] for e in info['entries']]
    tagged = [(t, dict(s, site=s['site'] % len(patterns))) for t, s in use_schedules(ctx)]
    schedules = [s for _, s in tagged]
    out = use_impl(ctx, schedules)
    impl = out['results']
    ctx._c16_use_cache = (tagged, impl)
    if out['sites'] != [e['cls'] for e in info['entries']]:
        raise RuntimeError(f'C16: driver and translator disagree about the use sites: {out["sites"]} / {info["entries"]}')
    fps = use_model_fingerprints(ctx, schedules, patterns)
    differing = [k for k, (fp, r) in enumerate(zip(fps, impl)) if fp != use_fingerprint(r['trace'])]
    differing.sort(key=lambda k: len(schedules[k]['acts']))
    full = dict(zip(differing[:20], use_model_traces(ctx, [schedules[k] for k in differing[:20]], patterns)))
    dis, hist, nontrivial, n_obs, n_cancel = [], {}, set(), 0, 0
    for (tag, s), r in zip(tagged, impl):
        hist[tag] = hist.get(tag, 0) + 1
        n_obs += len(r['trace'])
        if any(a[0] == 'c' for a in s['acts']) and any(o[1] for o in r['trace']):
            nontrivial.add(str(s))
            n_cancel += 1
    name = 'SemFifo.utrace~worker.py reservation'
    for k in differing:
        s, r = schedules[k], impl[k]
        if k in full:
            m = full[k]
            j = next((j for j, (x, y) in enumerate(zip(m, r['trace'])) if x != y), min(len(m), len(r['trace'])))
            dis.append(Disagreement(name, {'schedule': s, 'site': info['entries'][s['site']], 'first_diff_at_settle': j},
                                    m[j] if j < len(m) else None, r['trace'][j] if j < len(r['trace']) else None))
        else:
            dis.append(Disagreement(name, {'schedule': s}, 'fingerprint differs', r['trace'][-1] if r['trace'] else None))
    return Corr(evaluations=len(schedules), distinct_nontrivial=len(nontrivial),
                rule='one evaluation = one Spawn/Finish/Cancel/Settle schedule run on the REAL reservation code of worker.py (run() of '
                     + ', '.join(e['cls'] for e in info['entries']) + ' cut down to `async with <reservation>: <harness body>` by AST, helpers verbatim, real '
                     'FIFOWeightedSemaphore, real asyncio tasks and task.cancel() on the deterministic loop) and on SemFifo.Use (vm_compute, pattern of the site as '
                     'generated); value, deque (ids+weights, entries of dead tasks included), running jobs, order of entry compared after every settle; '
                     f'non-trivial = distinct schedule with a cancellation in which some job was queued; {n_obs} observations; '
                     'exhaustive: settled cap2/w12/3 jobs, batched cap1/w1/3 jobs, on every use site',
                samples=[{'schedule': s, 'trace': r['trace']} for (_, s), r in list(zip(tagged, impl))[:1] + list(zip(tagged, impl))[-1:]],
                disagreements=dis, histograms={'use_schedule_class': hist, 'use_sites': [f'{e["cls"]}: {e["pattern"]} ({e["expr"]})' for e in info['entries']]},
                exhaustive=True, names=[name])


USE_WHAT = {
    'capacity': 'worker: the jobs inside `async with <cpu reservation>` bodies weigh more than the capacity',
    'fifo': 'worker: jobs that had to wait entered their bodies out of arrival order',
    'lost-wakeup': 'worker: (no cancellation in the schedule) the oldest blocked job fits into the free capacity but is still blocked',
    'job-raised': 'worker: the reservation code raised',
}


def use_failures(tagged, impl):
    fails = []
    for (tag, s), r in zip(tagged, impl):
        for v in r['viol']:
            fails.append(Failure('use:' + v['kind'], USE_WHAT.get(v['kind'], v['kind']), dict(s, level='worker'), None, v))
    fails.sort(key=lambda f: (f.key, len(f.case['acts'])))
    return fails


def use_oracle(ctx, budget):
    cache = getattr(ctx, '_c16_use_cache', None)
    if cache is None or budget > 1:
        tagged = use_schedules(ctx)
        if budget > 1:
            for k in range(ctx.scale(1000, 5000) * budget):
                cap = ctx.rng.choice([1, 2, 3, 4])
                tagged.append(('use-random', {'cap': cap, 'site': k % 2, 'acts': use_random(ctx.rng, cap, ctx.rng.choice([8, 15, 30]))}))
        impl = use_impl(ctx, [s for _, s in tagged])['results']
    else:
        tagged, impl = cache
    return use_failures(tagged, impl), len(tagged)


def correspond(ctx):
    return sem_correspond(ctx).merge(use_correspond(ctx))


def sem_correspond(ctx):
    tagged = all_schedules(ctx)
    schedules = [s for _, s in tagged]
    impl = impl_results(ctx, schedules)
    fps = model_fingerprints(ctx, schedules)
    differing = [k for k, (fp, r) in enumerate(zip(fps, impl)) if fp != fingerprint(r['trace'])]
    differing.sort(key=lambda k: len(schedules[k]['acts']))
    chosen, tot = [], 0              # full traces of the shortest differing schedules (bounded work: long ones keep 'fingerprint differs')
    for k in differing[:30]:
        tot += len(schedules[k]['acts'])
        if chosen and tot > 3000:
            break
        chosen.append(k)
    full = dict(zip(chosen, model_traces(ctx, [schedules[k] for k in chosen])))
    dis = []
    hist = {}
    n_obs = 0
    nontrivial = set()
    max_wait = max((len(o[1]) for r in impl for o in r['trace']), default=0)
    for (tag, s), r in zip(tagged, impl):
        hist[tag] = hist.get(tag, 0) + 1
        n_obs += len(r['trace'])
        if any(o[1] for o in r['trace']):            # some observation with a non-empty queue: blocking actually happened
            nontrivial.add(str(s))
    for k in differing:
        s, r = schedules[k], impl[k]
        if k in full:
            m = full[k]
            j = next((j for j, (x, y) in enumerate(zip(m, r['trace'])) if x != y), min(len(m), len(r['trace'])))
            dis.append(Disagreement('SemFifo.trace~FIFOWeightedSemaphore', {'schedule': s, 'first_diff_at_settle': j},
                                    m[j] if j < len(m) else None, r['trace'][j] if j < len(r['trace']) else None))
        else:
            dis.append(Disagreement('SemFifo.trace~FIFOWeightedSemaphore', {'schedule': s}, 'fingerprint differs', r['trace'][-1] if r['trace'] else None))
    ctx._c16_cache = (tagged, impl)
    return Corr(evaluations=len(schedules), distinct_nontrivial=len(nontrivial),
                rule='one evaluation = one schedule run on the real FIFOWeightedSemaphore (DetLoop) and on the Coq model (vm_compute; fingerprint of the whole trace, differing schedules re-evaluated in full), '
                     'all observations (value, queue ids+weights in order, set of holders, order of entry into the bodies) after every Settle compared; '
                     'non-trivial = distinct schedule in which some job actually blocked; '
                     f'{n_obs} observations compared; exhaustive classes: settled cap3/w123/4 jobs (thorough 5)/7 actions (thorough 9), settled cap2/w12/5 jobs, burst cap3/3 jobs (thorough 4); '
                     f'large populations: up to {max_wait} jobs waiting simultaneously',
                samples=[{'schedule': s, 'trace': r['trace']} for (_, s), r in list(zip(tagged, impl))[:2] + list(zip(tagged, impl))[-1:]],
                disagreements=dis, histograms={'schedule_class': hist, 'max_simultaneous_waiters': max_wait},
                exhaustive=True, names=['SemFifo.trace~FIFOWeightedSemaphore'])


def _failures(tagged, impl):
    fails = []
    for (tag, s), r in zip(tagged, impl):
        for v in r['viol']:
            fails.append(Failure(v['kind'], {
                'capacity': 'jobs inside `async with cpu_sem(w)` bodies hold more than the capacity',
                'fifo': 'at a quiescent point the admitted jobs are not the first k arrivals, or waiting jobs were admitted out of arrival order',
                'lost-wakeup': 'the longest-waiting blocked job fits into the free capacity but is still blocked after the loop settled',
                'job-raised': 'a job raised inside acquire/release'}.get(v['kind'], v['kind']),
                s, None, v))
    # shortest witness first for each kind
    fails.sort(key=lambda f: (f.key, len(f.case['acts'])))
    return fails


def oracle(ctx, budget):
    cache = getattr(ctx, '_c16_cache', None)
    if cache is None or budget > 1:
        tagged = all_schedules(ctx)
        if budget > 1:
            for k in range(ctx.scale(600, 3000) * budget):
                cap = ctx.rng.choice([1, 2, 3, 4, 5, 8])
                tagged.append(('random', random_schedule(ctx.rng, cap, ctx.rng.choice([8, 15, 30]))))
        impl = impl_results(ctx, [s for _, s in tagged])
    else:
        tagged, impl = cache
    fails = _failures(tagged, impl)
    ufails, n_use = use_oracle(ctx, budget)
    fails = fails + ufails
    return fails, {'evaluations': len(tagged) + n_use, 'distinct_nontrivial': len({str(s) for _, s in tagged}),
                   'rule': 'oracle: capacity (sum of weights of jobs inside bodies <= cap, checked at every entry and settle), FIFO (after settle the admitted jobs are exactly the first k arrivals; '
                           'jobs that waited were admitted in arrival order), no lost wake-up (after settle the oldest blocked job does not fit) — judged from the jobs only; '
                           'worker level (real reservation code of worker.py, schedules with task cancellation anywhere): running weight <= capacity at every body entry and settle, '
                           'waiting jobs admitted in arrival order, no lost wake-up in schedules without cancellation',
                   'samples': [{'schedule': tagged[0][1], 'violations': impl[0]['viol']}]}


def replay(ctx, doc):
    s = doc['case']['schedule'] if isinstance(doc.get('case'), dict) and 'schedule' in doc['case'] else doc['case']
    if isinstance(s, dict) and ('site' in s or s.get('level') == 'worker'):
        s = {k: v for k, v in s.items() if k != 'level'}
        out = use_impl(ctx, [s])
        r = out['results'][0]
        res = {'schedule': s, 'use_sites': out['entries'], 'impl_trace': r['trace'], 'impl_property_violations': r['viol']}
        try:
            pats = [e['pattern'] for e in out['entries']]
            res['model_trace'] = use_model_traces(ctx, [dict(s, site=(s.get('site', 0) if isinstance(s.get('site', 0), int) else 0) % len(pats))], pats)[0]
        except Exception as e:  # noqa
            res['model_trace'] = f'unavailable: {type(e).__name__}'
        return res
    r = impl_results(ctx, [s])[0]
    return {'schedule': s, 'impl_trace': r['trace'], 'impl_property_violations': r['viol'], 'model_trace': model_traces(ctx, [s])[0]}
