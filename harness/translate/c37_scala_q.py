"""Scala front end for C37: the C34 translator plus exact-rational [Double], external (opaque) functions and body prefixes.

Additional subset:
  * type Double: literals `2.0`, `1d`, `0.5` (decimal -> exact fraction), + - * / and comparisons over Q
    (Int operands are promoted with inject_Z, as Scala's numeric widening does; Int sub-expressions keep 32-bit semantics);
    a division whose divisor is zero is `None` (NaN / Infinity in floats).
  * x.toDouble, x.toInt (on an integral value), a.min(b), a.max(b), math.min/max(a, b), math.round(x)
  * calls to declared external functions (kept opaque: they become Section variables of the generated file)
  * `translate_prefix`: the statements of a def body up to and including `val <name> = ...`, returning chosen vals
  * `translate_stream_def`: `def f(i: Int, p: Double): LazyList[Double] = p #:: f(<next index>, <next value>)`
  * `translate_expr_text`: a stand-alone expression over typed free variables
  * LazyList[Double] values (type Stream = index -> forced element) of the class LeveneHaldane: `s(i)` (s_at), `s.slice(a, b)` (s_slice,
    a finite List), `s.tail`; on a List: `.takeWhile(_ > c).sum` / `.sum`.  `.takeWhile(_ > c)` is accepted ONLY when `c` is a val
    whose initialiser is `1.0e-16`, `<expr> * 1.0e-16` or `<expr> * 0.5e-16` (a round-off cut-off); the cut-off expression is still
    evaluated (it forces a stream element) but the exact model keeps every term (l_cut is the identity): cut-offs are IGNORED.
  * Double literals with an exponent (`1.0e-16`) as exact fractions.
Everything else raises TieBroken (fail closed).
"""
from __future__ import annotations

import re
from fractions import Fraction
from typing import Dict, List, Tuple

from harness.translate.c34_monadic import ScalaFront, ScalaUnsupported, scala_tokens


class ScalaFrontQ(ScalaFront):
    INT_TYPES = {'Int': 'Int', 'Call': 'Int', 'Boolean': 'Boolean', 'Double': 'Double'}
    COQ_TYPES = {'Int': 'Z', 'Boolean': 'bool', 'Double': 'Q', 'Ext': 'Ext', 'Stream': 'stream', 'List': 'list Q'}
    check_ret_loosely = True
    CUTOFF_INIT = re.compile(r'(?:.*\*)?(?:1\.0e-16|0\.5e-16)')      # token text of a round-off cut-off initialiser

    def __init__(self, src, fname, externs=None):
        super().__init__(src, fname)
        self.externs: Dict[Tuple[str, int], Tuple[str, List[str], str]] = dict(externs or {})   # (name, arity) -> (coq name, param types, result type)
        self.cutoff_vals = set()          # vals whose initialiser is a round-off cut-off (see module docstring)

    # ---- literals
    def _number(self, tok):
        s = tok[1]
        if re.fullmatch(r'\d+\.\d+[dD]?|\d+[dD]', s):
            f = Fraction(s.rstrip('dD'))
            return f'(ret ({f.numerator} # {f.denominator})%Q)', 'Double'
        if re.fullmatch(r'\d+\.\d+[eE][-+]?\d+[dD]?', s):
            f = Fraction(s.rstrip('dD'))          # exact decimal value of the literal
            return f'(ret ({f.numerator} # {f.denominator})%Q)', 'Double'
        if re.search(r'[eEfFlL.]', s) and not re.fullmatch(r'0[xX][0-9a-fA-F]+', s):
            raise ScalaUnsupported(self._where(), f'literal `{s}` outside the subset')
        return super()._number(tok)

    @staticmethod
    def _promote(e):
        text, ty = e
        if ty == 'Int':
            return f'(lift1 q_of_int {text})', 'Double'
        return e

    def _binop_ext(self, op, left, right):
        if {left[1], right[1]} <= {'Int', 'Double'} and 'Double' in (left[1], right[1]):
            (a, _), (b, _) = self._promote(left), self._promote(right)
            arith = {'+': 'q_add', '-': 'q_sub', '*': 'q_mul'}
            if op in arith:
                return f'(lift2 {arith[op]} {a} {b})', 'Double'
            if op == '/':
                return f'(call2 q_div {a} {b})', 'Double'
            cmp_ = {'<': ('q_ltb', False), '<=': ('q_leb', False), '>': ('q_ltb', True), '>=': ('q_leb', True)}
            if op in cmp_:
                f, swap = cmp_[op]
                return (f'(lift2 {f} {b} {a})' if swap else f'(lift2 {f} {a} {b})'), 'Boolean'
            if op == '==':
                return f'(lift2 q_eqb {a} {b})', 'Boolean'
            if op == '!=':
                return f'(lift1 negb (lift2 q_eqb {a} {b}))', 'Boolean'
        return None

    def _unary(self):
        tok = self.peek(True)
        if tok[1] == '-':
            save = self.i
            self.next(True)
            e, ty = self._unary()
            if ty == 'Double':
                return f'(lift1 q_neg {e})', 'Double'
            self.i = save
        return super()._unary()

    # ---- round-off cut-offs: remember which vals are of the form  [<expr> *] 1.0e-16 | 0.5e-16
    def _stmts(self):
        self.skip_nl()
        if self.peek()[1] == 'val' and self.toks[self.i + 1][0] == 'id' and self.toks[self.i + 2][1] == '=':
            j = self.i + 3
            text = ''
            while self.toks[j][0] not in ('nl', 'eof'):
                text += self.toks[j][1]
                j += 1
            name = self.toks[self.i + 1][1]
            if self.CUTOFF_INIT.fullmatch(text):
                self.cutoff_vals.add(name)
            else:
                self.cutoff_vals.discard(name)
        return super()._stmts()

    def _suffixes(self, e):
        text, ty = e
        while True:
            if ty == 'Stream' and self.peek()[1] == '(':          # LazyList.apply(i): forces element i
                pos, named = self._args()
                if named or len(pos) != 1 or pos[0][1] != 'Int':
                    raise ScalaUnsupported(self._where(), 'stream index form')
                text, ty = f'(call2 s_at {text} {pos[0][0]})', 'Double'
                continue
            text2, ty2 = super()._suffixes((text, ty))
            if ty2 == 'Stream' and self.peek()[1] == '(':
                text, ty = text2, ty2
                continue
            return text2, ty2

    def _suffix_ext(self, text, ty, member):
        if ty == 'Stream' and member == 'slice' and self.toks[self.i + 2][1] == '(':
            self.next()
            self.next()
            pos, named = self._args()
            if named or len(pos) != 2 or pos[0][1] != 'Int' or pos[1][1] != 'Int':
                raise ScalaUnsupported(self._where(), '.slice(from, until) form')
            return f'(call3 s_slice {text} {pos[0][0]} {pos[1][0]})', 'List'
        if ty == 'Stream' and member == 'tail' and self.toks[self.i + 2][1] != '(':
            self.next()
            self.next()
            return f'(lift1 s_tail {text})', 'Stream'
        if ty == 'List' and member == 'sum' and self.toks[self.i + 2][1] != '(':
            self.next()
            self.next()
            return f'(lift1 qsum {text})', 'Double'
        if ty == 'List' and member == 'takeWhile':
            self.next()
            self.next()
            t = [self.toks[self.i + k][1] for k in range(5)]
            if t[0] != '(' or t[1] != '_' or t[2] != '>' or t[4] != ')' or self.env.get(t[3]) != 'Double':
                raise ScalaUnsupported(self._where(), '.takeWhile(...) is only supported as .takeWhile(_ > <Double val>)')
            if t[3] not in self.cutoff_vals:
                raise ScalaUnsupported(self._where(), f'.takeWhile(_ > {t[3]}): `{t[3]}` is not a round-off cut-off ([<expr> *] 1.0e-16 | 0.5e-16); '
                                       'the exact model cannot ignore it')
            self.i += 5
            return f'(lift2 l_cut (ret {t[3]}) {text})', 'List'
        if ty == 'Int' and member == 'toDouble':
            self.next()
            self.next()
            return f'(lift1 q_of_int {text})', 'Double'
        if ty == 'Int' and member in ('toInt', 'toLong'):
            self.next()
            self.next()
            return text, 'Int'
        if ty == 'Int' and member in ('min', 'max') and self.toks[self.i + 2][1] == '(':
            self.next()
            self.next()
            pos, named = self._args()
            if named or len(pos) != 1 or pos[0][1] != 'Int':
                raise ScalaUnsupported(self._where(), f'.{member}(...) form')
            return f'(lift2 Z.{member} {text} {pos[0][0]})', 'Int'
        return None

    def _postfix_ext(self, name):
        if name == 'math' and self.peek()[1] == '.':
            self.next()
            fn = self.next()[1]
            pos, named = self._args()
            if named:
                raise ScalaUnsupported(self._where(), 'named arguments to math.*')
            if fn in ('min', 'max') and len(pos) == 2 and pos[0][1] == pos[1][1] == 'Int':
                return f'(lift2 Z.{fn} {pos[0][0]} {pos[1][0]})', 'Int'
            if fn == 'round' and len(pos) == 1 and pos[0][1] == 'Double':
                return f'(lift1 q_round {pos[0][0]})', 'Int'
            raise ScalaUnsupported(self._where(), f'math.{fn} outside the subset')
        if name not in self.env and self.peek()[1] == '(':
            save = self.i
            # external (opaque) function of the current object?
            n_args = self._count_params(self.i)
            if (name, n_args) in self.externs and not any(o == self.cur_obj and n == name and a == n_args for (o, n, a) in self.known):
                coq, ptys, rty = self.externs[(name, n_args)]
                pos, named = self._args()
                if named or len(pos) != len(ptys):
                    raise ScalaUnsupported(self._where(), f'call form of external {name}')
                args = []
                for (e, ty), pt in zip(pos, ptys):
                    if ty == 'Int' and pt == 'Double':
                        e, ty = self._promote((e, ty))
                    if ty != pt:
                        raise ScalaUnsupported(self._where(), f'argument type {ty} for {pt} in call of {name}')
                    args.append(e)
                return f'(call{len(args)} {coq} {" ".join(args)})', rty
            self.i = save
        return None

    # ---- a prefix of a def body
    def translate_prefix(self, obj, name, arity, coq_name, stop_after, results: List[str]) -> str:
        """Definition of the values `results` (vals or parameters) after executing the body up to `val stop_after = ...`."""
        d = self.defs.get((obj, name, arity))
        if d is None:
            raise ScalaUnsupported(self.fname, f'def {obj}.{name}/{arity} not found')
        self.i = d.start
        self.cur_obj = obj
        self.expect('def')
        self.next()
        params = self._params()
        if self.peek()[1] == ':':
            self.next()
            self._type()
        self.expect('=')
        self.skip_nl()
        if self.peek()[1] != '{':
            raise ScalaUnsupported(f'{obj}.{name}', 'body is not a block')
        self.env = {p[0]: p[1] for p in params}
        self.paren = 0
        res_ty: List[str] = []

        def finish(env):
            for r in results:
                if r not in env:
                    raise ScalaUnsupported(f'{obj}.{name}', f'value {r} is not defined before the stop point')
                res_ty.append(env[r])
            tup = results[0] if len(results) == 1 else '(' + ', '.join(results) + ')'
            return f'ret {tup}', 'tuple'
        self.stop_after = (stop_after, finish)
        try:
            body, _ = self._block()
        finally:
            self.stop_after = None
        if not res_ty:
            raise ScalaUnsupported(f'{obj}.{name}', f'`val {stop_after}` not reached at the top level of the body')
        ps = ' '.join(f'({p} : {self.coq_ty(t)})' for p, t, _ in params)
        rt = ' * '.join(self.coq_ty(t) for t in res_ty)
        d.params = params
        return f'Definition {coq_name} {ps} : option ({rt}) :=\n  {body}.'

    # ---- nested stream definitions
    def translate_stream_def(self, fn_name: str, coq_prefix: str, env: Dict[str, str], after_def: Tuple[str, str, int]) -> str:
        """Inside def `after_def`, the nested  def fn(i: Int, p: Double): LazyList[Double] = p #:: fn(<idx>, <val>)"""
        d = self.defs.get(after_def)
        if d is None:
            raise ScalaUnsupported(self.fname, f'def {after_def} not found')
        j = d.start + 1
        t = self.toks
        while not (t[j][1] == 'def' and t[j + 1][1] == fn_name):
            j += 1
            if t[j][0] == 'eof':
                raise ScalaUnsupported(self.fname, f'nested def {fn_name} not found')
        self.i = j
        self.cur_obj = after_def[0]
        self.expect('def')
        self.next()
        params = self._params()
        if [p[1] for p in params] != ['Int', 'Double']:
            raise ScalaUnsupported(self._where(), f'{fn_name}: expected (Int, Double) parameters')
        self.expect(':')
        if self._type() != 'LazyList[Double]':
            raise ScalaUnsupported(self._where(), f'{fn_name}: expected LazyList[Double]')
        self.expect('=')
        self.skip_nl()
        idx, val = params[0][0], params[1][0]
        if self.next()[1] != val or self.next()[1] != '#' or self.next()[1] != ':' or self.next()[1] != ':':
            raise ScalaUnsupported(self._where(), f'{fn_name}: expected `{val} #:: {fn_name}(...)`')
        if self.next(True)[1] != fn_name:
            raise ScalaUnsupported(self._where(), f'{fn_name}: expected a recursive call')
        self.env = dict(env)
        self.env[idx] = 'Int'
        self.env[val] = 'Double'
        self.paren = 0
        pos, named = self._args()
        if named or len(pos) != 2 or pos[0][1] != 'Int' or pos[1][1] != 'Double':
            raise ScalaUnsupported(self._where(), f'{fn_name}: recursive call form')
        binder = ' '.join(f'({k} : {self.coq_ty(v)})' for k, v in env.items())
        return (f'Definition {coq_prefix}_next_idx {binder} ({idx} : Z) : option Z :=\n  {pos[0][0]}.\n'
                f'Definition {coq_prefix}_next_val {binder} ({idx} : Z) ({val} : Q) : option Q :=\n  {pos[1][0]}.')

    # ---- stand-alone expression
    def translate_expr_text(self, text: str, env: Dict[str, str], cur_obj: str) -> Tuple[str, str]:
        saved = self.toks
        try:
            self.toks = scala_tokens(text)
            self.i = 0
            self.cur_obj = cur_obj
            self.env = dict(env)
            self.paren = 1          # newlines never terminate a stand-alone expression
            self.cutoff_vals = set()
            e = self._body() if self.peek(True)[1] == '{' else self._expr()
            if self.peek(True)[0] != 'eof':
                raise ScalaUnsupported(self.fname, f'trailing tokens after expression `{text[:60]}`')
            return e
        finally:
            self.toks = saved
