"""C30 plug-in, re-entrancy guard part (imported by harness/props/C30.py; lives here because harness/props holds plug-ins only):
schedules of OVERLAPPING notifications for the real WatchedBranch._update, their comparison with CI/Guard.v, and the oracle
"never two update bodies at once; every merge made under overlapping notifications is a good merge".
See harness/impl/c30_guard.py (gated fakes on the deterministic loop) and harness/translate/c30_guard.py (translator)."""
import concurrent.futures
import itertools
import json
import os

from harness.core import Corr, Disagreement, Failure, coq_eval, NPROC, VERIF

GUARD_HEADER = 'From HailV Require Import Common.Prelude CI.Guard.'
KINDS = ['github', 'batch', 'all']

TWO_READY = [["Open", 1], ["Open", 2], ["Review", 1, "APPROVED"], ["Review", 2, "APPROVED"], ["Fetch", None], ["UpdateBatch"],
             ["HealMerge", True], ["BatchComplete", 1, True], ["BatchComplete", 2, True]]
PREFIXES = {
    # two approved pull requests whose test batches have just succeeded (CI has not looked yet)
    'two-ready': TWO_READY,
    # ... and CI has recorded the success and posted the statuses: the next heal pass merges
    'two-posted': TWO_READY + [["UpdateBatch"], ["HealMerge", False], ["Fetch", None]],
    'three-ready': [["Open", 1], ["Open", 2], ["Open", 3], ["Review", 1, "APPROVED"], ["Review", 2, "APPROVED"], ["Review", 3, "APPROVED"],
                    ["Fetch", None], ["UpdateBatch"], ["HealMerge", True], ["BatchComplete", 1, True], ["BatchComplete", 2, True],
                    ["BatchComplete", 3, True]],
    'one-new': [["Open", 1], ["Review", 1, "APPROVED"]],
    'empty': [],
}
WORLD_EVENTS = [["BatchComplete", 1, True], ["BatchComplete", 2, True], ["BatchComplete", 2, False], ["Push", 1], ["Push", 2], ["TargetMove"],
                ["Review", 2, "CHANGES_REQUESTED"], ["Review", 1, "APPROVED"], ["Status", 1, 1, "SUCCESS"], ["Label", 2, True, False, False]]


def _impl(ctx, cases):
    """cases are independent: run them in a few parallel interpreter processes (order preserved)"""
    if not cases:
        return []
    n = max(1, min(NPROC, 8, (len(cases) + 39) // 40))
    size = (len(cases) + n - 1) // n
    chunks = [cases[i:i + size] for i in range(0, len(cases), size)]
    with concurrent.futures.ThreadPoolExecutor(len(chunks)) as ex:
        parts = list(ex.map(lambda ch: ctx.run_impl('c30_guard.py', {'cases': ch}, timeout=600)['results'], chunks))
    return [r for p in parts for r in p]


def baseline_lens(ctx):
    """number of suspension points of ONE update, per (prefix, first notification): measured on the real code"""
    if getattr(ctx, '_c30_guard_base', None) is None:
        keys = [(p, k) for p in sorted(PREFIXES) for k in KINDS]
        rs = _impl(ctx, [{'prefix': PREFIXES[p], 'schedule': [['spawn', k], ['auto', 'fifo', 2000]]} for p, k in keys])
        ctx._c30_guard_base = {key: sum(1 for s in r['steps'] if s['action'][0] == 'release') for key, r in zip(keys, rs)}
    return ctx._c30_guard_base


def baseline_len(ctx, pname, k0):
    return baseline_lens(ctx)[(pname, k0)]


def systematic(ctx, pname, k0, stride, triples):
    """2-4 overlapping notifications fired at every await point of one update: the first notification runs p segments, then 1-3 more
    notifications arrive at once, then everything is drained oldest-first or newest-first."""
    prefix = PREFIXES[pname]
    n = baseline_len(ctx, pname, k0)
    tuples = [(a,) for a in KINDS] + list(itertools.product(KINDS, KINDS))
    tr = list(itertools.product(KINDS, KINDS, KINDS))
    ctx.rng.shuffle(tr)
    tuples += tr[:triples]
    cases = []
    for p in range(0, n + 1, stride):
        for j, tup in enumerate(tuples):
            pol = 'lifo' if (p + j) % 2 == 0 else 'fifo'
            cases.append({'prefix': prefix, 'family': f'{pname}/{k0}', 'schedule': [['spawn', k0], ['auto', 'fifo', p]] + [['spawn', k] for k in tup]
                          + [['auto', pol, 3000]]})
    return cases


def staggered(ctx, pname, k0, count):
    """notifications arriving at different await points, with a few segments of the newest task in between"""
    prefix = PREFIXES[pname]
    n = baseline_len(ctx, pname, k0)
    rng = ctx.rng
    cases = []
    for _ in range(count):
        p = rng.randint(0, n)
        sched = [['spawn', k0], ['auto', 'fifo', p]]
        for _ in range(rng.randint(2, 3)):
            sched.append(['spawn', rng.choice(KINDS)])
            sched.append(['auto', rng.choice(['fifo', 'lifo']), rng.randint(0, 6)])
        sched.append(['auto', rng.choice(['fifo', 'lifo']), 3000])
        cases.append({'prefix': prefix, 'family': f'staggered/{pname}/{k0}', 'schedule': sched})
    return cases


def random_cases(ctx, count):
    rng = ctx.rng
    cases = []
    names = sorted(PREFIXES)
    for _ in range(count):
        pname = rng.choice(names)
        sched = [['spawn', rng.choice(KINDS)]]
        n_spawn = 1
        for _ in range(rng.randint(10, 120)):
            r = rng.random()
            if r < 0.10 and n_spawn < 5:
                sched.append(['spawn', rng.choice(KINDS)])
                n_spawn += 1
            elif r < 0.14:
                sched.append([rng.choice(['fail', 'fail', 'failhttp']), rng.randrange(n_spawn)])
            elif r < 0.22:
                sched.append(['world', rng.choice(WORLD_EVENTS)])
            elif r < 0.30:
                sched.append(['auto', rng.choice(['fifo', 'lifo']), rng.randint(1, 8)])
            else:
                sched.append(['release', rng.randrange(n_spawn)])
        sched.append(['auto', rng.choice(['fifo', 'lifo']), 3000])
        cases.append({'prefix': PREFIXES[pname], 'family': f'random/{pname}', 'schedule': sched})
    return cases


def corpus_cases():
    out = []
    cdir = os.path.join(VERIF, 'corpus', 'C30')
    if os.path.isdir(cdir):
        for f in sorted(os.listdir(cdir)):
            if f.endswith('.json'):
                d = json.load(open(os.path.join(cdir, f)))
                c = d.get('case') or {}
                if 'schedule' in c:
                    out.append({'prefix': c.get('prefix', []), 'schedule': c['schedule'], 'family': 'corpus'})
    return out


def all_cases(ctx, scale=1):
    cases = corpus_cases()
    cases += systematic(ctx, 'two-ready', 'batch', 1, ctx.scale(3, 27))
    cases += systematic(ctx, 'two-posted', 'all', ctx.scale(3, 1), ctx.scale(2, 27))
    cases += systematic(ctx, 'one-new', 'github', ctx.scale(4, 1), ctx.scale(1, 27))
    if ctx.thorough or scale > 1:
        cases += systematic(ctx, 'three-ready', 'batch', 1, 27)
        cases += systematic(ctx, 'two-ready', 'all', 1, 27)
        cases += systematic(ctx, 'empty', 'all', 1, 27)
    for pname, k0 in (('two-ready', 'batch'), ('two-posted', 'batch'), ('three-ready', 'all')):
        cases += staggered(ctx, pname, k0, ctx.scale(40, 400) * scale)
    cases += random_cases(ctx, ctx.scale(120, 1500) * scale)
    return cases


def run_cases(ctx, scale=1):
    key = f'_c30_guard_{scale}'
    if getattr(ctx, key, None) is None:
        cases = all_cases(ctx, scale)
        setattr(ctx, key, (cases, _impl(ctx, cases)))
    return getattr(ctx, key)


# ---------------------------------------------------------------------------------------------------- tie

def _mview(v):
    u, g, b, s, tasks, n_in = v       # Coq prints nested pairs flat
    out = []
    for t in tasks:
        if isinstance(t, tuple):
            out.append(t[1] if t[0] == 'VCall' else str(t))
        else:
            out.append({'VDone': 'done', 'VFresh': 'fresh'}.get(t, t))
    return {'flags': [bool(u), bool(g), bool(b), bool(s)], 'tasks': out, 'n_in': n_in}


def correspond_guard(ctx):
    """the real `_update` under overlapping notifications ~ CI/Guard.v: flags, per-task position and the number of tasks inside a
    sub-operation compared after EVERY atomic segment."""
    cases, res = run_cases(ctx)
    exprs = []
    for c, r in zip(cases, res):
        evs = [e for s in r['steps'] if not s.get('skipped') for e in s['model_events']]
        exprs.append('strace [' + '; '.join(evs) + ']')
    traces = coq_eval(ctx, GUARD_HEADER, exprs, shard=150, label='guard')
    dis = []
    n = 0
    nontrivial = 0
    fam = {}
    for c, r, tr in zip(cases, res, traces):
        fam[c['family']] = fam.get(c['family'], 0) + 1
        idx = 0
        cur = {'flags': r['flags0'], 'tasks': [], 'n_in': 0}
        early = False
        for i, s in enumerate(r['steps']):
            if s.get('skipped'):
                continue
            n += 1
            idx += len(s['model_events'])
            if idx > 0:
                cur = _mview(tr[idx - 1])
            obs = {'flags': s['flags'], 'tasks': s['tasks'], 'n_in': s['n_in']}
            if s['action'][0] == 'spawn' and s['tasks'][-1] == 'done' and not s.get('exc'):
                early = True
            if obs != cur or s.get('foreign'):
                dis.append(Disagreement('update-guard: real notify_* / _update under overlapping notifications ~ CI.Guard.sstep',
                                        {'prefix': c['prefix'], 'schedule': c['schedule'], 'step': i, 'action': s['action'],
                                         'model_events': [e for t in r['steps'][:i + 1] if not t.get('skipped') for e in t['model_events']]},
                                        cur, dict(obs, foreign=s.get('foreign'), exc=s.get('exc'))))
                break
        if early and r['n_tasks'] >= 2:
            nontrivial += 1
    return Corr(evaluations=n, distinct_nontrivial=nontrivial,
                rule=f'{len(cases)} schedules of 2-5 overlapping notifications on the real WatchedBranch (every fake call is a suspension point; '
                     f'notifications fired at every await point of an update, staggered, and random with failures and world events); flags, per-task '
                     f'position and number of tasks inside a sub-operation compared with CI.Guard after each of {n} atomic segments; non-trivial = '
                     f'schedules in which a notification found an update running and returned at once',
                samples=[{'schedule': cases[0]['schedule'], 'model_events': [e for s in res[0]['steps'] for e in s.get('model_events', [])][:12]}],
                disagreements=dis, histograms={'guard_families': dict(sorted(fam.items()))}, names=['update-guard'])


# ---------------------------------------------------------------------------------------------------- oracle

NEEDS = {'github': ['_update_github'], 'batch': ['_update_batch'], 'all': ['_update_github', '_update_batch', '_heal']}


def fault_class(r):
    """class of the schedule for the finding key: was the response to a merge request that GitHub had already performed lost
    (the fake PUT raised at its gate AFTER the effect)?  Otherwise: plain overlapping notifications (failures, if any, hit requests
    before their effect or other calls)."""
    lost = any(s.get('action', [None])[0] in ('fail', 'failhttp') and s.get('gate') == 'gh.put>' for s in r['steps'])
    return 'lost-merge-response' if lost else 'overlapped'


def oracle_guard(ctx, budget, check_merges):
    cases, res = run_cases(ctx, 1 if budget <= 1 else 2)
    best = {}
    n_merges = 0
    n_overlap_runs = 0
    for c, r in zip(cases, res):
        n_merges += len(r['merges'])
        if r['n_tasks'] >= 2:
            n_overlap_runs += 1
        bad = []
        if r['max_in'] >= 2:
            i = next(i for i, s in enumerate(r['steps']) if s.get('n_in', 0) >= 2)
            bad.append(('overlapping-update-bodies', {'step': i, 'action': r['steps'][i]['action'], 'tasks': r['steps'][i]['tasks'],
                                                      'flags': r['steps'][i]['flags']}))
        for key, m in check_merges(r['merges']):
            bad.append((fault_class(r) + ':' + key, m))
        live = [s for s in r['steps'] if not s.get('skipped')]
        if r['all_done'] and live:
            fl = live[-1]['flags']
            if fl[0]:
                bad.append(('updating-left-set', {'flags': fl, 'exceptions': sorted({s['exc'] for s in live if s.get('exc')})}))
            if any(fl[1:]) and not any(s.get('exc') for s in live):
                bad.append(('lost-wakeup', {'flags': fl, 'tasks': live[-1]['tasks']}))
            if not any(s.get('exc') for s in live):
                # a notification is SERVED when the sub-operation(s) it asks for are started at or after its arrival
                for i, s in enumerate(live):
                    if s['action'][0] != 'spawn':
                        continue
                    later = {name for t in live[i:] for kind, name in t.get('subops', []) if kind == 'enter'}
                    missing = [n for n in NEEDS[s['action'][1]] if n not in later]
                    if missing:
                        bad.append(('notification-not-served', {'step': i, 'notification': s['action'][1], 'never_started_afterwards': missing}))
                        break
        size = sum(1 for s in r['steps'] if not s.get('skipped'))
        for key, obs in bad:
            if key not in best or size < best[key][0]:
                best[key] = (size, c, obs)
    fails = []
    for key, (size, c, obs) in sorted(best.items()):
        what = ('two tasks are inside sub-operations of WatchedBranch._update at the same time' if key == 'overlapping-update-bodies'
                else 'every notification task has finished but `updating` is still True: later notifications will all return at once'
                if key == 'updating-left-set'
                else 'every notification task has finished without an exception but a *_changed flag is still set: the notification that set it '
                     'was never served' if key == 'lost-wakeup'
                else f'a {obs.get("notification")} notification arrived while an update was running; all tasks have finished without an exception but '
                     f'{obs.get("never_started_afterwards")} was never started after its arrival' if key == 'notification-not-served'
                else f'notification tasks on the gated fakes: CI merged PR {obs.get("pr")} at {obs.get("sha")} with: {key}')
        fails.append(Failure(key, what, {'prefix': c['prefix'], 'schedule': c['schedule']},
                             'at most one task inside _update_github / _update_batch / _heal / try_to_merge at any time; when all notification tasks '
                             'have finished `updating` is False and (no exception) every *_changed flag is False; every merge approved, green, tested '
                             'against the current target; one merge per target commit', obs))
    return fails, {'evaluations': len(cases), 'distinct_nontrivial': n_overlap_runs, 'merges': n_merges}


def replay_guard(ctx, case, check_merges):
    r = _impl(ctx, [{'prefix': case['prefix'], 'schedule': case['schedule']}])[0]
    return {'prefix': case['prefix'], 'schedule': case['schedule'], 'max_tasks_inside_update_bodies': r['max_in'],
            'final_flags': next((s['flags'] for s in reversed(r['steps']) if not s.get('skipped')), None), 'all_tasks_done': r['all_done'],
            'merges': r['merges'], 'violations': ([['overlapping-update-bodies', None]] if r['max_in'] >= 2 else [])
            + [[fault_class(r) + ':' + k, m] for k, m in check_merges(r['merges'])],
            'steps': [{k: s.get(k) for k in ('action', 'gate', 'flags', 'tasks', 'subops', 'exc')} for s in r['steps'] if not s.get('skipped')]}
