"""C14 plug-in, list endpoints part (imported by harness/props/C14.py; lives here because harness/props holds plug-ins only): query enumeration, tie and oracle for the SCOPING of the
job / job-group / batch listings.  See harness/impl/c14_lists.py and harness/translate/c14_lists.py."""
import itertools

from harness.core import Corr, Disagreement, Failure, coq_eval
from harness.translate.c14_lists import translate, gallina_literal, AtomTable

LIST_HEADER = ('From Coq Require Import List Bool ZArith. From HailV Require Import Routes.ListModel. From HailG Require Import C14.Lists. '
               'Import ListNotations. Open Scope Z_scope.')

JOB_STATE_WORDS = ['pending', 'ready', 'creating', 'running', 'live', 'cancelled', 'error', 'failed', 'bad', 'success', 'done']
BATCH_STATE_WORDS = ['open', 'closed', 'complete', 'running', 'cancelled', 'failure', 'success']

# ---- the query-term languages ------------------------------------------------------------------------------------------------
V1_JOB_TERMS = JOB_STATE_WORDS + ['job_id=3', 'name=job3', 'team=red', 'has:team', 'has:zzz']
V1_BATCH_TERMS = BATCH_STATE_WORDS + ['name=b2', 'has:name', 'has:zzz', 'user:alice', 'user:bob', 'billing_project:pa', 'billing_project:pb']
V2_JOB_TERMS = ([f'state = {w}' for w in JOB_STATE_WORDS] + ['state != bad', 'state!=live', 'job_id >= 3', 'job_id = 3', 'job_id != 3',
                'instance = inst-1', 'instance =~ inst', 'instance != inst-0', 'instance_collection = standard',
                'instance_collection !~ high', 'start_time > 1970-01-01T00:00:00Z', 'end_time <= 2030-01-01T00:00:00Z',
                'duration > 0.001', 'cost > 0', 'cost >= $0.0', 'exit_code = 1', 'exit_code != 0', 'exit_code = NULL',
                'exit_code != null', 'exit_code > 0', '"job3"', 'job3', 'red', 'name = job3', 'team != red', 'name =~ job', 'name !~ 3'])
V2_BATCH_TERMS = ([f'state = {w}' for w in BATCH_STATE_WORDS] + ['state != success', 'state != open', 'batch_id > 1', 'batch_id = 2',
                  'batch_id != 1', 'billing_project = pb', 'billing_project != pa', 'user = bob', 'user != alice',
                  'start_time > 1970-01-01T00:00:00Z', 'end_time <= 2030-01-01T00:00:00Z', 'duration >= 0', 'cost > 0', 'cost < $1000',
                  '"b2"', 'b2', 'red', 'name = b2', 'name =~ b', 'team !~ x'])


def _queries(terms, sep, negate, rng, n_pairs, n_long):
    """[(q, [term...])]: empty, every single term, every negated term (v1), sampled pairs and longer lists."""
    out = [('', [])]
    singles = list(terms) + ([negate(t) for t in terms] if negate else [])
    out += [(t, [t]) for t in singles]
    pairs = list(itertools.permutations(singles, 2))
    rng.shuffle(pairs)
    out += [(sep.join(p), list(p)) for p in pairs[:n_pairs]]
    for _ in range(n_long):
        k = rng.randint(3, 5)
        ts = [rng.choice(singles) for _ in range(k)]
        out.append((sep.join(ts), ts))
    return out


def query_sets(ctx, scale=1):
    rng = ctx.rng
    np_, nl = ctx.scale(12, 80) * scale, ctx.scale(6, 40) * scale
    return {
        'jobs_v1': _queries(V1_JOB_TERMS, ' ', lambda t: '!' + t, rng, np_, nl),
        'batches_v1': _queries(V1_BATCH_TERMS, ' ', lambda t: '!' + t, rng, np_, nl),
        'jobs_v2': _queries(V2_JOB_TERMS, '\n', None, rng, np_, nl) + [('start_time > 1970-01-01T00:00:00Z\nend_time < 2030-01-01T00:00:00Z',
                                                                         ['start_time >', 'end_time <', 'interval', 'interval'])],
        'batches_v2': _queries(V2_BATCH_TERMS, '\n', None, rng, np_, nl) + [('start_time >= 1970-01-01T00:00:00Z\nend_time <= 2030-01-01T00:00:00Z',
                                                                             ['start_time >', 'end_time <', 'interval', 'interval'])],
    }


# ---- generation ----------------------------------------------------------------------------------------------------------------

def translate_lists(ctx):
    if getattr(ctx, '_c14_lists', None) is None:
        text, info, tr = translate(ctx.read_repo)
        ctx._c14_lists = (text, info, tr)
    return ctx._c14_lists


def generate(ctx):
    text, info, tr = translate_lists(ctx)
    ctx.write_generated('Lists.v', text)


# ---- tie -----------------------------------------------------------------------------------------------------------------------

def _from_coq(v):
    """parsed Coq item list -> comparable python form"""
    out = []
    for it in v:
        if it == 'IAnd':
            out.append('AND')
        elif it == 'IOr':
            out.append('OR')
        elif it == 'INot':
            out.append('NOT')
        elif isinstance(it, tuple) and it[0] == 'IAtom':
            out.append(['A', it[1]])
        elif isinstance(it, tuple) and it[0] == 'IGroup':
            out.append(['G', _from_coq(it[1])])
        else:
            raise ValueError(f'unexpected Coq item {it!r}')
    return out


def _numbered(items, atoms):
    out = []
    for it in items:
        if isinstance(it, str):
            out.append(it)
        elif it[0] == 'A':
            # an atom the translated source does not contain gets a number outside the generated range
            out.append(['A', atoms[it[1]] if it[1] in atoms else 900000 + hash_text(it[1]) % 90000])
        else:
            out.append(['G', _numbered(it[1], atoms)])
    return out


def _join(cs):
    out = []
    for i, c in enumerate(cs):
        if i:
            out.append('AND')
        out += c
    return out


def _b(x):
    return 'true' if x else 'false'


class _Atoms(AtomTable):
    def __init__(self, known):
        self.n = dict(known)
        self.next = 100000


def correspond(ctx):
    text, info, tr = translate_lists(ctx)
    atoms = info['atoms']
    qs = query_sets(ctx)
    dis = []
    NV = 5
    # ---- model values
    exprs, tags = [], []
    for b in ('jobs_v1', 'batches_v1'):
        nb = info[b]['nbranches']
        exprs.append(f'map (fun k => map (fun n => {b}_cond k n) (seq 0%nat {NV}%nat)) (seq 0%nat {nb + 1}%nat)')
        tags.append(('cond', b))
        exprs.append(f'map (fun k => map (fun n => match {b}_cond k n with Some c => Some ({b}_neg c) | None => None end) (seq 0%nat {NV}%nat)) (seq 0%nat {nb + 1}%nat)')
        tags.append(('neg', b))
    flagsets = {}
    for b in ('jobs_v1', 'batches_v1', 'groups_v1', 'jobs_v2', 'batches_v2', 'completed', 'billing_jobs', 'billing', 'bp_with_cost',
              'bp_without_cost'):
        nf = len(info[b]['flags'])
        for fl in itertools.product((False, True), repeat=nf):
            exprs.append(f'{b}_init ' + ' '.join(_b(x) for x in fl))
            tags.append(('init', b, fl))
    vals = coq_eval(ctx, LIST_HEADER, exprs, label='lists')
    table, init = {}, {}
    for tag, v in zip(tags, vals):
        if tag[0] in ('cond', 'neg'):
            for k, row in enumerate(v):
                for n, c in enumerate(row):
                    if c is not None:
                        cc = c[1] if isinstance(c, tuple) and c[0] == 'Some' else c
                        table.setdefault(tag[1], {})[(k, n, tag[0] == 'neg')] = _from_coq(cc)
        else:
            init[(tag[1], tag[2])] = [_from_coq(c) for c in v]
    # ---- real builders
    cases, meta = [], []
    for b, flagvals in (('jobs_v1', [(False, None), (True, 5), (True, None)]), ('jobs_v2', [(False, None), (True, 5)])):
        for q, ts in qs[b]:
            for rec, last in flagvals:
                cases.append({'builder': b, 'batch_id': 1, 'job_group_id': 1, 'q': q, 'last': last, 'recursive': rec})
                meta.append((b, (rec, last is not None), ts))
    for b in ('batches_v1', 'batches_v2'):
        for q, ts in qs[b]:
            for last in (None, 9):
                cases.append({'builder': b, 'user': 'alice', 'q': q, 'last': last})
                meta.append((b, (last is not None,), ts))
    for last in (None, 2):
        cases.append({'builder': 'groups_v1', 'batch_id': 1, 'job_group_id': 1, 'last': last})
        meta.append(('groups_v1', (last is not None,), []))
    res = ctx.run_impl('c14_lists.py', {'mode': 'where', 'cases': cases, 'seed': ctx.rng.randrange(1 << 30)}, timeout=600)['result']
    n_eval = n_envs = 0
    # single terms of the v1 builders define  term text -> (branch, nvals, negated)
    term_key = {}
    full = []          # (expr, expected real items, case)
    shapes = {}
    for c, (b, fl, ts), r in zip(cases, meta, res):
        if 'error' in r:
            dis.append(Disagreement('list-where: real builder ~ generated model (statement emitted)', c, 'a statement', r))
            continue
        n_eval += 1
        n_envs += r['n_envs']
        if r['precedence_disagreement']:
            dis.append(Disagreement('list-precedence: ListModel.run ~ MySQL precedence (minisql expression parser)', c,
                                    r['precedence_disagreement']['model_run'], r['precedence_disagreement']))
        if r['n_placeholders'] != len(r['args']):
            dis.append(Disagreement('list-where: placeholders ~ arguments', c, r['n_placeholders'], len(r['args'])))
        real = _numbered(r['items'], atoms)
        ini = _join(init[(b, fl)])
        shapes[b] = shapes.get(b, 0) + 1
        if real[:len(ini)] != ini:
            dis.append(Disagreement('list-where: real builder ~ generated model (scope conjuncts)', c, ini, real[:len(ini) + 2]))
            continue
        rest = real[len(ini):]
        # split the rest into conjuncts at the top-level ANDs the join inserted: every conjunct starts after an 'AND'
        if info[b]['style'] == 'v1':
            if len(ts) == 1 and rest[:1] == ['AND']:
                conj = rest[1:]
                hit = [k for k, v in table[b].items() if v == conj]
                if not hit:
                    dis.append(Disagreement('list-where: real builder ~ generated model (term condition is the output of no branch)',
                                            c, 'one of the generated branches', conj))
                else:
                    term_key[(b, ts[0])] = hit[0]
        elif info[b]['style'] == 'v2':
            # every further conjunct must be ONE bracket group
            ok = len(rest) % 2 == 0 and all(rest[i] == 'AND' and isinstance(rest[i + 1], list) and rest[i + 1][0] == 'G'
                                            for i in range(0, len(rest), 2))
            if not ok:
                dis.append(Disagreement('list-where: real builder ~ generated model (every condition wrapped in brackets)', c,
                                        'AND ( .. ) AND ( .. ) ...', rest[:6]))
                continue
            conds = [rest[i + 1][1] for i in range(0, len(rest), 2)]
            lits = '[' + '; '.join(_lit(cd) for cd in conds) + ']'
            full.append((f'v2_where ({b}_init {" ".join(_b(x) for x in fl)}) {b}_wrap {lits}', real, c))
        else:
            if rest:
                dis.append(Disagreement('list-where: real builder ~ generated model (fixed conjuncts)', c, [], rest[:6]))
    # multi-term v1 statements against v1_where on the term keys found above
    for c, (b, fl, ts), r in zip(cases, meta, res):
        if 'error' in r or info[b]['style'] != 'v1':
            continue
        if any((b, t) not in term_key for t in ts):
            continue
        tl = '[' + '; '.join('(%d%%nat, %d%%nat, %s)' % (k, n, _b(ng)) for (k, n, ng) in (term_key[(b, t)] for t in ts)) + ']'
        full.append((f'v1_where ({b}_init {" ".join(_b(x) for x in fl)}) {b}_cond {b}_neg {tl}', _numbered(r['items'], atoms), c))
    mvals = coq_eval(ctx, LIST_HEADER, [e for e, _, _ in full], label='listsfull')
    for (e, real, c), mv in zip(full, mvals):
        mv = mv[1] if isinstance(mv, tuple) and mv[0] == 'Some' else mv
        if mv is None or _from_coq(mv) != real:
            dis.append(Disagreement('list-where: real builder ~ generated model (whole WHERE clause)', c,
                                    None if mv is None else _from_coq(mv)[:12], real[:12]))
    # ---- billing read paths: real handlers (full stacks) -> the statement they issue = the generated builder for the flags the
    #      caller kind and the request parameters determine; the scope atoms are bound to the caller / the project of the URL
    bres = billing_results(ctx)
    n_bill = 0
    for r in bres['results']:
        if 'unsupported' in r or r.get('kind') not in BILLING_BUILDER:
            continue
        c = r['case']
        user = c['user']
        dev = user in bres['world']['developers']
        for stn in r['stmts']:
            n_bill += 1
            if 'error' in stn:
                dis.append(Disagreement('billing-where: statement of the real handler ~ generated model', c, 'a WHERE clause', stn))
                continue
            h = r['handler']
            b = BILLING_BUILDER[r['kind']]
            if b == 'billing':
                fl = (_valid_date(c['query'].get('end')), not dev)
            elif b == 'bp_without_cost':
                fl = (False, False)
            else:
                rest = r['kind'] in ('bp-api', 'bp-api-one')
                fl = ((not dev) and not (rest and user == 'auth'), r['kind'] == 'bp-api-one')
            real = _numbered(stn['items'], atoms)
            want = _join(init[(b, fl)])
            if real != want:
                dis.append(Disagreement(f'billing-where: statement of the real handler {h} ~ generated {b}_init for the flags of the caller '
                                        'kind and the request', dict(c, flags=dict(zip(info[b]['flags'], fl))), want, real))
                continue
            if stn['n_args'] != stn['n_placeholders']:
                dis.append(Disagreement('billing-where: placeholders ~ arguments', c, stn['n_placeholders'], stn['n_args']))
            for text, args in stn['bound']:
                exp = None
                if atoms.get(text) in (30, 31):
                    exp = [user]
                elif atoms.get(text) == 32:
                    exp = [str(c['match'].get('billing_project'))]
                if exp is not None and args != exp:
                    dis.append(Disagreement('billing-where: scope atom bound to the caller / the project of the URL', c, exp, [text, args]))
    shapes['billing statements'] = n_bill
    n_eval += n_bill
    # a state keyword must hit the OR-join branch with as many values as the keyword has states
    n_terms = len(term_key)
    return Corr(evaluations=n_eval + len(full), distinct_nontrivial=n_eval,
                rule=f'list endpoints: {n_eval} statements emitted by the real query builders (every search term of the v1 and v2 job and '
                     f'batch query languages alone, negated, in sampled pairs and longer lists; with/without paging; recursive or not): '
                     f'bracket/keyword structure = generated model ({len(full)} whole clauses through v1_where / v2_where, {n_terms} '
                     f'single terms matched to a generated branch); ListModel.run = MySQL precedence on {n_envs} truth assignments',
                samples=[{'case': c, 'model_expr': e[:200]} for e, _, c in full[:2]],
                disagreements=dis, histograms={'list_statements_per_builder': shapes, 'v1_term_keys': {f'{b}:{t}': list(k) for (b, t), k in sorted(term_key.items())}},
                exhaustive=False,
                names=['list-where (real builder ~ generated model)', 'list-precedence (ListModel.run ~ MySQL precedence)',
                       'billing-where (statement of the real handler ~ generated model for the caller kind and parameters)'])


def _lit(items):
    out = []
    for it in items:
        if it == 'AND':
            out.append('IAnd')
        elif it == 'OR':
            out.append('IOr')
        elif it == 'NOT':
            out.append('INot')
        elif it[0] == 'A':
            out.append(f'IAtom {it[1]}')
        else:
            out.append(f'IGroup {_lit(it[1])}')
    return '[' + '; '.join(out) + ']'


def hash_text(t):
    h = 0
    for ch in t:
        h = (h * 131 + ord(ch)) % 1000003
    return h


# ---- oracle --------------------------------------------------------------------------------------------------------------------

JOB_ROUTES = {1: ['/api/v1alpha/batches/{batch_id}/jobs', '/api/v1alpha/batches/{batch_id}/job-groups/{job_group_id}/jobs'],
              2: ['/api/v2alpha/batches/{batch_id}/jobs', '/api/v2alpha/batches/{batch_id}/job-groups/{job_group_id}/jobs']}


def oracle_cases(ctx, budget):
    big = ctx.thorough or budget > 1
    qs = query_sets(ctx, 2 if big else 1)
    pairs = [('alice', 1), ('alice', 2), ('bob', 3), ('carol', 5), ('alice', 6), ('bob', 1)]
    if big:
        pairs += [('alice', 3), ('alice', 4), ('bob', 2), ('bob', 7), ('carol', 1), ('carol', 3)]
    cases = []
    member = {('alice', 1), ('alice', 3), ('alice', 4), ('alice', 6), ('bob', 2), ('bob', 3), ('bob', 7), ('carol', 5)}
    for user, b in pairs:
        for v, key in ((1, 'jobs_v1'), (2, 'jobs_v2')):
            queries = qs[key] if (user, b) in member else qs[key][:3]
            for qi, (q, ts) in enumerate(queries):
                for path in JOB_ROUTES[v]:
                    grouped = '{job_group_id}' in path
                    variants = [{}] if qi % 3 else [{}, {'recursive': 'true'}, {'last_job_id': '5'}]
                    if grouped and qi % 2:
                        continue
                    for extra in variants:
                        match = {'batch_id': b}
                        if grouped:
                            match['job_group_id'] = 1
                        cases.append({'path': path, 'user': user, 'match': match, 'query': dict(q=q, **extra)})
        for q, ts in (qs['jobs_v2'][:40] if (user, b) in member else qs['jobs_v2'][:2]):
            cases.append({'path': '/batches/{batch_id}', 'user': user, 'match': {'batch_id': b}, 'query': {'q': q}})
        for extra in ({}, {'last_job_id': '5'}, {'limit': '3'}):
            cases.append({'path': '/api/v1alpha/batches/{batch_id}/jobs/resources', 'user': user, 'match': {'batch_id': b}, 'query': extra})
        for extra in ({}, {'last_job_group_id': '1'}):
            cases.append({'path': '/api/v1alpha/batches/{batch_id}/job-groups', 'user': user, 'match': {'batch_id': b}, 'query': extra})
            cases.append({'path': '/api/v1alpha/batches/{batch_id}/job-groups/{job_group_id}/job-groups', 'user': user,
                          'match': {'batch_id': b, 'job_group_id': 1}, 'query': extra})
    for user in ('alice', 'bob', 'carol'):
        for path, key in (('/api/v1alpha/batches', 'batches_v1'), ('/api/v2alpha/batches', 'batches_v2'), ('/batches', 'batches_v2')):
            for qi, (q, ts) in enumerate(qs[key]):
                for extra in ([{}] if qi % 4 else [{}, {'last_batch_id': '6'}]):
                    cases.append({'path': path, 'user': user, 'match': {}, 'query': dict(q=q, **extra)})
            cases.append({'path': path, 'user': user, 'match': {}, 'query': {}})           # default q
        for extra in ({}, {'last_completed_timestamp': '5006'}, {'limit': '1'}):
            cases.append({'path': '/api/v1alpha/batches/completed', 'user': user, 'match': {}, 'query': extra})
    return cases


BILLING_BUILDER = {'billing-ui': 'billing', 'bp-ui-limits': 'bp_with_cost', 'bp-api': 'bp_with_cost', 'bp-api-one': 'bp_with_cost',
                   'bp-ui-dev': 'bp_without_cost'}
BILLING_USERS = ['alice', 'bob', 'carol', 'dave', 'dev', 'auth']
BILLING_PROJECTS = ['pa', 'pb', 'pab', 'pc', 'pclosed', 'pdel', 'nope']


def _valid_date(s):
    import datetime
    if s is None or s == '':
        return False
    try:
        datetime.datetime.strptime(s, '%m/%d/%Y')
        return True
    except ValueError:
        return False


def billing_cases():
    """every caller kind x start x end on GET /billing; every caller kind x every billing project on the project reads"""
    cases = []
    starts = [None, '03/01/2024', '01/01/2020', 'garbage']
    ends = [None, '', '03/31/2024', '12/31/2030', '01/01/2019', '13/45/2024']
    for user in BILLING_USERS:
        for st in starts:
            for en in ends:
                q = {}
                if st is not None:
                    q['start'] = st
                if en is not None:
                    q['end'] = en
                cases.append({'path': '/billing', 'user': user, 'match': {}, 'query': q})
        for path in ('/billing_limits', '/billing_projects', '/api/v1alpha/billing_projects'):
            cases.append({'path': path, 'user': user, 'match': {}, 'query': {}})
        for bp in BILLING_PROJECTS:
            cases.append({'path': '/api/v1alpha/billing_projects/{billing_project}', 'user': user, 'match': {'billing_project': bp}, 'query': {}})
    return cases


def billing_results(ctx):
    if getattr(ctx, '_c14_billing', None) is None:
        ctx._c14_billing = run_cases(ctx, billing_cases())
    return ctx._c14_billing


def _classify(r):
    whys = [x['why'] for x in r['bad_rows']] + [x['why'] for x in r['bad_entries']]
    if r.get('kind') in BILLING_BUILDER:
        if r.get('refused_wrongly_served'):
            return 'served-to-unprivileged-caller'
        if any('another user' in w for w in whys):
            return 'spend-of-another-user'
        if whys:
            return 'foreign-billing-project'
        return None
    if r.get('refused_wrongly_served'):
        return 'served-to-non-member'
    if any('not a member' in w for w in whys):
        return 'foreign-billing-project-row'
    if any('another batch' in w for w in whys):
        return 'row-of-another-batch'
    if whys:
        return 'row-outside-job-group'
    return None


def run_cases(ctx, cases):
    out = ctx.run_impl('c14_lists.py', {'mode': 'run', 'cases': cases}, timeout=1500)['result']
    return out


def oracle(ctx, budget):
    cases = oracle_cases(ctx, budget)
    out = run_cases(ctx, cases)
    bres = billing_results(ctx)
    out['results'] = out['results'] + bres['results']
    out['world'] = bres['world']
    if out['missing_routes']:
        raise RuntimeError(f'listing routes not registered by the real run(): {out["missing_routes"]} (update LIST_ROUTES of c14_lists.py)')
    fails = {}
    n = nonempty = 0
    hist = {}
    for r in out['results']:
        if 'unsupported' in r:
            raise RuntimeError(f'statement outside the minisql subset: {r["unsupported"]} (case {r["case"]})')
        n += 1
        st = str(r['status'])
        hist[st] = hist.get(st, 0) + 1
        if r.get('n'):
            nonempty += 1
        cls = _classify(r)
        if cls is None:
            continue
        path = r['case']['path']
        key = f'list GET {path}|{cls}'
        if key not in fails or len(r['case']['query'].get('q', '')) < len(fails[key].case['query'].get('q', '')):
            fails[key] = Failure(key, f'GET {path} ({r.get("handler")}) as {r["case"]["user"]} with query {r["case"]["query"]!r}: {cls}',
                                 dict(r['case'], list=True, world=out['world']),
                                 'every fetched row and every listed entry belongs to the batch / job group of the URL and to a billing '
                                 'project the caller is a member of; a non-member gets 404; billing: a caller who is neither a developer '
                                 'nor the auth service is shown spend rows of his own user and billing projects he is a member of only',
                                 {'status': r['status'], 'n_entries': r.get('n'), 'bad_rows': r['bad_rows'], 'bad_entries': r['bad_entries']})
    return list(fails.values()), {'evaluations': n, 'distinct_nontrivial': nonempty,
                                  'rule': 'list oracle: real listing handlers (full decorator stacks) on a 7-batch / 4-billing-project / 3-user '
                                          'minisql database; non-trivial = the response lists at least one entry', 'status_histogram': hist}


def replay(ctx, doc):
    case = dict(doc.get('case') or doc)
    case.pop('list', None)
    case.pop('world', None)
    out = run_cases(ctx, [case])
    r = out['results'][0]
    return {'case': case, 'result': r, 'violations': [r] if ('unsupported' not in r and _classify(r)) else []}
