"""Fail-closed translator for hail/hail/src/is/hail/types/encoded/EType.scala :: EType.fromPythonTypeEncoding
(the `t match { case ... }` table that fixes which encoded type the engine uses to READ a Python-encoded value)
into a Gallina function over the type universe of HailV.HailValues.Model.

Only the shape that function has today is accepted:
    case <pattern> => <expr>
with <expr> built from EType constructor applications, `EField("name", <expr>, <index>)` inside `ArraySeq(...)`,
recursive calls `fromPythonTypeEncoding(t.pointType | t.elementType)`, `.setRequired(<bool>)`, `t.nDims`, named argument
`required = <bool>`, and the one `ArraySeq.tabulate(t.size) { i => ... }` block of the TBaseStruct case (compared
token by token with the expected text).  Anything else raises TieBroken.

A case applies to a model type constructor when its pattern's class is the constructor's Scala class or one of its
super classes; as in Scala the FIRST applicable case wins, so re-ordering the cases changes the generated function.
"""
import re

from harness.core import TieBroken

SRC = 'hail/hail/src/is/hail/types/encoded/EType.scala'

# model constructor -> (Scala class, its super classes up to Type)   [checked against the `class ... extends ...` lines]
HIERARCHY = {
    'TInt32': ['TInt32'], 'TInt64': ['TInt64'], 'TFloat32': ['TFloat32'], 'TFloat64': ['TFloat64'],
    'TBool': ['TBoolean'], 'TStr': ['TString'], 'TCall': ['TCall'], 'TLocus': ['TLocus'], 'TInterval': ['TInterval'],
    'TDict': ['TDict', 'TContainer', 'TIterable'], 'TSet': ['TSet', 'TContainer', 'TIterable'],
    'TArray': ['TArray', 'TContainer', 'TIterable'], 'TStruct': ['TStruct', 'TBaseStruct'],
    'TTuple': ['TTuple', 'TBaseStruct'], 'TNDArray': ['TNDArray'],
}
EXTENDS_CHECKS = [  # (file, regex that must match)
    ('hail/hail/src/is/hail/types/virtual/TDict.scala', r'case class TDict\(keyType: Type, valueType: Type\) extends TContainer'),
    ('hail/hail/src/is/hail/types/virtual/TDict.scala',
     r'lazy val elementType: TBaseStruct =\s*\(TStruct\("key" -> keyType, "value" -> valueType\)\)'),
    ('hail/hail/src/is/hail/types/virtual/TSet.scala', r'case class TSet\(elementType: Type\) extends TContainer'),
    ('hail/hail/src/is/hail/types/virtual/TArray.scala', r'case class TArray\(elementType: Type\) extends TContainer'),
    ('hail/hail/src/is/hail/types/virtual/TContainer.scala', r'abstract class TContainer extends TIterable'),
    ('hail/hail/src/is/hail/types/virtual/TStruct.scala', r'case class TStruct\(fields: IndexedSeq\[Field\]\) extends TBaseStruct'),
    ('hail/hail/src/is/hail/types/virtual/TTuple.scala', r'case class TTuple\(_types: IndexedSeq\[TupleField\]\) extends TBaseStruct'),
    # the engine reads an EncodedLiteral with exactly this EType over the unblocked, uncompressed stream buffer
    ('hail/hail/src/is/hail/expr/ir/Parser.scala',
     r'TypedCodecSpec\(\s*EType\.fromPythonTypeEncoding\(typ\),\s*typ,\s*BufferSpec\.unblockedUncompressed,?\s*\)'),
    ('hail/hail/src/is/hail/io/BufferSpecs.scala', r'val unblockedUncompressed: BufferSpec = new StreamBufferSpec'),
]

SCALAR_CTORS = {'EInt32', 'EInt64', 'EFloat32', 'EFloat64', 'EBoolean', 'EBinary'}
TABULATE_TOKENS = ['ArraySeq', '.', 'tabulate', '(', 't', '.', 'size', ')', '{', 'i', '=>', 'val', 'f', '=', 't', '.', 'fields', '(', 'i',
                   ')', 'if', '(', 'f', '.', 'index', '!=', 'i', ')', 'throw', 'new', 'AssertionError', '(', 's"$t [$i]"', ')',
                   'EField', '(', 'f', '.', 'name', ',', 'fromPythonTypeEncoding', '(', 't', '.', 'fields', '(', 'i', ')', '.',
                   'typ', ')', ',', 'f', '.', 'index', ')', '}']

_TOK = re.compile(r'\s*(?:(s?"(?:[^"\\]|\\.)*")|(\d+)|([A-Za-z_][A-Za-z_0-9]*)|(=>|!=|[(){}.,=:_]))')


def _fail(msg):
    raise TieBroken('scala-etype-translator', msg)


def tokenize(text):
    toks, pos = [], 0
    text = re.sub(r'//[^\n]*', '', text)
    while pos < len(text):
        if text[pos:].strip() == '':
            break
        m = _TOK.match(text, pos)
        if not m:
            _fail(f'cannot tokenize at {text[pos:pos + 40]!r}')
        pos = m.end()
        toks.append(m.group(1) or m.group(2) or m.group(3) or m.group(4))
    return toks


def extract_function(src):
    m = re.search(r'def fromPythonTypeEncoding\(t: Type\): EType = t match \{', src)
    if not m:
        _fail('def fromPythonTypeEncoding(t: Type): EType = t match { ... } not found')
    depth, i = 1, m.end()
    while i < len(src) and depth:
        depth += {'{': 1, '}': -1}.get(src[i], 0)
        i += 1
    if depth:
        _fail('unbalanced braces')
    return src[m.end():i - 1]


def split_cases(toks):
    cases, cur, depth = [], None, 0
    for t in toks:
        if t in '({':
            depth += 1
        elif t in ')}':
            depth -= 1
        if t == 'case' and depth == 0:
            if cur is not None:
                cases.append(cur)
            cur = []
        elif cur is None:
            _fail(f'text before the first case: {t!r}')
        else:
            cur.append(t)
    if cur is not None:
        cases.append(cur)
    return cases


def parse_pattern(toks):
    """-> (scala class, binder or None)"""
    if len(toks) == 1 and re.fullmatch(r'T\w+', toks[0]):
        return toks[0], None
    if len(toks) == 4 and toks[1] == '(' and toks[2] == '_' and toks[3] == ')':
        return toks[0], None
    if len(toks) == 3 and toks[1] == ':':
        return toks[2], toks[0]
    _fail(f'unsupported case pattern {" ".join(toks)!r}')


class P:
    """Recursive-descent parser of the expression subset -> AST tuples."""

    def __init__(self, toks):
        self.t, self.i = toks, 0

    def peek(self, k=0):
        return self.t[self.i + k] if self.i + k < len(self.t) else None

    def eat(self, x):
        if self.peek() != x:
            _fail(f'expected {x!r}, found {self.peek()!r} in {" ".join(self.t)[:120]!r}')
        self.i += 1

    def expr(self):
        if self.t[self.i:self.i + len(TABULATE_TOKENS)] == TABULATE_TOKENS:
            self.i += len(TABULATE_TOKENS)
            return ('tabulate',)
        tok = self.peek()
        if tok is None:
            _fail('unexpected end of expression')
        self.i += 1
        if tok in ('true', 'false'):
            e = ('bool', tok == 'true')
        elif tok.isdigit():
            e = ('int', int(tok))
        elif tok.startswith('"'):
            e = ('str', bytes(tok[1:-1], 'utf-8').decode('unicode_escape'))
        elif re.fullmatch(r'[A-Za-z_]\w*', tok):
            e = ('id', tok)
        else:
            _fail(f'unexpected token {tok!r}')
        while True:
            if self.peek() == '(':
                self.i += 1
                args = []
                while self.peek() != ')':
                    if re.fullmatch(r'[a-z]\w*', self.peek() or '') and self.peek(1) == '=':
                        name = self.peek()
                        self.i += 2
                        args.append(('named', name, self.expr()))
                    else:
                        args.append(self.expr())
                    if self.peek() == ',':
                        self.i += 1
                self.eat(')')
                e = ('call', e, args)
            elif self.peek() == '.':
                self.i += 1
                name = self.peek()
                if not re.fullmatch(r'[A-Za-z_]\w*', name or ''):
                    _fail(f'bad selector {name!r}')
                self.i += 1
                e = ('sel', e, name)
            else:
                return e


def coq_name(s):
    return '[' + '; '.join(f'{ord(c)}%N' for c in s) + ']'


def _bool(e, what):
    if e[0] == 'named' and e[1] == 'required':
        e = e[2]
    if e[0] != 'bool':
        _fail(f'{what}: expected a boolean literal, got {e!r}')
    return 'true' if e[1] else 'false'


class Tr:
    """AST -> Gallina for one case. `ctx` is the model constructor; `fields` the Gallina term for the struct field list
    (used by the `tabulate` block)."""

    def __init__(self, ctx, binder, fields=None):
        self.ctx, self.binder, self.fields = ctx, binder, fields
        self.base_struct_case = None

    def rec(self, arg):
        """fromPythonTypeEncoding(t.<sel>)"""
        if not (arg[0] == 'sel' and arg[1] == ('id', self.binder)):
            _fail(f'recursive call on something other than a component of the matched type: {arg!r}')
        sel = arg[2]
        if sel == 'pointType' and self.ctx == 'TInterval':
            return '(etype_of point)'
        if sel == 'elementType' and self.ctx in ('TSet', 'TArray', 'TNDArray'):
            return '(etype_of elt)'
        if sel == 'elementType' and self.ctx == 'TDict':
            # TDict.elementType = TStruct("key" -> keyType, "value" -> valueType): the TBaseStruct case applied to it
            if self.base_struct_case is None:
                _fail('TDict case needs the TBaseStruct case')
            return self.base_struct_case(f'[({coq_name("key")}, etype_of key); ({coq_name("value")}, etype_of val)]')
        _fail(f'unsupported component {sel!r} of {self.ctx}')

    def tr(self, e):
        k = e[0]
        if k == 'call' and e[1][0] == 'id':
            f, args = e[1][1], e[2]
            if f in SCALAR_CTORS:
                if len(args) != 1:
                    _fail(f'{f} takes one argument')
                return f'({f} {_bool(args[0], f)})'
            if f == 'fromPythonTypeEncoding':
                if len(args) != 1:
                    _fail('fromPythonTypeEncoding takes one argument')
                return self.rec(args[0])
            if f in ('EArray', 'EUnsortedSet', 'EDictAsUnsortedArrayOfPairs'):
                if len(args) != 2:
                    _fail(f'{f} takes two arguments')
                return f'({f} {self.tr(args[0])} {_bool(args[1], f)})'
            if f == 'ENDArrayColumnMajor':
                if len(args) != 3 or args[1] != ('sel', ('id', self.binder), 'nDims'):
                    _fail('ENDArrayColumnMajor(<elt>, t.nDims, <bool>) expected')
                return f'(ENDArrayColumnMajor {self.tr(args[0])} ndim {_bool(args[2], f)})'
            if f == 'EBaseStruct':
                if len(args) != 2:
                    _fail('EBaseStruct(fields, required) expected')
                return f'(EBaseStruct {self.fields_of(args[0])} {_bool(args[1], f)})'
            _fail(f'unsupported constructor {f}')
        if k == 'call' and e[1][0] == 'sel' and e[1][2] == 'setRequired':
            if len(e[2]) != 1:
                _fail('setRequired takes one argument')
            return f'(set_required {self.tr(e[1][1])} {_bool(e[2][0], "setRequired")})'
        _fail(f'unsupported expression {e!r}')

    def fields_of(self, e):
        if e == ('tabulate',):
            if self.fields is None:
                _fail('ArraySeq.tabulate outside the TBaseStruct case')
            return self.fields
        if e[0] == 'call' and e[1] == ('id', 'ArraySeq'):
            out = []
            for i, fe in enumerate(e[2]):
                if not (fe[0] == 'call' and fe[1] == ('id', 'EField') and len(fe[2]) == 3 and fe[2][0][0] == 'str'):
                    _fail(f'EField("name", <etype>, <index>) expected, got {fe!r}')
                if fe[2][2] != ('int', i):
                    _fail(f'EField index {fe[2][2]!r} at position {i} (EBaseStruct asserts index == position)')
                out.append(f'({coq_name(fe[2][0][1])}, {self.tr(fe[2][1])})')
            return '[' + '; '.join(out) + ']'
        _fail(f'unsupported field list {e!r}')


PATTERN_BINDERS = {
    'TInt32': 'TInt32', 'TInt64': 'TInt64', 'TFloat32': 'TFloat32', 'TFloat64': 'TFloat64', 'TBool': 'TBool', 'TStr': 'TStr',
    'TCall': 'TCall', 'TLocus': 'TLocus _', 'TInterval': 'TInterval point', 'TDict': 'TDict key val', 'TSet': 'TSet elt',
    'TArray': 'TArray elt', 'TStruct': 'TStruct fs', 'TTuple': 'TTuple ts', 'TNDArray': 'TNDArray elt ndim',
}
STRUCT_FIELDS = ('((fix go (fs : list (name * ty)) : list (name * etype) :=\n'
                 '            match fs with [] => [] | f :: fs\' => (fst f, etype_of (snd f)) :: go fs\' end) fs)')
TUPLE_FIELDS = ('(combine (tuple_names_from 0%N (length ts))\n'
                '            ((fix go (ts : list ty) : list etype :=\n'
                '                match ts with [] => [] | t\' :: ts\' => etype_of t\' :: go ts\' end) ts))')


def translate(read_repo):
    """read_repo(rel) -> text.  Returns the text of coq/generated/C33/Gen.v."""
    for rel, rx in EXTENDS_CHECKS:
        try:
            txt = read_repo(rel)
        except OSError as e:
            _fail(f'{rel}: {e}')
        if not re.search(rx, txt):
            _fail(f'{rel}: expected /{rx}/ (class hierarchy / element type / buffer spec the model relies on)')
    body = extract_function(read_repo(SRC))
    cases = []
    for c in split_cases(tokenize(body)):
        if '=>' not in c:
            _fail(f'case without =>: {" ".join(c)[:80]}')
        j = c.index('=>')
        cls, binder = parse_pattern(c[:j])
        p = P(c[j + 1:])
        ast = p.expr()
        if p.i != len(p.t):
            _fail(f'trailing tokens in case {cls}: {" ".join(p.t[p.i:])[:80]!r}')
        cases.append((cls, binder, ast))

    def pick(ctor):
        for cls, binder, ast in cases:
            if cls in HIERARCHY[ctor]:
                return cls, binder, ast
        _fail(f'no case of fromPythonTypeEncoding applies to {ctor} (scala.MatchError)')

    # the TBaseStruct case as a function of the field list (needed for TDict.elementType)
    bcls, bbinder, bast = pick('TStruct')

    def base_struct_case(fields):
        return Tr('TStruct', bbinder, fields).tr(bast)

    arms, used = [], []
    for ctor in HIERARCHY:
        cls, binder, ast = pick(ctor)
        used.append((ctor, cls))
        tr = Tr(ctor, binder, {'TStruct': STRUCT_FIELDS, 'TTuple': TUPLE_FIELDS}.get(ctor))
        tr.base_struct_case = base_struct_case
        arms.append(f'  | {PATTERN_BINDERS[ctor]} =>   (* case {cls} *)\n      {tr.tr(ast)}')
    text = (f'(* GENERATED by harness/translate/scala_etype.py from {SRC} :: EType.fromPythonTypeEncoding — do not edit *)\n'
            'From HailV Require Import Common.Prelude HailValues.Model HailEncoding.Model HailEncoding.Engine.\n\n'
            'Fixpoint etype_of (t : ty) : etype :=\n  match t with\n' + '\n'.join(arms) + '\n  end.\n')
    return text, used, [c[0] for c in cases]
