"""Fail-closed translators for C34 (call packing): Scala `def` bodies and Python functions -> Gallina in an exception monad.

Both front ends emit terms over the combinators of coq/theories/CallPacking/Model.v:
    ret bind lift1 lift2 ite fail_if require_ and_sc or_sc call1..call4 unpack2
every translated expression has type `option T` (None = the implementation throws), evaluation order is left-to-right.

Scala subset (arithmetic one-liners and small blocks of is/hail/variant/{Call,Genotype}.scala):
    def f(p: T [= lit], ...): T = expr | { stmts }
    stmts: val/var x [: T] = e | x |= e | if (c) fatal(..)/throw .. | require(c, ..) | assert(c[, ..]) | result expr
    expr : Int/hex literals, true/false, params/vals, unary ! -, binary * / + - << >> >>> < <= > >= == != & ^ | && ||
           (Scala precedence by first character), if (c) e else e, f(args) / Obj.f(args) / Obj(args) with named and
           default arguments, b.toInt, arr(i), arr.length, and the one float idiom (Math.sqrt(8 * i.toDouble + 1) / 2 - 0.5).toInt
    Int operations wrap to 32 bits (i_add, i_mul, i_shl, ...), Int division by zero and array index errors throw.
Python subset (functions of hail/expr/types.py and hail/genetics/call.py), see PyFront.
Anything else raises TieBroken.
"""
from __future__ import annotations

import ast
import re
from typing import Dict, List, Optional, Tuple

from harness.core import TieBroken


class ScalaUnsupported(TieBroken):
    def __init__(self, where, why):
        super().__init__('scala-translator', f'{where}: {why}')


# ------------------------------------------------------------------------------------------------
# Scala tokenizer

_TOK = re.compile(r'''
    (?P<ws>[ \t\r]+) | (?P<nl>\n) | (?P<lc>//[^\n]*) | (?P<bc>/\*.*?\*/)
  | (?P<str>[a-zA-Z]?"""(?:.|\n)*?""" | [a-zA-Z]?"(?:[^"\\\n]|\\.)*")
  | (?P<chr>'(?:[^'\\]|\\.)')
  | (?P<num>0[xX][0-9a-fA-F]+[lL]? | \d+\.\d+(?:[eE][-+]?\d+)?[dDfF]? | \d+[lLdDfF]?)
  | (?P<id>[A-Za-z_][A-Za-z0-9_]*)
  | (?P<op>>>>=|>>>|<<=|>>=|<<|>>|<=|>=|==|!=|&&|\|\||\|=|&=|\^=|\+=|-=|\*=|/=|=>|<-|[-+*/%&|^!<>=(){}\[\],.:;@#~?])
''', re.X | re.S)


def scala_tokens(src: str) -> List[Tuple[str, str, int]]:
    out = []
    pos = 0
    line = 1
    while pos < len(src):
        m = _TOK.match(src, pos)
        if not m:
            raise ScalaUnsupported(f'line {line}', f'cannot tokenize {src[pos:pos + 20]!r}')
        kind = m.lastgroup
        text = m.group()
        if kind == 'nl':
            out.append(('nl', '\n', line))
        elif kind in ('ws', 'lc', 'bc'):
            pass
        else:
            out.append((kind, text, line))
        line += text.count('\n')
        pos = m.end()
    out.append(('eof', '', line))
    return out


# Scala infix precedence is determined by the operator's first character (lowest first)
_PREC_BY_FIRST = [('|',), ('^',), ('&',), ('=', '!'), ('<', '>'), (':',), ('+', '-'), ('*', '/', '%')]
_BINOPS = {'*', '/', '%', '+', '-', '<<', '>>', '>>>', '<', '<=', '>', '>=', '==', '!=', '&', '^', '|', '&&', '||'}


def _prec(op: str) -> int:
    for i, firsts in enumerate(_PREC_BY_FIRST):
        if op[0] in firsts:
            return i
    raise KeyError(op)


class ScalaDef:
    def __init__(self, obj, name, params, ret, start):
        self.obj, self.name, self.params, self.ret, self.start = obj, name, params, ret, start   # params: [(name, type, default_tokens|None)]
        self.coq_name = None


class ScalaFront:
    """Parses one .scala source and translates selected defs / vals."""

    INT_TYPES = {'Int': 'Int', 'Call': 'Int', 'Boolean': 'Boolean'}
    check_ret_loosely = False      # subclasses with abstract result types (Array[Double] ...) set this

    def __init__(self, src: str, fname: str):
        self.fname = fname
        self.toks = scala_tokens(src)
        self.defs: Dict[Tuple[str, str, int], ScalaDef] = {}      # (object, name, arity) -> def
        self.vals: Dict[Tuple[str, str], int] = {}                # (object, name) -> token index of `val`
        self.objects = set()
        self._index()
        self.known: Dict[Tuple[str, str, int], ScalaDef] = {}     # translated so far (callable)
        self.known_vals: Dict[Tuple[str, str], Tuple[str, str]] = {}   # (object, name) -> (coq name, type)

    # ---- indexing: object scopes and def positions
    def _index(self):
        t = self.toks
        depth = 0
        stack: List[Tuple[str, int]] = []      # (object name, depth at which its body opened)
        pending_obj = None
        i = 0
        while i < len(t):
            k, s, _ = t[i]
            if k == 'id' and s == 'object' and t[i + 1][0] == 'id':
                pending_obj = t[i + 1][1]
                self.objects.add(pending_obj)
            if k == 'op' and s == '{':
                depth += 1
                if pending_obj is not None:
                    stack.append((pending_obj, depth))
                    pending_obj = None
            elif k == 'op' and s == '}':
                if stack and stack[-1][1] == depth:
                    stack.pop()
                depth -= 1
            elif k == 'id' and s == 'def' and stack and stack[-1][1] == depth and t[i + 1][0] == 'id':
                name = t[i + 1][1]
                arity = self._count_params(i + 2)
                if arity is not None:
                    self.defs.setdefault((stack[-1][0], name, arity), ScalaDef(stack[-1][0], name, None, None, i))
            elif k == 'id' and s == 'val' and stack and stack[-1][1] == depth and t[i + 1][0] == 'id':
                self.vals.setdefault((stack[-1][0], t[i + 1][1]), i)
            i += 1

    def _count_params(self, i) -> Optional[int]:
        t = self.toks
        if t[i][1] != '(':
            return None
        depth = 0
        n = 0
        seen = False
        while True:
            k, s, _ = t[i]
            if k == 'eof':
                return None
            if s in '([{' and k == 'op':
                depth += 1
            elif s in ')]}' and k == 'op':
                depth -= 1
                if depth == 0:
                    return n + (1 if seen else 0)
            elif s == ',' and depth == 1:
                n += 1
            elif k != 'nl':
                seen = True
            i += 1

    # ---- token cursor
    def _where(self):
        return f'{self.fname}:{self.toks[self.i][2]}'

    def peek(self, skip_nl=False):
        j = self.i
        if skip_nl:
            while self.toks[j][0] == 'nl':
                j += 1
        return self.toks[j]

    def next(self, skip_nl=False):
        if skip_nl:
            self.skip_nl()
        tok = self.toks[self.i]
        self.i += 1
        return tok

    def skip_nl(self):
        while self.toks[self.i][0] == 'nl':
            self.i += 1

    def expect(self, text, skip_nl=False):
        tok = self.next(skip_nl)
        if tok[1] != text:
            raise ScalaUnsupported(f'{self.fname}:{tok[2]}', f'expected `{text}`, found `{tok[1]}`')
        return tok

    # ---- public API
    def translate_def(self, obj: str, name: str, arity: int, coq_name: str) -> str:
        d = self.defs.get((obj, name, arity))
        if d is None:
            raise ScalaUnsupported(self.fname, f'def {obj}.{name}/{arity} not found')
        self.i = d.start
        self.cur_obj = obj
        self.expect('def')
        self.next()
        params = self._params()
        ret = None
        if self.peek()[1] == ':':
            self.next()
            ret = self._type()
        self.expect('=')
        self.env: Dict[str, str] = {p[0]: p[1] for p in params}
        self.paren = 0
        body, ty = self._body()
        if ret is not None and self.INT_TYPES.get(ret, ret if self.check_ret_loosely else None) != ty and not (self.check_ret_loosely and ret not in self.INT_TYPES):
            raise ScalaUnsupported(f'{obj}.{name}', f'body has type {ty}, declared {ret}')
        d.params, d.ret, d.coq_name = params, ty, coq_name
        self.known[(obj, name, arity)] = d
        ps = ' '.join(f'({p} : {self.coq_ty(t)})' for p, t, _ in params)
        return f'Definition {coq_name} {ps} : option {self.coq_ty(ty)} :=\n  {body}.'

    COQ_TYPES = {'Int': 'Z', 'Boolean': 'bool'}

    def coq_ty(self, t):
        return self.COQ_TYPES[t]

    def translate_array_val(self, obj: str, name: str, coq_name: str) -> str:
        """`val name: Array[Int] = Array(e1, ..., en)` -> list (option Z) and its defined elements."""
        idx = self.vals.get((obj, name))
        if idx is None:
            raise ScalaUnsupported(self.fname, f'val {obj}.{name} not found')
        self.i = idx
        self.cur_obj = obj
        self.env = {}
        self.paren = 0
        self.expect('val')
        self.next()
        if self.peek()[1] == ':':
            self.next()
            ty = self._type()
            if ty != 'Array[Int]':
                raise ScalaUnsupported(f'{obj}.{name}', f'expected Array[Int], found {ty}')
        self.expect('=')
        tok = self.next(True)
        if tok[1] != 'Array':
            raise ScalaUnsupported(f'{obj}.{name}', 'expected Array(...)')
        self.expect('(')
        self.paren += 1
        elems = []
        while True:
            if self.peek(True)[1] == ')':
                self.next(True)
                break
            e, ty = self._expr()
            if ty != 'Int':
                raise ScalaUnsupported(f'{obj}.{name}', 'non-Int element')
            elems.append(e)
            tok = self.next(True)
            if tok[1] == ')':
                break
            if tok[1] != ',':
                raise ScalaUnsupported(f'{obj}.{name}', f'unexpected `{tok[1]}` in Array(...)')
        self.paren -= 1
        self.known_vals[(obj, name)] = (coq_name, 'Array[Int]')
        body = ';\n   '.join(elems)
        return (f'Definition {coq_name}_opt : list (option Z) :=\n  [{body}].\n'
                f'Definition {coq_name} : list Z := somes {coq_name}_opt.')

    # ---- declarations
    def _type(self) -> str:
        tok = self.next()
        if tok[0] != 'id':
            raise ScalaUnsupported(self._where(), f'type expected, found `{tok[1]}`')
        s = tok[1]
        while self.peek()[1] == '.':
            self.next()
            s += '.' + self.next()[1]
        if self.peek()[1] == '[':
            self.next()
            inner = [self._type()]
            while self.peek()[1] == ',':
                self.next()
                inner.append(self._type())
            self.expect(']')
            s += '[' + ','.join(inner) + ']'
        return s

    def _params(self):
        self.expect('(')
        params = []
        while True:
            tok = self.next(True)
            if tok[1] == ')':
                break
            if tok[0] != 'id':
                raise ScalaUnsupported(self._where(), f'parameter name expected, found `{tok[1]}`')
            self.expect(':')
            ty = self._type()
            if ty not in self.INT_TYPES:
                raise ScalaUnsupported(self._where(), f'parameter type {ty} outside the subset')
            default = None
            if self.peek()[1] == '=':
                self.next()
                neg = False
                if self.peek()[1] == '-':
                    self.next()
                    neg = True
                lit = self.next()
                if lit[0] == 'num':
                    default = (f'(ret ({"-" if neg else ""}{self._int(lit)}))', 'Int')
                elif lit[1] in ('true', 'false') and not neg:
                    default = (f'(ret {lit[1]})', 'Boolean')
                else:
                    raise ScalaUnsupported(self._where(), 'default value must be a literal')
            params.append((tok[1], self.INT_TYPES[ty], default))
            tok = self.next(True)
            if tok[1] == ')':
                break
            if tok[1] != ',':
                raise ScalaUnsupported(self._where(), f'`,` expected in parameter list, found `{tok[1]}`')
        return params

    def _int(self, tok) -> int:
        s = tok[1]
        if re.fullmatch(r'0[xX][0-9a-fA-F]+', s):
            v = int(s, 16)
            return v - (1 << 32) if v >= (1 << 31) else v        # hex literals are Int bit patterns
        if re.fullmatch(r'\d+', s):
            v = int(s)
            if v >= (1 << 31):
                raise ScalaUnsupported(self._where(), 'Int literal out of range')
            return v
        raise ScalaUnsupported(self._where(), f'literal `{s}` outside the subset')

    # ---- bodies and statements
    def _body(self):
        self.skip_nl()
        if self.peek()[1] == '{':
            return self._block()
        return self._expr()

    def _block(self):
        self.expect('{')
        saved_env = dict(self.env)
        saved_paren = self.paren
        self.paren = 0
        res = self._stmts()
        self.expect('}', True)
        self.env = saved_env
        self.paren = saved_paren
        return res

    def _skip_call_args(self):
        """skip a balanced (...) argument list without interpreting it (messages of fatal/require/assert)"""
        self.expect('(')
        depth = 1
        while depth:
            tok = self.next()
            if tok[0] == 'eof':
                raise ScalaUnsupported(self._where(), 'unbalanced parentheses')
            if tok[0] == 'op' and tok[1] in '([{':
                depth += 1
            elif tok[0] == 'op' and tok[1] in ')]}':
                depth -= 1

    def _skip_rest_of_args_after_first(self):
        """after the condition of require/assert: `)` or `, message...)`"""
        tok = self.next(True)
        if tok[1] == ')':
            return
        if tok[1] != ',':
            raise ScalaUnsupported(self._where(), f'unexpected `{tok[1]}` after condition')
        depth = 1
        while depth:
            tok = self.next()
            if tok[0] == 'eof':
                raise ScalaUnsupported(self._where(), 'unbalanced parentheses')
            if tok[0] == 'op' and tok[1] in '([{':
                depth += 1
            elif tok[0] == 'op' and tok[1] in ')]}':
                depth -= 1

    def _is_thrower(self) -> bool:
        """at `fatal(` | `throw` | `{ throw ... }`"""
        j = self.i
        while self.toks[j][0] == 'nl':
            j += 1
        if self.toks[j][1] in ('fatal', 'throw'):
            return True
        if self.toks[j][1] == '{':
            j += 1
            while self.toks[j][0] == 'nl':
                j += 1
            return self.toks[j][1] in ('fatal', 'throw')
        return False

    def _skip_thrower(self):
        self.skip_nl()
        braces = False
        if self.peek()[1] == '{':
            self.next()
            self.skip_nl()
            braces = True
        tok = self.next()
        if tok[1] == 'fatal':
            self._skip_call_args()
        elif tok[1] == 'throw':
            depth = 0
            while True:
                t = self.peek()
                if t[0] == 'eof' or (depth == 0 and (t[0] == 'nl' or t[1] == '}' or t[1] == ';')):
                    break
                if t[0] == 'op' and t[1] in '([{':
                    depth += 1
                elif t[0] == 'op' and t[1] in ')]}':
                    depth -= 1
                self.next()
        else:
            raise ScalaUnsupported(self._where(), 'thrower expected')
        if braces:
            self.expect('}', True)

    def _skip_to_block_end(self):
        """position the cursor at the `}` that closes the current block"""
        depth = 0
        while True:
            t = self.toks[self.i]
            if t[0] == 'eof':
                raise ScalaUnsupported(self._where(), 'unbalanced braces')
            if t[0] == 'op' and t[1] in '([{':
                depth += 1
            elif t[0] == 'op' and t[1] in ')]}':
                if depth == 0:
                    return
                depth -= 1
            self.i += 1

    FLOAT_IDIOM = '(Math.sqrt(8*i.toDouble+1)/2-0.5).toInt'
    COMPOUND = ('|=', '&=', '^=', '+=', '-=', '*=')

    def _compound_assign(self):
        name = self.next()[1]
        op = self.next()[1][:-1]
        if self.env.get(name) != 'Int':
            raise ScalaUnsupported(self._where(), f'compound assignment to {name}')
        e, ty = self._expr()
        if ty != 'Int':
            raise ScalaUnsupported(self._where(), 'compound assignment of non-Int')
        val, _ = self._apply_binop(op, (f'(ret {name})', 'Int'), (e, ty))
        return name, val

    stop_after = None          # (val name, result text builder) - translate a prefix of a body: stop after `val name = ...`

    def _stmts(self):
        """returns (gallina text, type) of the statement sequence up to the closing brace"""
        self.skip_nl()
        while self.peek()[1] == ';':
            self.next()
            self.skip_nl()
        tok = self.peek()
        if tok[1] == '}':
            raise ScalaUnsupported(self._where(), 'block without result expression')
        if tok[1] in ('val', 'var'):
            self.next()
            name = self.next()[1]
            declared = None
            if self.peek()[1] == ':':
                self.next()
                declared = self._type()
            self.expect('=')
            # the single floating-point idiom
            j = self.i
            text = ''
            while self.toks[j][0] not in ('nl', 'eof'):
                text += self.toks[j][1]
                j += 1
            if text == self.FLOAT_IDIOM:
                if self.env.get('i') != 'Int':
                    raise ScalaUnsupported(self._where(), 'float idiom over a non-Int i')
                self.i = j
                e, ty = '(ret (fsqrt_k i))', 'Int'
            else:
                e, ty = self._expr()
            if declared is not None and self.INT_TYPES.get(declared) != ty:
                raise ScalaUnsupported(self._where(), f'val {name}: {declared} initialised with {ty}')
            self.env[name] = ty
            if self.stop_after is not None and self.stop_after[0] == name:
                rest, rty = self.stop_after[1](self.env)
                self._skip_to_block_end()
            else:
                rest, rty = self._stmts()
            return f'bind {e} (fun {name} =>\n  {rest})', rty
        if tok[1] == 'if':
            # guard statement `if (c) fatal(..)` (no else) or an if-expression as the block result
            save = self.i
            self.next()
            self.expect('(')
            self.paren += 1
            c, cty = self._expr()
            self.paren -= 1
            self.expect(')', True)
            if cty != 'Boolean':
                raise ScalaUnsupported(self._where(), 'non-Boolean condition')
            if self._is_thrower():
                self._skip_thrower()
                if self.peek(True)[1] == 'else':
                    raise ScalaUnsupported(self._where(), 'throwing if with else')
                rest, rty = self._stmts()
                return f'fail_if {c}\n  ({rest})', rty
            # imperative form: if (c) x op= e1 else x op= e2
            self.skip_nl()
            if self.peek()[0] == 'id' and self.toks[self.i + 1][1] in self.COMPOUND:
                n1, v1 = self._compound_assign()
                if self.peek(True)[1] != 'else':
                    raise ScalaUnsupported(self._where(), 'assignment if without else')
                self.next(True)
                self.skip_nl()
                if not (self.peek()[0] == 'id' and self.toks[self.i + 1][1] in self.COMPOUND):
                    raise ScalaUnsupported(self._where(), 'else branch is not an assignment')
                n2, v2 = self._compound_assign()
                if n1 != n2:
                    raise ScalaUnsupported(self._where(), 'branches assign different variables')
                rest, rty = self._stmts()
                return f'bind (ite {c} {v1} {v2}) (fun {n1} =>\n  {rest})', rty
            self.i = save
        if tok[1] in ('require', 'assert') and self.toks[self.i + 1][1] == '(':
            self.next()
            self.expect('(')
            self.paren += 1
            c, cty = self._expr()
            self.paren -= 1
            if cty != 'Boolean':
                raise ScalaUnsupported(self._where(), 'non-Boolean condition')
            self._skip_rest_of_args_after_first()
            rest, rty = self._stmts()
            return f'require_ {c}\n  ({rest})', rty
        if tok[0] == 'id' and self.toks[self.i + 1][1] in self.COMPOUND:
            name, val = self._compound_assign()
            rest, rty = self._stmts()
            return f'bind {val} (fun {name} =>\n  {rest})', rty
        # result expression: must be followed by the closing brace
        e, ty = self._expr()
        self.skip_nl()
        while self.peek()[1] == ';':
            self.next()
            self.skip_nl()
        if self.peek()[1] != '}':
            raise ScalaUnsupported(self._where(), f'statement form outside the subset near `{self.peek()[1]}`')
        return e, ty

    # ---- expressions
    def _expr(self):
        if self.peek(True)[1] == 'if':
            self.next(True)
            self.expect('(')
            self.paren += 1
            c, cty = self._expr()
            self.paren -= 1
            self.expect(')', True)
            if cty != 'Boolean':
                raise ScalaUnsupported(self._where(), 'non-Boolean condition')
            a, aty = self._body()
            if self.peek(True)[1] != 'else':
                raise ScalaUnsupported(self._where(), 'if expression without else')
            self.next(True)
            b, bty = self._body()
            if aty != bty:
                raise ScalaUnsupported(self._where(), f'if branches of types {aty}/{bty}')
            return f'(ite {c}\n    ({a})\n    ({b}))', aty
        return self._binary(0)

    def _peek_binop(self):
        # an infix operator may follow on the same line, or on the next line only inside parentheses
        tok = self.peek(skip_nl=self.paren > 0)
        if tok[0] == 'op' and tok[1] in _BINOPS:
            return tok[1]
        return None

    def _binary(self, min_prec):
        left = self._unary()
        while True:
            op = self._peek_binop()
            if op is None or _prec(op) < min_prec:
                return left
            self.next(skip_nl=self.paren > 0)
            self.skip_nl()          # the right operand may start on the next line
            right = self._binary(_prec(op) + 1)
            left = self._apply_binop(op, left, right)

    def _apply_binop(self, op, left, right):
        (a, ta), (b, tb) = left, right
        if ta == 'Int' and tb == 'Int':
            arith = {'+': 'i_add', '-': 'i_sub', '*': 'i_mul', '<<': 'i_shl', '>>': 'i_shr', '>>>': 'i_ushr',
                     '&': 'i_and', '|': 'i_or', '^': 'i_xor'}
            cmp_ = {'<': 'Z.ltb', '<=': 'Z.leb', '>': 'Z.gtb', '>=': 'Z.geb', '==': 'Z.eqb', '!=': 'neqb'}
            if op in arith:
                return f'(lift2 {arith[op]} {a} {b})', 'Int'
            if op == '/':
                return f'(call2 i_div {a} {b})', 'Int'
            if op == '%':
                return f'(call2 i_rem {a} {b})', 'Int'
            if op in cmp_:
                return f'(lift2 {cmp_[op]} {a} {b})', 'Boolean'
        if ta == 'Boolean' and tb == 'Boolean':
            if op == '&&':
                return f'(and_sc {a} {b})', 'Boolean'
            if op == '||':
                return f'(or_sc {a} {b})', 'Boolean'
            strict = {'|': 'orb', '&': 'andb', '^': 'xorb', '==': 'Bool.eqb'}
            if op in strict:
                return f'(lift2 {strict[op]} {a} {b})', 'Boolean'
            if op == '!=':
                return f'(lift2 xorb {a} {b})', 'Boolean'
        ext = self._binop_ext(op, left, right)
        if ext is not None:
            return ext
        raise ScalaUnsupported(self._where(), f'operator `{op}` on {ta},{tb}')

    def _unary(self):
        tok = self.peek(True)
        if tok[1] == '!':
            self.next(True)
            e, ty = self._unary()
            if ty != 'Boolean':
                raise ScalaUnsupported(self._where(), '! on non-Boolean')
            return f'(lift1 negb {e})', 'Boolean'
        if tok[1] == '-':
            self.next(True)
            e, ty = self._unary()
            if ty != 'Int':
                raise ScalaUnsupported(self._where(), 'unary - on non-Int')
            return f'(lift1 i_neg {e})', 'Int'
        return self._postfix()

    def _args(self):
        """( [name =] expr, ... ) -> (positional list, named dict)"""
        self.expect('(')
        self.paren += 1
        pos, named = [], {}
        while True:
            if self.peek(True)[1] == ')':
                self.next(True)
                break
            self.skip_nl()
            if self.peek()[0] == 'id' and self.toks[self.i + 1][1] == '=' and self.toks[self.i + 2][1] != '=':
                name = self.next()[1]
                self.next()
                named[name] = self._expr()
            else:
                if named:
                    raise ScalaUnsupported(self._where(), 'positional after named argument')
                pos.append(self._expr())
            tok = self.next(True)
            if tok[1] == ')':
                break
            if tok[1] != ',':
                raise ScalaUnsupported(self._where(), f'unexpected `{tok[1]}` in argument list')
        self.paren -= 1
        return pos, named

    def _call(self, obj, name, pos, named):
        cands = [d for (o, n, a), d in self.known.items() if o == obj and n == name and len(pos) <= a]
        d = None
        for c in cands:
            names = [p[0] for p in c.params]
            if not all(k in names[len(pos):] for k in named):
                continue
            missing = [p for p in c.params[len(pos):] if p[0] not in named and p[2] is None]
            if missing:
                continue
            d = c
            break
        if d is None:
            raise ScalaUnsupported(self._where(), f'call to {obj}.{name}/{len(pos) + len(named)}: not among the translated functions')
        args = []
        for idx, (pname, pty, default) in enumerate(d.params):
            if idx < len(pos):
                e, ty = pos[idx]
            elif pname in named:
                e, ty = named[pname]
            else:
                e, ty = default
            if ty != pty:
                raise ScalaUnsupported(self._where(), f'argument {pname} of {obj}.{name}: {ty} for {pty}')
            args.append(e)
        if not 1 <= len(args) <= 4:
            raise ScalaUnsupported(self._where(), 'arity outside 1..4')
        return f'(call{len(args)} {d.coq_name} {" ".join(args)})', d.ret

    def _postfix(self):
        tok = self.next(True)
        if tok[0] == 'num':
            return self._number(tok)
        if tok[1] in ('true', 'false'):
            return f'(ret {tok[1]})', 'Boolean'
        if tok[1] == '(':
            self.paren += 1
            e = self._expr()
            self.paren -= 1
            self.expect(')', True)
            return self._suffixes(e)
        if tok[0] != 'id':
            raise ScalaUnsupported(f'{self.fname}:{tok[2]}', f'unexpected `{tok[1]}`')
        name = tok[1]
        ext = self._postfix_ext(name)
        if ext is not None:
            return self._suffixes(ext)
        # qualified: Obj.f(args) | Obj(args) | local | f(args) in the current object | arr(i) | arr.length
        if name in self.env:
            return self._suffixes((f'(ret {name})', self.env[name]))
        if self.peek()[1] == '.' and name in self.objects | {'Genotype', 'AllelePair', 'Call', 'Call0', 'Call1', 'Call2'}:
            save = self.i
            self.next()
            member = self.next()[1]
            if self.peek()[1] == '(':
                pos, named = self._args()
                return self._suffixes(self._call(name, member, pos, named))
            if (name, member) in self.known_vals:
                return self._suffixes((self.known_vals[(name, member)][0], 'Array[Int]'))
            self.i = save
            raise ScalaUnsupported(self._where(), f'{name}.{member} outside the subset')
        if self.peek()[1] == '(':
            if (self.cur_obj, name) in self.known_vals:
                return self._suffixes((self.known_vals[(self.cur_obj, name)][0], 'Array[Int]'))
            pos, named = self._args()
            if any(o == self.cur_obj and n == name for (o, n, _a) in self.known):
                return self._suffixes(self._call(self.cur_obj, name, pos, named))
            return self._suffixes(self._call(name, 'apply', pos, named))
        if (self.cur_obj, name) in self.known_vals:
            return self._suffixes((self.known_vals[(self.cur_obj, name)][0], 'Array[Int]'))
        raise ScalaUnsupported(f'{self.fname}:{tok[2]}', f'unknown name `{name}`')

    def _number(self, tok):
        return f'(ret {self._int(tok)})', 'Int'

    # hooks for subclasses (return None when not applicable)
    def _binop_ext(self, op, left, right):
        return None

    def _suffix_ext(self, text, ty, member):
        return None

    def _postfix_ext(self, name):
        return None

    def _suffixes(self, e):
        text, ty = e
        while True:
            if ty == 'Array[Int]' and self.peek()[1] == '(':
                pos, named = self._args()
                if named or len(pos) != 1 or pos[0][1] != 'Int':
                    raise ScalaUnsupported(self._where(), 'array index form')
                text, ty = f'(call1 (arr_get {text}) {pos[0][0]})', 'Int'
                continue
            if self.peek()[1] == '.':
                member = self.toks[self.i + 1][1]
                if ty == 'Boolean' and member == 'toInt':
                    self.next()
                    self.next()
                    text, ty = f'(lift1 b2i {text})', 'Int'
                    continue
                if ty == 'Array[Int]' and member == 'length':
                    self.next()
                    self.next()
                    text, ty = f'(ret (Z.of_nat (length {text})))', 'Int'
                    continue
                ext = self._suffix_ext(text, ty, member)
                if ext is not None:
                    text, ty = ext
                    continue
                raise ScalaUnsupported(self._where(), f'.{member} on {ty} outside the subset')
            if ty == 'Array[Int]':
                raise ScalaUnsupported(self._where(), 'array used as a value')
            return text, ty


# ------------------------------------------------------------------------------------------------
# Python front end

class PyUnsupported(TieBroken):
    def __init__(self, node, why=''):
        try:
            txt = ast.unparse(node)[:100]
        except Exception:  # noqa: BLE001
            txt = type(node).__name__
        super().__init__('py-translator', f'line {getattr(node, "lineno", "?")}: unsupported {type(node).__name__} `{txt}` {why}')


PY_FLOAT_IDIOM = 'int(math.sqrt(8 * float(i) + 1) / 2 - 0.5)'


class PyFront:
    """Python (ast) -> Gallina in the exception monad.

    types: 'int', 'bool', 'list' (list Z), 'call' (pycall), 'ilist' (list Z used as a table)
    env maps a name to its type; `funcs` maps a callable name to (coq name, [param types], result type).
    Statements: x = e | x |= e (and other augmented ops) | [a, b] = e | a, b = b, a | assert c[, msg] | if/elif/else |
                return e | raise ... | nested def | self._x = e (as local variable self__x) | docstrings, `from x import y`, pass.
    A function falls off its end only when `fallthrough` gives the result expression.
    """

    def __init__(self, funcs=None, attrs=None, consts=None, special_calls=None):
        self.funcs: Dict[str, Tuple[str, List[str], str]] = dict(funcs or {})
        self.attrs = attrs or {}              # attribute name -> (coq function, receiver type, result type)
        self.consts = consts or {}            # global name -> (coq text (option-typed), type)
        self.special_calls = special_calls or {}   # unparse(func) -> handler(self, node, env)
        self.true_div_exact = False

    @staticmethod
    def coq_ty(t):
        return {'int': 'Z', 'bool': 'bool', 'list': 'list Z', 'call': 'pycall'}[t]

    # ---- expressions: return (option-typed text, type)
    def expr(self, n, env) -> Tuple[str, str]:
        if isinstance(n, ast.Constant):
            if isinstance(n.value, bool):
                return f'(ret {"true" if n.value else "false"})', 'bool'
            if isinstance(n.value, int):
                return f'(ret ({n.value}))', 'int'
            raise PyUnsupported(n, 'constant kind')
        if isinstance(n, ast.Name):
            if n.id in env:
                return f'(ret {n.id})', env[n.id]
            if n.id in self.consts:
                return self.consts[n.id]
            raise PyUnsupported(n, 'unknown name')
        if isinstance(n, ast.Attribute):
            if isinstance(n.value, ast.Name) and n.value.id == 'self' and ('self_' + n.attr) in env:
                return f'(ret self_{n.attr})', env['self_' + n.attr]
            if n.attr in self.attrs:
                f, recv, res = self.attrs[n.attr]
                v, t = self.expr(n.value, env)
                if t != recv:
                    raise PyUnsupported(n, f'attribute on {t}')
                return f'(lift1 {f} {v})', res
            raise PyUnsupported(n, 'attribute')
        if isinstance(n, ast.BinOp):
            if isinstance(n.op, ast.Div) and not self.true_div_exact:
                raise PyUnsupported(n, 'true division')
            a, ta = self.expr(n.left, env)
            b, tb = self.expr(n.right, env)
            if ta != 'int' or tb != 'int':
                raise PyUnsupported(n, f'operator on {ta},{tb}')
            pure = {ast.Add: 'Z.add', ast.Sub: 'Z.sub', ast.Mult: 'Z.mul', ast.BitOr: 'Z.lor', ast.BitAnd: 'Z.land', ast.BitXor: 'Z.lxor'}
            part = {ast.FloorDiv: 'p_floordiv', ast.LShift: 'p_shl', ast.RShift: 'p_shr', ast.Pow: 'p_pow', ast.Div: 'p_truediv_exact'}
            if type(n.op) in pure:
                return f'(lift2 {pure[type(n.op)]} {a} {b})', 'int'
            if type(n.op) in part:
                return f'(call2 {part[type(n.op)]} {a} {b})', 'int'
            raise PyUnsupported(n, 'operator')
        if isinstance(n, ast.UnaryOp):
            v, t = self.expr(n.operand, env)
            if isinstance(n.op, ast.Not) and t == 'bool':
                return f'(lift1 negb {v})', 'bool'
            if isinstance(n.op, ast.USub) and t == 'int':
                return f'(lift1 Z.opp {v})', 'int'
            raise PyUnsupported(n)
        if isinstance(n, ast.BoolOp):
            parts = [self.expr(v, env) for v in n.values]
            if any(t != 'bool' for _, t in parts):
                raise PyUnsupported(n, 'and/or over non-bool')
            f = 'and_sc' if isinstance(n.op, ast.And) else 'or_sc'
            acc = parts[-1][0]
            for p, _ in reversed(parts[:-1]):
                acc = f'({f} {p} {acc})'
            return acc, 'bool'
        if isinstance(n, ast.Compare):
            ops = {ast.Lt: 'Z.ltb', ast.LtE: 'Z.leb', ast.Gt: 'Z.gtb', ast.GtE: 'Z.geb', ast.Eq: 'Z.eqb', ast.NotEq: 'neqb'}
            operands = [n.left] + list(n.comparators)
            if len(operands) > 2 and not all(isinstance(o, (ast.Name, ast.Constant)) or self._is_pure_const(o) for o in operands[1:-1]):
                raise PyUnsupported(n, 'chained comparison with a non-atomic middle operand')
            parts = []
            for op, l, r in zip(n.ops, operands, operands[1:]):
                a, ta = self.expr(l, env)
                b, tb = self.expr(r, env)
                if ta == tb == 'int' and type(op) in ops:
                    parts.append(f'(lift2 {ops[type(op)]} {a} {b})')
                elif ta == tb == 'bool' and isinstance(op, ast.Eq):
                    parts.append(f'(lift2 Bool.eqb {a} {b})')
                else:
                    raise PyUnsupported(n, f'comparison on {ta},{tb}')
            acc = parts[-1]
            for p in reversed(parts[:-1]):
                acc = f'(and_sc {p} {acc})'
            return acc, 'bool'
        if isinstance(n, ast.List):
            elems = [self.expr(e, env) for e in n.elts]
            if any(t != 'int' for _, t in elems):
                raise PyUnsupported(n, 'list of non-ints')
            acc = '(ret [])'
            for e, _ in reversed(elems):
                acc = f'(lift2 cons {e} {acc})'
            return acc, 'list'
        if isinstance(n, ast.Subscript):
            v, t = self.expr(n.value, env)
            if t != 'list' or isinstance(n.slice, ast.Slice):
                raise PyUnsupported(n, 'subscript')
            i, ti = self.expr(n.slice, env)
            if ti != 'int':
                raise PyUnsupported(n, 'index type')
            return f'(call2 py_get {v} {i})', 'int'
        if isinstance(n, ast.Call):
            return self.call(n, env)
        if isinstance(n, ast.IfExp):
            c, tc = self.expr(n.test, env)
            a, ta = self.expr(n.body, env)
            b, tb = self.expr(n.orelse, env)
            if tc != 'bool' or ta != tb:
                raise PyUnsupported(n, 'conditional expression types')
            return f'(ite {c} {a} {b})', ta
        raise PyUnsupported(n)

    def _is_pure_const(self, n):
        return all(isinstance(x, (ast.Constant, ast.BinOp, ast.operator, ast.UnaryOp, ast.unaryop, ast.Load)) for x in ast.walk(n))

    def call(self, n, env):
        key = ast.unparse(n.func)
        if ast.unparse(n) == PY_FLOAT_IDIOM:
            if env.get('i') != 'int':
                raise PyUnsupported(n, 'float idiom over a non-int i')
            return '(ret (fsqrt_k i))', 'int'
        if key in self.special_calls:
            return self.special_calls[key](self, n, env)
        if n.keywords:
            raise PyUnsupported(n, 'keyword arguments')
        if key == 'len' and len(n.args) == 1:
            v, t = self.expr(n.args[0], env)
            if t == 'list':
                return f'(lift1 py_len {v})', 'int'
        if key in self.funcs:
            coq, ptys, rty = self.funcs[key]
            if len(ptys) != len(n.args) or not 1 <= len(ptys) <= 4:
                raise PyUnsupported(n, 'arity')
            args = []
            for a, pt in zip(n.args, ptys):
                v, t = self.expr(a, env)
                if t != pt:
                    raise PyUnsupported(n, f'argument type {t} for {pt}')
                args.append(v)
            return f'(call{len(args)} {coq} {" ".join(args)})', rty
        raise PyUnsupported(n, 'call')

    # ---- statements (continuation passing: `k` is the Gallina text of what follows, or None at the end of a function)
    def block(self, stmts, env, k, fallthrough=None) -> Tuple[str, str]:
        """returns (text, result type). `k` = (callable env -> (text, type)) continuation or None."""
        if not stmts:
            if k is not None:
                return k(env)
            if fallthrough is not None:
                return fallthrough(env)
            raise TieBroken('py-translator', 'function falls off its end')
        s, rest = stmts[0], stmts[1:]
        cont = lambda e: self.block(rest, e, k, fallthrough)   # noqa: E731
        if isinstance(s, ast.Expr) and isinstance(s.value, ast.Constant) and isinstance(s.value.value, str):
            return cont(env)
        if isinstance(s, (ast.Pass, ast.ImportFrom, ast.Import)):
            return cont(env)
        if isinstance(s, ast.FunctionDef):
            text, ptys, rty = self.function(s, dict(env), nested=True)
            env2 = dict(env)
            saved = self.funcs.get(s.name)
            self.funcs[s.name] = (s.name, ptys, rty)
            body, ty = cont(env2)
            if saved is None:
                self.funcs.pop(s.name, None)
            else:
                self.funcs[s.name] = saved
            return f'let {s.name} := {text} in\n{body}', ty
        if isinstance(s, ast.Assign) and len(s.targets) == 1:
            t = s.targets[0]
            if isinstance(t, ast.Name):
                v, ty = self.expr(s.value, env)
                env2 = dict(env)
                env2[t.id] = ty
                body, rty = cont(env2)
                return f'bind {v} (fun {t.id} =>\n{body})', rty
            if isinstance(t, ast.Attribute) and isinstance(t.value, ast.Name) and t.value.id == 'self':
                v, ty = self.expr(s.value, env)
                name = 'self_' + t.attr
                env2 = dict(env)
                env2[name] = ty
                body, rty = cont(env2)
                return f'bind {v} (fun {name} =>\n{body})', rty
            if isinstance(t, (ast.List, ast.Tuple)) and all(isinstance(e, ast.Name) for e in t.elts):
                names = [e.id for e in t.elts]
                if isinstance(s.value, (ast.Tuple, ast.List)) and len(s.value.elts) == len(names):
                    vals = [self.expr(e, env) for e in s.value.elts]       # all right-hand sides first (swap)
                    env2 = dict(env)
                    for nm, (_, ty) in zip(names, vals):
                        env2[nm] = ty
                    body, rty = cont(env2)
                    text = body
                    for nm in reversed(names):
                        text = f'let {nm} := tmp_{nm} in\n{text}'
                    for nm, (v, _) in reversed(list(zip(names, vals))):
                        text = f'bind {v} (fun tmp_{nm} =>\n{text})'
                    return text, rty
                if len(names) == 2:
                    v, ty = self.expr(s.value, env)
                    if ty != 'list':
                        raise PyUnsupported(s, 'destructuring a non-list')
                    env2 = dict(env)
                    env2[names[0]] = env2[names[1]] = 'int'
                    body, rty = cont(env2)
                    return f'unpack2 {v} (fun {names[0]} {names[1]} =>\n{body})', rty
            raise PyUnsupported(s, 'assignment form')
        if isinstance(s, ast.AugAssign) and isinstance(s.target, ast.Name):
            fake = ast.BinOp(left=ast.Name(id=s.target.id, ctx=ast.Load()), op=s.op, right=s.value)
            ast.copy_location(fake, s)
            ast.fix_missing_locations(fake)
            v, ty = self.expr(fake, env)
            env2 = dict(env)
            env2[s.target.id] = ty
            body, rty = cont(env2)
            return f'bind {v} (fun {s.target.id} =>\n{body})', rty
        if isinstance(s, ast.Assert):
            if self._is_isinstance(s.test):
                return cont(env)               # dynamic type checks: the model is typed
            c, tc = self.expr(s.test, env)
            if tc != 'bool':
                raise PyUnsupported(s, 'assert of non-bool')
            body, rty = cont(env)
            return f'require_ {c}\n({body})', rty
        if isinstance(s, ast.If):
            c, tc = self.expr(s.test, env)
            if tc != 'bool':
                raise PyUnsupported(s, 'condition of non-bool')
            a, ta = self.block(list(s.body), dict(env), cont, fallthrough)
            b, tb = self.block(list(s.orelse), dict(env), cont, fallthrough)
            return f'ite {c}\n({a})\n({b})', _merge_types(ta, tb, s)
        if isinstance(s, ast.Return):
            if s.value is None:
                raise PyUnsupported(s, 'bare return')
            return self.expr(s.value, env)
        if isinstance(s, ast.Raise):
            return 'None', '?'
        if isinstance(s, ast.Expr) and isinstance(s.value, ast.Call):
            key = ast.unparse(s.value.func)
            if key in self.special_calls:
                v, ty = self.special_calls[key](self, s.value, env)
                if rest or k is not None:
                    raise PyUnsupported(s, 'effect call must be the last statement')
                return v, ty
        raise PyUnsupported(s)

    def _is_isinstance(self, t):
        return isinstance(t, ast.Call) and isinstance(t.func, ast.Name) and t.func.id == 'isinstance'

    def function(self, fn: ast.FunctionDef, outer_env, nested=False, param_types=None, skip_params=(), fallthrough=None):
        params = [a.arg for a in fn.args.args if a.arg not in skip_params]
        if fn.args.vararg or fn.args.kwarg or fn.args.kwonlyargs:
            raise PyUnsupported(fn, 'parameter form')
        ptys = []
        env = dict(outer_env)
        for p in params:
            ty = (param_types or {}).get(p, 'int')
            env[p] = ty
            ptys.append(ty)
        body, rty = self._resolve(self.block(list(fn.body), env, None, fallthrough))
        binder = ' '.join(f'({p} : {self.coq_ty(t)})' for p, t in zip(params, ptys))
        if nested:
            return f'(fun {binder} => ({body}) : option {self.coq_ty(rty)})', ptys, rty
        return (binder, body), ptys, rty

    def _resolve(self, res):
        text, ty = res
        if ty == '?':
            raise TieBroken('py-translator', 'function only raises')
        return text, ty


def _merge_types(ta, tb, node):
    """`raise` has no type of its own: when an if has a raising branch the other branch decides."""
    if ta == '?':
        return tb
    if tb == '?':
        return ta
    if ta != tb:
        raise PyUnsupported(node, f'branches produce {ta}/{tb}')
    return ta
