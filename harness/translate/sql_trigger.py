"""Fail-closed translator: body of a MySQL BEFORE UPDATE trigger (IF / SET over OLD.x, NEW.x) -> Gallina over `option Z`
columns with SQL three-valued logic (coq/theories/BatchDB/Sql3.v).

Input is the AST produced by harness/minisql/parser.py (the same parser the minisql engine executes the trigger with).

Accepted subset (anything else raises TieBroken — the tie is then reported broken):
  statements : BEGIN ... END block, IF c THEN .. [ELSEIF c THEN ..]* [ELSE ..] END IF, SET NEW.col = value [, ...]
  conditions : AND, OR, NOT, parentheses, `v IS [NOT] NULL`, `v < <= > >= = <> v` on integer columns / integer literals,
               `col = 'literal'` / `col <> 'literal'` / `col = col` on string columns (string literals must be in the interning
               table that maps the model's integer codes to the strings of the schema)
  values     : OLD.col, NEW.col (of the declared columns only, assignments must respect the column sort), NULL, integer literal,
               interned string literal

Semantics of the output: every column is an `option Z` (None = NULL); a condition is an `option bool` (None = UNKNOWN) built
with and3/or3/not3/cmp3/isnull; an IF branch is taken iff its condition is TRUE (`taken`), ELSEIF conditions are evaluated in
the state before the IF (no assignment can happen in between); SETs are executed in order, so a later SET or IF reads the NEW
value assigned earlier (the Gallina `let` shadows the variable).
"""
from __future__ import annotations

from typing import Dict, List, Sequence, Tuple

from harness.core import TieBroken
from harness.minisql import ast as A

NAME = 'sql-trigger-translator'
CMP = {'<': 'Z.ltb', '<=': 'Z.leb', '>': 'Z.gtb', '>=': 'Z.geb', '=': 'Z.eqb', '!=': 'zneqb'}


def _fail(msg):
    raise TieBroken(NAME, msg)


class TriggerToCoq:
    def __init__(self, columns: Sequence[Tuple[str, str]], strings: Dict[str, int]):
        """columns: [(column name, 'int' | 'str')] in the order of the tuple the Gallina function works on."""
        self.columns = [(c.lower(), s) for c, s in columns]
        self.sort = dict(self.columns)
        self.strings = dict(strings)
        self.used_strings: Dict[str, int] = {}
        self.n_if = 0

    # ---- names
    def var(self, table, col):
        t = (table or '').upper()
        c = col.lower()
        if t not in ('OLD', 'NEW'):
            _fail(f'reference to `{table + "." if table else ""}{col}`: only OLD.<col> / NEW.<col> are in the subset')
        if c not in self.sort:
            _fail(f'column {t}.{col} is not one of the modelled columns {[n for n, _ in self.columns]}')
        return f'{t.lower()}_{c}', self.sort[c]

    def strlit(self, s):
        if s not in self.strings:
            _fail(f'string literal {s!r} is not in the interning table {sorted(self.strings)}')
        self.used_strings[s] = self.strings[s]
        return 'str_' + ''.join(ch if ch.isalnum() else '_' for ch in s)

    # ---- value expressions: (gallina of type option Z, sort in int|str|null)
    def value(self, e):
        if isinstance(e, A.Col):
            return self.var(e.table, e.name)
        if isinstance(e, A.Lit):
            if e.value is None:
                return 'None', 'null'
            if isinstance(e.value, bool):
                _fail('boolean literal as a value')
            if isinstance(e.value, int):
                return (f'(Some {e.value})' if e.value >= 0 else f'(Some ({e.value}))'), 'int'
            if isinstance(e.value, str):
                return f'(Some {self.strlit(e.value)})', 'str'
            _fail(f'literal {e.value!r}')
        if isinstance(e, A.Unary) and e.op == '-' and isinstance(e.expr, A.Lit) and isinstance(e.expr.value, int) \
                and not isinstance(e.expr.value, bool):
            return f'(Some ({-e.expr.value}))', 'int'
        _fail(f'value expression outside the subset: {e!r}'[:300])

    # ---- conditions: gallina of type option bool
    def cond(self, e):
        if isinstance(e, A.Binary) and e.op in ('AND', 'OR'):
            f = 'and3' if e.op == 'AND' else 'or3'
            return f'({f} {self.cond(e.left)} {self.cond(e.right)})'
        if isinstance(e, A.Unary) and e.op == 'NOT':
            return f'(not3 {self.cond(e.expr)})'
        if isinstance(e, A.IsNull):
            v, _s = self.value(e.expr)
            if v == 'None':
                _fail('NULL IS NULL')
            c = f'(isnull {v})'
            return f'(not3 {c})' if e.negated else c
        if isinstance(e, A.Binary) and e.op in CMP:
            l, ls = self.value(e.left)
            r, rs = self.value(e.right)
            sorts = {ls, rs} - {'null'}
            if len(sorts) > 1:
                _fail(f'comparison between an integer and a string operand: {e!r}'[:300])
            if 'str' in sorts and e.op not in ('=', '!='):
                _fail(f'ordering comparison `{e.op}` on strings (collation order is not modelled)')
            return f'(cmp3 {CMP[e.op]} {l} {r})'
        _fail(f'condition outside the subset: {e!r}'[:300])

    # ---- statements
    def assigned(self, stmts) -> List[str]:
        out: List[str] = []

        def add(v):
            if v not in out:
                out.append(v)
        for st in stmts:
            if isinstance(st, A.SetStmt):
                for target, _e in st.assignments:
                    if target[0] != 'new':
                        _fail(f'SET of {target!r}: only SET NEW.<col> is in the subset')
                    add(self.var('NEW', target[1])[0])
            elif isinstance(st, A.If):
                for _c, body in st.branches:
                    for v in self.assigned(body):
                        add(v)
                for v in self.assigned(st.else_ or []):
                    add(v)
            elif isinstance(st, A.Block):
                for v in self.assigned(st.body):
                    add(v)
            else:
                _fail(f'statement outside the subset: {type(st).__name__}')
        order = {f'new_{c}': i for i, (c, _s) in enumerate(self.columns)}
        return sorted(out, key=lambda v: order[v])

    def block(self, stmts, ind) -> List[str]:
        """lines `let ... in` (each statement rebinds the variables it assigns)"""
        lines: List[str] = []
        pad = ' ' * ind
        for st in stmts:
            if isinstance(st, A.SetStmt):
                for target, e in st.assignments:
                    v, vs = self.var('NEW', target[1])
                    g, gs = self.value(e)
                    if gs not in ('null', vs):
                        _fail(f'SET NEW.{target[1]}: a {gs} value is assigned to a {vs} column')
                    lines.append(f'{pad}let {v} := {g} in')
            elif isinstance(st, A.Block):
                if st.label:
                    _fail('labelled block')
                lines.extend(self.block(st.body, ind))
            elif isinstance(st, A.If):
                vs = self.assigned([st])
                if not vs:
                    # evaluate the conditions anyway (they are total here), nothing to bind
                    for c, _b in st.branches:
                        self.cond(c)
                    continue
                tup = vs[0] if len(vs) == 1 else '(' + ', '.join(vs) + ')'
                pat = vs[0] if len(vs) == 1 else "'(" + ', '.join(vs) + ')'
                self.n_if += 1
                lines.append(f'{pad}(* IF #{self.n_if} *)')
                lines.append(f'{pad}let {pat} :=')
                depth = 0
                for c, body in st.branches:
                    lines.append(f'{pad}  {"  " * depth}if taken {self.cond(c)} then (')
                    lines.extend(self.block(body, ind + 6 + 2 * depth))
                    lines.append(f'{pad}  {"  " * depth}    {tup})')
                    lines.append(f'{pad}  {"  " * depth}else')
                    depth += 1
                if st.else_:
                    lines.append(f'{pad}  {"  " * depth}(')
                    lines.extend(self.block(st.else_, ind + 4 + 2 * depth))
                    lines.append(f'{pad}  {"  " * depth}  {tup})')
                else:
                    lines.append(f'{pad}  {"  " * depth}{tup}')
                lines.append(f'{pad}in')
            else:
                _fail(f'statement outside the subset: {type(st).__name__}')
        return lines

    def definition(self, cr, fn_name: str) -> str:
        if not isinstance(cr, A.CreateRoutine) or cr.kind != 'TRIGGER':
            _fail('not a CREATE TRIGGER')
        if (cr.timing, cr.event) != ('BEFORE', 'UPDATE'):
            _fail(f'trigger is {cr.timing} {cr.event}, expected BEFORE UPDATE')
        body = cr.body.body if isinstance(cr.body, A.Block) else [cr.body]
        if isinstance(cr.body, A.Block) and cr.body.label:
            _fail('labelled trigger body')
        lines = self.block(body, 2)
        cols = [c for c, _s in self.columns]
        old = ', '.join(f'old_{c}' for c in cols)
        new = ', '.join(f'new_{c}' for c in cols)
        ty = ' * '.join(['option Z'] * len(cols))
        head = [f'Definition {fn_name} (o n : {ty}) : {ty} :=',
                f"  let '({old}) := o in",
                f"  let '({new}) := n in"]
        return '\n'.join(head + lines + [f'  ({new}).'])

    def string_definitions(self) -> str:
        return '\n'.join(f"Definition str_{''.join(ch if ch.isalnum() else '_' for ch in s)} : Z := {c}.   (* {s!r} *)"
                         for s, c in sorted(self.used_strings.items()))
