"""Fail-closed translator from a small Python subset (via `ast`) to Gallina text.

Used by the T-ties: the model that the theorems talk about is *regenerated* from /repo's source on
every run.  Anything outside the subset raises TieBroken (the check then reports the tie as broken and
searches for a failing input).  This translator is part of the trusted base; every plug-in that uses
it also runs a differential smoke test of the generated definitions against the real function.

Typing is deliberately primitive: every variable has one of the sorts
    'Z' (Python int), 'bool', 'list' (Coq list), 'str' (list N of code points), 'opt', or a user sort;
the caller supplies the sorts of parameters and may override how calls / attributes / operators are
rendered by subclassing or through the `calls` / `attrs` tables.

Statement forms:  x = e | x += e | x -= e | xs.append(e) | if/elif/else | for x in xs: ... | assert e
                  | return e | raise ...   (raise only in `option` mode: the function result is `option T`)
A block is rendered as nested `let`s ending in the tuple of its live (assigned) variables.
"""
from __future__ import annotations

import ast
from typing import Callable, Dict, List, Optional, Sequence, Tuple

from harness.core import TieBroken


class Unsupported(TieBroken):
    def __init__(self, node, why=''):
        ln = getattr(node, 'lineno', '?')
        try:
            txt = ast.unparse(node)[:120]
        except Exception:
            txt = type(node).__name__
        super().__init__('py-translator', f'line {ln}: unsupported {type(node).__name__} `{txt}` {why}')


CMP = {ast.Lt: '<?', ast.LtE: '<=?', ast.Gt: '>?', ast.GtE: '>=?', ast.Eq: '=?'}
BIN = {ast.Add: '+', ast.Sub: '-', ast.Mult: '*', ast.FloorDiv: '/', ast.Mod: 'mod'}


class PyToCoq:
    """Translate expressions/statements.  `sorts` maps variable names to sorts."""

    def __init__(self, sorts: Dict[str, str], calls: Optional[Dict[str, Callable]] = None,
                 attrs: Optional[Dict[str, Tuple[str, str]]] = None, consts: Optional[Dict[str, Tuple[str, str]]] = None,
                 option_mode: bool = False):
        self.sorts = dict(sorts)
        self.calls = calls or {}
        self.attrs = attrs or {}          # attribute name -> (coq function, result sort)
        self.consts = consts or {}        # global name -> (coq text, sort)
        self.option_mode = option_mode
        self.preconditions: List[str] = []   # from `assert` (total mode)

    # ---------------------------------------------------------------- expressions
    def expr(self, n: ast.AST) -> Tuple[str, str]:
        if isinstance(n, ast.Constant):
            if isinstance(n.value, bool):
                return ('true' if n.value else 'false'), 'bool'
            if isinstance(n.value, int):
                return (f'({n.value})' if n.value < 0 else f'{n.value}'), 'Z'
            if isinstance(n.value, str):
                return '[' + '; '.join(f'{ord(c)}%N' for c in n.value) + ']', 'str'
            if n.value is None:
                return 'None', 'opt'
            raise Unsupported(n, 'constant kind')
        if isinstance(n, ast.Name):
            if n.id in self.sorts:
                return n.id, self.sorts[n.id]
            if n.id in self.consts:
                return self.consts[n.id]
            raise Unsupported(n, 'unknown name')
        if isinstance(n, ast.Attribute):
            if n.attr in self.attrs:
                f, s = self.attrs[n.attr]
                v, _ = self.expr(n.value)
                return f'({f} {v})', s
            raise Unsupported(n, 'attribute')
        if isinstance(n, ast.BinOp):
            return self.binop(n)
        if isinstance(n, ast.UnaryOp):
            v, s = self.expr(n.operand)
            if isinstance(n.op, ast.Not):
                return f'(negb {self.truth(v, s, n)})', 'bool'
            if isinstance(n.op, ast.USub) and s == 'Z':
                return f'(- {v})', 'Z'
            raise Unsupported(n)
        if isinstance(n, ast.BoolOp):
            parts = [self.truth(*self.expr(v), v) for v in n.values]
            op = ' && ' if isinstance(n.op, ast.And) else ' || '
            return '(' + op.join(parts) + ')', 'bool'
        if isinstance(n, ast.Compare):
            return self.compare(n)
        if isinstance(n, ast.IfExp):
            c = self.truth(*self.expr(n.test), n.test)
            a, sa = self.expr(n.body)
            b, sb = self.expr(n.orelse)
            if sa != sb:
                raise Unsupported(n, f'branches of different sorts {sa}/{sb}')
            return f'(if {c} then {a} else {b})', sa
        if isinstance(n, ast.List):
            return self.list_literal(n)
        if isinstance(n, ast.Call):
            return self.call(n)
        if isinstance(n, ast.Subscript):
            return self.subscript(n)
        raise Unsupported(n)

    def binop(self, n: ast.BinOp) -> Tuple[str, str]:
        l, sl = self.expr(n.left)
        r, sr = self.expr(n.right)
        if sl == 'Z' and sr == 'Z' and type(n.op) in BIN:
            op = BIN[type(n.op)]
            if op == 'mod':
                return f'({l} mod {r})', 'Z'     # Z.modulo = Python % (sign of divisor)
            return f'({l} {op} {r})', 'Z'        # Z.div = Python // (floor)
        if sl == sr and sl in ('list', 'str') and isinstance(n.op, ast.Add):
            return f'({l} ++ {r})', sl
        raise Unsupported(n, f'operator on sorts {sl},{sr}')

    def compare(self, n: ast.Compare) -> Tuple[str, str]:
        parts = []
        left = n.left
        for op, right in zip(n.ops, n.comparators):
            l, sl = self.expr(left)
            r, sr = self.expr(right)
            if sl == 'Z' and sr == 'Z':
                if type(op) in CMP:
                    parts.append(f'({l} {CMP[type(op)]} {r})')
                elif isinstance(op, ast.NotEq):
                    parts.append(f'(negb ({l} =? {r}))')
                else:
                    raise Unsupported(n, 'comparison operator')
            else:
                parts.append(self.compare_other(op, l, sl, r, sr, n))
            left = right
        return ('(' + ' && '.join(parts) + ')') if len(parts) > 1 else parts[0], 'bool'

    def compare_other(self, op, l, sl, r, sr, n) -> str:
        raise Unsupported(n, f'comparison on sorts {sl},{sr}')

    def list_literal(self, n: ast.List) -> Tuple[str, str]:
        parts = []
        single: List[str] = []
        for e in n.elts:
            if isinstance(e, ast.Starred):
                if single:
                    parts.append('[' + '; '.join(single) + ']')
                    single = []
                v, s = self.expr(e.value)
                if s != 'list':
                    raise Unsupported(e, 'starred non-list')
                parts.append(v)
            else:
                single.append(self.expr(e)[0])
        if single or not parts:
            parts.append('[' + '; '.join(single) + ']')
        return ('(' + ' ++ '.join(parts) + ')') if len(parts) > 1 else parts[0], 'list'

    def call(self, n: ast.Call) -> Tuple[str, str]:
        if n.keywords:
            raise Unsupported(n, 'keyword arguments')
        if isinstance(n.func, ast.Name):
            name = n.func.id
            if name in self.calls:
                return self.calls[name](self, n)
            if name == 'len' and len(n.args) == 1:
                v, s = self.expr(n.args[0])
                if s in ('list', 'str'):
                    return f'(Z.of_nat (length {v}))', 'Z'
            if name in ('min', 'max') and len(n.args) == 2:
                a, sa = self.expr(n.args[0])
                b, sb = self.expr(n.args[1])
                if sa == sb == 'Z':
                    return f'(Z.{name} {a} {b})', 'Z'
            if name == 'int' and len(n.args) == 1:
                a, sa = self.expr(n.args[0])
                if sa == 'Z':
                    return a, 'Z'
            if name == 'abs' and len(n.args) == 1:
                a, sa = self.expr(n.args[0])
                if sa == 'Z':
                    return f'(Z.abs {a})', 'Z'
        if isinstance(n.func, ast.Attribute):
            key = '.' + n.func.attr
            if key in self.calls:
                return self.calls[key](self, n)
        raise Unsupported(n, 'call')

    def subscript(self, n: ast.Subscript) -> Tuple[str, str]:
        raise Unsupported(n)

    def truth(self, v: str, s: str, node) -> str:
        if s == 'bool':
            return v
        if s in ('list', 'str'):
            return f'(negb (match {v} with nil => true | _ => false end))'
        if s == 'Z':
            return f'(negb ({v} =? 0))'
        if s == 'opt':
            return f'(match {v} with None => false | Some _ => true end)'
        raise Unsupported(node, f'truthiness of sort {s}')

    # ---------------------------------------------------------------- statements
    def assigned(self, stmts: Sequence[ast.stmt]) -> List[str]:
        out: List[str] = []

        def add(x):
            if x not in out:
                out.append(x)
        for s in stmts:
            if isinstance(s, ast.Assign):
                for t in s.targets:
                    if isinstance(t, ast.Name):
                        add(t.id)
                    else:
                        raise Unsupported(s, 'assignment target')
            elif isinstance(s, ast.AnnAssign):
                if isinstance(s.target, ast.Name):
                    add(s.target.id)
                else:
                    raise Unsupported(s, 'assignment target')
            elif isinstance(s, ast.AugAssign):
                if isinstance(s.target, ast.Name):
                    add(s.target.id)
                else:
                    raise Unsupported(s, 'assignment target')
            elif isinstance(s, ast.Expr) and isinstance(s.value, ast.Call) and isinstance(s.value.func, ast.Attribute) \
                    and s.value.func.attr == 'append' and isinstance(s.value.func.value, ast.Name):
                add(s.value.func.value.id)
            elif isinstance(s, ast.If):
                for x in self.assigned(s.body) + self.assigned(s.orelse):
                    add(x)
            elif isinstance(s, ast.For):
                for x in self.assigned(s.body):
                    add(x)
        return out

    def tuple_of(self, names: Sequence[str]) -> str:
        if not names:
            return 'tt'
        if len(names) == 1:
            return names[0]
        return '(' + ', '.join(names) + ')'

    def pat_of(self, names: Sequence[str]) -> str:
        if not names:
            return '_'
        if len(names) == 1:
            return names[0]
        return "'(" + ', '.join(names) + ')'

    def block(self, stmts: Sequence[ast.stmt], result: str, declare_sorts: Optional[Dict[str, str]] = None) -> str:
        """Render `stmts` followed by the Gallina expression `result` (which may mention assigned variables).
        Returns a Gallina expression."""
        if not stmts:
            return result
        s, rest = stmts[0], stmts[1:]
        if isinstance(s, ast.Expr) and isinstance(s.value, ast.Constant) and isinstance(s.value.value, str):
            return self.block(rest, result)          # docstring
        if isinstance(s, (ast.Assign, ast.AnnAssign)):
            target = s.targets[0] if isinstance(s, ast.Assign) else s.target
            if isinstance(s, ast.Assign) and len(s.targets) != 1:
                raise Unsupported(s, 'multiple targets')
            if not isinstance(target, ast.Name) or s.value is None:
                raise Unsupported(s, 'assignment form')
            v, sort = self.expr_hint(s.value, target.id)
            self.sorts[target.id] = sort
            return f'let {target.id} := {v} in\n{self.block(rest, result)}'
        if isinstance(s, ast.AugAssign):
            if not isinstance(s.target, ast.Name):
                raise Unsupported(s)
            fake = ast.BinOp(left=ast.Name(id=s.target.id, ctx=ast.Load()), op=s.op, right=s.value)
            ast.copy_location(fake, s)
            v, sort = self.expr(fake)
            return f'let {s.target.id} := {v} in\n{self.block(rest, result)}'
        if isinstance(s, ast.Expr) and isinstance(s.value, ast.Call) and isinstance(s.value.func, ast.Attribute) \
                and s.value.func.attr == 'append' and isinstance(s.value.func.value, ast.Name) and len(s.value.args) == 1:
            lst = s.value.func.value.id
            if self.sorts.get(lst) != 'list':
                raise Unsupported(s, 'append on non-list')
            v, _ = self.expr(s.value.args[0])
            return f'let {lst} := ({lst} ++ [{v}]) in\n{self.block(rest, result)}'
        if isinstance(s, ast.Assert):
            c = self.truth(*self.expr(s.test), s.test)
            if self.option_mode:
                return f'if negb {c} then None else\n{self.block(rest, result)}'
            self.preconditions.append(c)
            return self.block(rest, result)
        if isinstance(s, ast.If):
            c = self.truth(*self.expr(s.test), s.test)
            if self._ends_with_exit(s.body) and not s.orelse:
                saved = dict(self.sorts)
                a = self.block(s.body, result)
                self.sorts = saved
                return f'if {c} then ({a}) else\n{self.block(rest, result)}'
            live = self.assigned([s])
            tup = self.tuple_of(live)
            saved = dict(self.sorts)
            a = self.block(s.body, tup)
            sorts_a = dict(self.sorts)
            self.sorts = dict(saved)
            b = self.block(s.orelse, tup)
            for k in live:
                sa, sb = sorts_a.get(k), self.sorts.get(k)
                if sa is None or sb is None:
                    if k not in saved:
                        raise Unsupported(s, f'variable {k} not defined on both branches')
                    self.sorts[k] = saved[k]
                elif sa != sb:
                    raise Unsupported(s, f'variable {k} has sorts {sa}/{sb}')
            return f'let {self.pat_of(live)} := (if {c} then ({a}) else ({b})) in\n{self.block(rest, result)}'
        if isinstance(s, ast.For):
            if s.orelse or not isinstance(s.target, ast.Name):
                raise Unsupported(s, 'for form')
            it, sit = self.expr(s.iter)
            if sit != 'list':
                raise Unsupported(s, 'iteration over non-list')
            # loop state = variables assigned in the body that exist before the loop; others are body-local
            live = [k for k in self.assigned(s.body) if k in self.sorts]
            elem_sort = (declare_sorts or {}).get(s.target.id) or self.sorts.get('__elem__' + s.target.id) or 'elem'
            saved = dict(self.sorts)
            self.sorts[s.target.id] = elem_sort
            body = self.block(s.body, self.tuple_of(live))
            for k in live:
                if self.sorts.get(k) != saved.get(k):
                    raise Unsupported(s, f'loop changes the sort of {k}')
            self.sorts = saved
            pat = self.pat_of(live)
            return (f'let {pat} := fold_left (fun {pat if len(live) != 1 else live[0]} {s.target.id} =>\n{body})\n'
                    f'  {it} {self.tuple_of(live)} in\n{self.block(rest, result)}')
        if isinstance(s, ast.Return):
            if rest:
                raise Unsupported(s, 'code after return')
            if s.value is None:
                raise Unsupported(s, 'bare return')
            v, sort = self.expr(s.value)
            self.return_sort = sort
            return f'Some {v}' if self.option_mode else v
        if isinstance(s, ast.Raise):
            if not self.option_mode:
                raise Unsupported(s, 'raise in total mode')
            return 'None'
        if isinstance(s, ast.Pass):
            return self.block(rest, result)
        raise Unsupported(s)

    def expr_hint(self, n: ast.AST, target: str) -> Tuple[str, str]:
        """Expression on the right of an assignment; an empty list literal needs no hint (sort 'list')."""
        return self.expr(n)

    def _ends_with_exit(self, stmts: Sequence[ast.stmt]) -> bool:
        return bool(stmts) and isinstance(stmts[-1], (ast.Return, ast.Raise))

    def function_body(self, fn: ast.FunctionDef) -> str:
        """Body of a function whose every path ends in return/raise."""
        return self.block(fn.body, '(* unreachable *) None' if self.option_mode else 'tt')


def find_function(src: str, qualname: str) -> ast.FunctionDef:
    tree = ast.parse(src)
    node: ast.AST = tree
    for part in qualname.split('.'):
        for child in ast.iter_child_nodes(node):
            if isinstance(child, (ast.FunctionDef, ast.AsyncFunctionDef, ast.ClassDef)) and child.name == part:
                node = child
                break
        else:
            raise TieBroken('py-translator', f'{qualname} not found')
    if not isinstance(node, (ast.FunctionDef, ast.AsyncFunctionDef)):
        raise TieBroken('py-translator', f'{qualname} is not a function')
    return node  # type: ignore
