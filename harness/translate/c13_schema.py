"""C13: fail-closed extraction of (a) the quantity formulas and (b) the to_dict/from_dict *schemas* of the billing
resource classes and instance configs from the repository source (Python ast).  Output: plain Python data that the
plug-in renders to Gallina (coq/generated/C13/Gen.v).  Anything outside the recognised patterns raises TieBroken.

Schema language (mirrored in coq/theories/Billing/Serial.v):
  field values     : int | str | bool | dict str->str
  to_dict          : ordered list of (key, ('field', i) | ('const', value))
  from_dict        : ordered list of alternatives (guards, args); guards = [(key, const)] (`assert data[k] == c` and
                     `if data[k] == c:`), args = [('lookup', key) | ('const', value)]; first alternative whose guards hold.
"""
from __future__ import annotations

import ast
from typing import Any, Dict, List, Optional, Tuple

from harness.core import TieBroken

NAME = 'c13-translator'


def _fail(node, why):
    ln = getattr(node, 'lineno', '?')
    try:
        txt = ast.unparse(node)[:140]
    except Exception:
        txt = type(node).__name__
    raise TieBroken(NAME, f'line {ln}: {why}: `{txt}`')


def _is_docstring(s):
    return isinstance(s, ast.Expr) and isinstance(s.value, ast.Constant) and isinstance(s.value.value, str)


def module_constants(tree: ast.Module) -> Dict[str, Any]:
    out = {}
    for s in tree.body:
        if isinstance(s, ast.Assign) and len(s.targets) == 1 and isinstance(s.targets[0], ast.Name) and isinstance(s.value, ast.Constant):
            out[s.targets[0].id] = s.value.value
    return out


def class_defs(tree: ast.Module) -> Dict[str, ast.ClassDef]:
    return {s.name: s for s in tree.body if isinstance(s, ast.ClassDef)}


def class_constants(cls: ast.ClassDef) -> Dict[str, Any]:
    out = {}
    for s in cls.body:
        if isinstance(s, ast.Assign) and len(s.targets) == 1 and isinstance(s.targets[0], ast.Name) and isinstance(s.value, ast.Constant):
            out[s.targets[0].id] = s.value.value
    return out


def method(cls: ast.ClassDef, name: str) -> Optional[ast.FunctionDef]:
    for s in cls.body:
        if isinstance(s, ast.FunctionDef) and s.name == name:
            return s
    return None


def ctor_fields(cls: ast.ClassDef) -> Tuple[List[str], Dict[str, int]]:
    """constructor parameters (in order) and the map attribute -> parameter index, from `self.attr = param` lines.
    Other statements of __init__ are allowed only if they do not assign a *parameter-derived* serialised attribute twice."""
    init = method(cls, '__init__')
    if init is None:
        _fail(cls, 'class without __init__')
    params = [a.arg for a in init.args.args][1:]
    if init.args.vararg or init.args.kwarg or init.args.kwonlyargs:
        _fail(init, 'unsupported constructor signature')
    attr_of: Dict[str, int] = {}
    for s in init.body:
        if _is_docstring(s):
            continue
        if isinstance(s, ast.Assign) and len(s.targets) == 1 and isinstance(s.targets[0], ast.Attribute) \
                and isinstance(s.targets[0].value, ast.Name) and s.targets[0].value.id == 'self':
            attr = s.targets[0].attr
            if isinstance(s.value, ast.Name) and s.value.id in params:
                if attr in attr_of:
                    _fail(s, 'attribute assigned twice')
                attr_of[attr] = params.index(s.value.id)
            else:
                # derived attribute (e.g. self.cores = machine_type_parts.cores): must not shadow a parameter attribute
                if attr in attr_of:
                    _fail(s, 'parameter attribute overwritten')
        # other statements (asserts, local computations) do not influence what to_dict writes, as long as the
        # attributes to_dict reads are the parameter attributes recorded above (checked by the caller)
    return params, attr_of


def _const_value(node, consts: Dict[str, Any], cls_name: Optional[str], cls_consts: Dict[str, Any]):
    """constant expression: literal | MODULE_CONST | self.CONST | Class.CONST"""
    if isinstance(node, ast.Constant) and isinstance(node.value, (int, str, bool)):
        return True, node.value
    if isinstance(node, ast.Name) and node.id in consts:
        return True, consts[node.id]
    if isinstance(node, ast.Attribute) and isinstance(node.value, ast.Name) and node.value.id in ('self', cls_name) and node.attr in cls_consts:
        return True, cls_consts[node.attr]
    return False, None


def to_dict_schema(cls: ast.ClassDef, consts: Dict[str, Any], list_field: Optional[str] = None):
    """`return {'k': self.attr | CONST, ...}`; with list_field: one entry `'k': [r.to_dict() for r in self.<list_field>]`."""
    fn = method(cls, 'to_dict')
    if fn is None:
        _fail(cls, 'no to_dict')
    body = [s for s in fn.body if not _is_docstring(s)]
    if len(body) != 1 or not isinstance(body[0], ast.Return) or not isinstance(body[0].value, ast.Dict):
        _fail(fn, 'to_dict is not a single `return {...}`')
    params, attr_of = ctor_fields(cls)
    cc = class_constants(cls)
    entries = []
    list_key = None
    seen = set()
    for k, v in zip(body[0].value.keys, body[0].value.values):
        if not (isinstance(k, ast.Constant) and isinstance(k.value, str)):
            _fail(fn, 'non-literal key in to_dict')
        if k.value in seen:
            _fail(fn, 'duplicate key in to_dict')
        seen.add(k.value)
        ok, c = _const_value(v, consts, cls.name, cc)
        if ok:
            entries.append((k.value, ('const', c)))
        elif isinstance(v, ast.Attribute) and isinstance(v.value, ast.Name) and v.value.id == 'self' and v.attr in attr_of:
            entries.append((k.value, ('field', attr_of[v.attr])))
        elif list_field is not None and isinstance(v, ast.ListComp) and len(v.generators) == 1 and not v.generators[0].ifs \
                and ast.unparse(v.generators[0].iter) == f'self.{list_field}' and isinstance(v.generators[0].target, ast.Name) \
                and ast.unparse(v.elt) == f'{v.generators[0].target.id}.to_dict()' and list_key is None and list_field in attr_of:
            list_key = k.value
        else:
            _fail(v, 'unsupported value in to_dict')
    return params, attr_of, entries, list_key


def _data_lookup(node, data_name='data'):
    """data['k'] -> k"""
    if isinstance(node, ast.Subscript) and isinstance(node.value, ast.Name) and node.value.id == data_name \
            and isinstance(node.slice, ast.Constant) and isinstance(node.slice.value, str):
        return node.slice.value
    return None


def _guard(test, consts, cls_name, cc, env):
    """data['k'] == CONST  (or a local variable bound to data['k'])"""
    if isinstance(test, ast.Compare) and len(test.ops) == 1 and isinstance(test.ops[0], ast.Eq):
        left = test.left
        k = _data_lookup(left)
        if k is None and isinstance(left, ast.Name) and left.id in env and env[left.id][0] == 'lookup':
            k = env[left.id][1]
        ok, c = _const_value(test.comparators[0], consts, cls_name, cc)
        if k is not None and ok:
            return (k, c)
    return None


def from_dict_schema(cls: ast.ClassDef, consts: Dict[str, Any], n_params: int,
                     list_param: Optional[int] = None, list_key: Optional[str] = None, dispatch: Optional[str] = None):
    """Recognised statements:  assert data[k] == C | if data[k] == C: return Cls(args) | x = data[k] | return Cls(args)
    and, for instance configs (list_param given), the forms that bind the resource list:
        assert 'resources' in data and data['resources'] is not None
        resources = [<dispatch>(d) for d in data['resources']]
        resources = data.get('resources');  if resources is None: assert data['version'] == 1[, data]; resources = []
        resources = [<dispatch>(r) for r in resources]
    Returns a list of alternatives (guards, args)."""
    fn = method(cls, 'from_dict')
    if fn is None:
        _fail(cls, 'no from_dict')
    if [a.arg for a in fn.args.args] != ['data']:
        _fail(fn, 'from_dict signature')
    cc = class_constants(cls)
    alts = []
    guards: List[Tuple[str, Any]] = []
    env: Dict[str, Tuple[str, Any]] = {}
    list_var_state = None     # None | 'raw' (bound to data.get(key)) | 'decoded'
    list_var = None
    done = False

    def arg_of(node):
        k = _data_lookup(node)
        if k is not None:
            return ('lookup', k)
        ok, c = _const_value(node, consts, cls.name, cc)
        if ok:
            return ('const', c)
        if isinstance(node, ast.Name) and node.id in env:
            return env[node.id]
        _fail(node, 'unsupported constructor argument in from_dict')

    def ctor_call(node):
        if not (isinstance(node, ast.Call) and isinstance(node.func, ast.Name) and node.func.id == cls.name and not node.keywords):
            _fail(node, 'from_dict does not return its own class by positional arguments')
        if len(node.args) != n_params:
            _fail(node, 'constructor arity')
        args = []
        for i, a in enumerate(node.args):
            if list_param is not None and i == list_param:
                if not (isinstance(a, ast.Name) and a.id == list_var and list_var_state == 'decoded'):
                    _fail(a, 'resource list argument is not the decoded list')
                args.append(('list', list_key))
            else:
                args.append(arg_of(a))
        return args

    def is_dispatch_comp(v, source_is):
        return (isinstance(v, ast.ListComp) and len(v.generators) == 1 and not v.generators[0].ifs
                and isinstance(v.generators[0].target, ast.Name) and isinstance(v.elt, ast.Call)
                and isinstance(v.elt.func, ast.Name) and v.elt.func.id == dispatch and len(v.elt.args) == 1 and not v.elt.keywords
                and isinstance(v.elt.args[0], ast.Name) and v.elt.args[0].id == v.generators[0].target.id
                and source_is(v.generators[0].iter))

    for s in fn.body:
        if done:
            _fail(s, 'statement after final return')
        if _is_docstring(s):
            continue
        if isinstance(s, ast.Assert):
            g = _guard(s.test, consts, cls.name, cc, env)
            if g is not None:
                guards.append(g)
                continue
            if list_param is not None and ast.unparse(s.test) == f"'{list_key}' in data and data['{list_key}'] is not None":
                continue      # presence of the list: the model's dict always carries the list component
            _fail(s, 'unsupported assert in from_dict')
        if isinstance(s, ast.If):
            g = _guard(s.test, consts, cls.name, cc, env)
            if g is not None and not s.orelse:
                body = [b for b in s.body if not _is_docstring(b)]
                if len(body) == 1 and isinstance(body[0], ast.Return):
                    alts.append((guards + [g], ctor_call(body[0].value)))
                    continue
            if list_param is not None and list_var_state == 'raw' and ast.unparse(s.test) == f'{list_var} is None' and not s.orelse:
                # legacy records without a resource list: never produced by to_dict (the list is always written)
                continue
            _fail(s, 'unsupported if in from_dict')
        if isinstance(s, ast.Assign) and len(s.targets) == 1 and isinstance(s.targets[0], ast.Name):
            tgt = s.targets[0].id
            k = _data_lookup(s.value)
            if k is not None:
                env[tgt] = ('lookup', k)
                continue
            if list_param is not None:
                if ast.unparse(s.value) == f"data.get('{list_key}')":
                    list_var, list_var_state = tgt, 'raw'
                    continue
                if is_dispatch_comp(s.value, lambda it: _data_lookup(it) == list_key) or \
                        (list_var_state == 'raw' and is_dispatch_comp(s.value, lambda it: isinstance(it, ast.Name) and it.id == list_var) and tgt == list_var):
                    list_var, list_var_state = tgt, 'decoded'
                    continue
            _fail(s, 'unsupported assignment in from_dict')
        if isinstance(s, ast.Return):
            alts.append((list(guards), ctor_call(s.value)))
            done = True
            continue
        _fail(s, 'unsupported statement in from_dict')
    if not done:
        _fail(fn, 'from_dict without final return')
    return alts


def dispatch_table(fn: ast.FunctionDef, classes: Dict[str, Dict[str, Any]]):
    """typ = data['type']; if typ == A.TYPE: return A.from_dict(data) ...; assert typ == Z.TYPE[, typ]; return Z.from_dict(data)
    -> ordered list of (type string, class name)"""
    body = [s for s in fn.body if not _is_docstring(s)]
    if not body or ast.unparse(body[0]) != "typ = data['type']":
        _fail(fn, 'dispatch function does not start with typ = data[\'type\']')
    out = []

    def type_of(test):
        if isinstance(test, ast.Compare) and len(test.ops) == 1 and isinstance(test.ops[0], ast.Eq) and ast.unparse(test.left) == 'typ':
            c = test.comparators[0]
            if isinstance(c, ast.Attribute) and isinstance(c.value, ast.Name) and c.attr == 'TYPE' and c.value.id in classes:
                return c.value.id
        return None

    i = 1
    while i < len(body):
        s = body[i]
        if isinstance(s, ast.If) and not s.orelse and len(s.body) == 1 and isinstance(s.body[0], ast.Return):
            c = type_of(s.test)
            if c is None or ast.unparse(s.body[0].value) != f'{c}.from_dict(data)':
                _fail(s, 'unsupported dispatch branch')
            out.append((classes[c]['TYPE'], c))
            i += 1
            continue
        if isinstance(s, ast.Assert) and i + 2 == len(body) and isinstance(body[i + 1], ast.Return):
            c = type_of(s.test)
            if c is None or ast.unparse(body[i + 1].value) != f'{c}.from_dict(data)':
                _fail(s, 'unsupported final dispatch branch')
            out.append((classes[c]['TYPE'], c))
            i += 2
            continue
        _fail(s, 'unsupported statement in dispatch function')
    return out


# ---------------------------------------------------------------------------------------------- quantity formulas

QUANTITY_PARAMS = ['cpu_in_mcpu', 'memory_in_bytes', 'worker_fraction_in_1024ths', 'external_storage_in_gib']


def _int_expr(node, self_attrs: List[str], locals_: Dict[str, str]) -> str:
    """integer expression over the four parameters, self.<int attr>, locals and literals -> Gallina (Z)"""
    if isinstance(node, ast.Constant) and isinstance(node.value, int) and not isinstance(node.value, bool):
        return f'({node.value})' if node.value < 0 else str(node.value)
    if isinstance(node, ast.Name):
        if node.id in QUANTITY_PARAMS:
            return node.id
        if node.id in locals_:
            return locals_[node.id]
    if isinstance(node, ast.Attribute) and isinstance(node.value, ast.Name) and node.value.id == 'self' and node.attr in self_attrs:
        return f'self_{node.attr}'
    if isinstance(node, ast.Attribute) and isinstance(node.value, ast.Name) and node.value.id in locals_ and node.attr == 'size_in_gib' \
            and locals_[node.value.id] == 'disk_size':
        return 'disk_size'
    if isinstance(node, ast.Subscript) and isinstance(node.value, ast.Name) and node.value.id in locals_ \
            and isinstance(node.slice, ast.Constant) and node.slice.value == 'quantity' and locals_[node.value.id] == 'super_quantity':
        return 'super_quantity'
    if isinstance(node, ast.BinOp):
        op = {ast.Add: '+', ast.Sub: '-', ast.Mult: '*', ast.FloorDiv: '/'}.get(type(node.op))
        if op:
            return f'({_int_expr(node.left, self_attrs, locals_)} {op} {_int_expr(node.right, self_attrs, locals_)})'
    _fail(node, 'unsupported integer expression in to_quantified_resource')


def quantity_formula(fn: ast.FunctionDef, self_attrs: List[str]):
    """Body of a to_quantified_resource method ->
         dict(none_if_zero_ext: bool, uses_super: bool, uses_disk: Optional[str (self attr holding the disk type)], expr: Gallina)
    Recognised statements: del ..., `if external_storage_in_gib == 0: return None`,
      `resource_dict = super().to_quantified_resource(<the four parameters in order>)`, `assert resource_dict`,
      `disk = azure_disk_from_storage_in_gib(self.<attr>, external_storage_in_gib)`, `assert disk[, msg]`,
      `resource_name = ...` (name only), `return {'name': ..., 'quantity': EXPR}`."""
    params = [a.arg for a in fn.args.args][1:]
    if params != QUANTITY_PARAMS:
        _fail(fn, 'to_quantified_resource signature')
    info = dict(none_if_zero_ext=False, uses_super=False, uses_disk=None, expr=None)
    locals_: Dict[str, str] = {}
    for s in fn.body:
        if _is_docstring(s) or isinstance(s, ast.Delete):
            continue
        if info['expr'] is not None:
            _fail(s, 'statement after return')
        if isinstance(s, ast.If) and ast.unparse(s.test) == 'external_storage_in_gib == 0' and not s.orelse \
                and len(s.body) == 1 and ast.unparse(s.body[0]) == 'return None':
            info['none_if_zero_ext'] = True
            continue
        if isinstance(s, ast.Assign) and len(s.targets) == 1 and isinstance(s.targets[0], ast.Name):
            t = s.targets[0].id
            src = ast.unparse(s.value)
            if src == 'super().to_quantified_resource(' + ', '.join(QUANTITY_PARAMS) + ')':
                info['uses_super'] = True
                locals_[t] = 'super_quantity'
                continue
            if isinstance(s.value, ast.Call) and isinstance(s.value.func, ast.Name) and s.value.func.id == 'azure_disk_from_storage_in_gib' \
                    and len(s.value.args) == 2 and not s.value.keywords and ast.unparse(s.value.args[1]) == 'external_storage_in_gib' \
                    and isinstance(s.value.args[0], ast.Attribute) and ast.unparse(s.value.args[0].value) == 'self':
                info['uses_disk'] = s.value.args[0].attr
                locals_[t] = 'disk_size'
                continue
            if t == 'resource_name':
                continue
            _fail(s, 'unsupported assignment in to_quantified_resource')
        if isinstance(s, ast.Assert) and isinstance(s.test, ast.Name) and s.test.id in locals_:
            continue     # `assert resource_dict` / `assert disk`: the model's option type carries the failure
        if isinstance(s, ast.Return) and isinstance(s.value, ast.Dict):
            keys = [k.value if isinstance(k, ast.Constant) else None for k in s.value.keys]
            if keys != ['name', 'quantity']:
                _fail(s, 'returned dict is not {name, quantity}')
            info['expr'] = _int_expr(s.value.values[1], self_attrs, locals_)
            continue
        _fail(s, 'unsupported statement in to_quantified_resource')
    if info['expr'] is None:
        _fail(fn, 'to_quantified_resource without return {...}')
    return info


def worker_fraction_expr(fn: ast.FunctionDef) -> str:
    """InstanceConfig.quantified_resources: the worker_fraction assignment + structural check of the loop."""
    expr = None
    loop_ok = False
    for s in fn.body:
        if isinstance(s, ast.Assign) and len(s.targets) == 1 and ast.unparse(s.targets[0]) == 'worker_fraction_in_1024ths':
            def tr(n):
                if isinstance(n, ast.Constant) and isinstance(n.value, int):
                    return str(n.value)
                if isinstance(n, ast.Name) and n.id == 'cpu_in_mcpu':
                    return 'cpu_in_mcpu'
                if isinstance(n, ast.Attribute) and ast.unparse(n) == 'self.cores':
                    return 'cores'
                if isinstance(n, ast.BinOp):
                    op = {ast.Mult: '*', ast.FloorDiv: '/', ast.Add: '+', ast.Sub: '-'}.get(type(n.op))
                    if op:
                        return f'({tr(n.left)} {op} {tr(n.right)})'
                _fail(n, 'unsupported worker_fraction expression')
            expr = tr(s.value)
        if isinstance(s, ast.For) and ast.unparse(s.iter) == 'self.resources' and isinstance(s.target, ast.Name):
            r = s.target.id
            want_call = (f'{r}.to_quantified_resource(cpu_in_mcpu=cpu_in_mcpu, memory_in_bytes=memory_in_bytes, '
                         'worker_fraction_in_1024ths=worker_fraction_in_1024ths, external_storage_in_gib=extra_storage_in_gib)')
            if len(s.body) == 2 and isinstance(s.body[0], ast.Assign) and ast.unparse(s.body[0].value) == want_call \
                    and isinstance(s.body[1], ast.If) and not s.body[1].orelse:
                q = ast.unparse(s.body[0].targets[0])
                if ast.unparse(s.body[1].test) == f'{q} is not None' and len(s.body[1].body) == 1 \
                        and ast.unparse(s.body[1].body[0]) == f'_quantified_resources.append({q})':
                    loop_ok = True
    if expr is None or not loop_ok:
        raise TieBroken(NAME, 'InstanceConfig.quantified_resources: worker_fraction assignment or resource loop not recognised')
    if ast.unparse(fn.body[-1]) != 'return _quantified_resources':
        raise TieBroken(NAME, 'InstanceConfig.quantified_resources does not return the collected list')
    return expr


def mro_quantity_method(cls_name: str, all_classes: Dict[str, ast.ClassDef]) -> Tuple[str, ast.FunctionDef]:
    """First definition of to_quantified_resource along the (linearised, left-to-right depth-first adequate for these
    single-mixin hierarchies) bases; abstract declarations (body = raise NotImplementedError) are skipped."""
    def is_abstract(fn):
        body = [s for s in fn.body if not _is_docstring(s)]
        return len(body) == 1 and isinstance(body[0], ast.Raise)
    order = []

    def walk(name):
        if name in order or name not in all_classes:
            return
        order.append(name)
        for b in all_classes[name].bases:
            if isinstance(b, ast.Name):
                walk(b.id)
    walk(cls_name)
    for name in order:
        fn = method(all_classes[name], 'to_quantified_resource')
        if fn is not None and not is_abstract(fn):
            return name, fn
    raise TieBroken(NAME, f'{cls_name}: no concrete to_quantified_resource found')
