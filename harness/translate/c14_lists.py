"""C14 list endpoints: boolean structure of the WHERE clauses the query builders assemble as text.

Two halves.

1. `items_of(text)`: SQL condition text -> *item list* (the representation of coq/theories/Routes/ListModel.v).  Only brackets
   are resolved here; operator precedence is NOT (that is the job of `ListModel.run`, proved about in ListLemmas.v):
        ["A", text]   an opaque atom: a maximal run of tokens between boolean keywords that is not a single bracket group
                      (comparisons, `x IS NOT NULL`, `a NOT LIKE b`, `(a, b) IN (SELECT ...)`, function calls ...)
        ["G", items]  a bracket group standing alone as an operand: its content, recursively
        "AND" "OR" "NOT"   the keywords at that bracket level (NOT only in prefix position: after an operand it belongs to
                      `IS NOT` / `NOT LIKE` / `NOT IN` and stays inside the atom)
        ["H", name]   (templates only) a formatted value `{name}` standing alone: the items of that variable are spliced in
   `where_of(sql)` cuts the WHERE clause of the row-selecting SELECT out of a statement.

2. `ListTranslator`: Python source of query_v1.py / query_v2.py / front_end.py -> Gallina definitions (coq/generated/C14/Lists.v) of
   the item list each builder emits, as a function of the builder's flags and of the list of search terms.  Fail-closed: any
   statement shape it does not know raises TieBroken.
"""
import ast
import re

from harness.core import TieBroken


def T(name, detail):
    return TieBroken('list-translator', f'{name}: {detail}')


# ---------------------------------------------------------------------------------------------------------------- lexing

_TOK = re.compile(r"""
    \s+                                   |
    (?P<hole>\x00\w+\x00)                 |
    (?P<str>'(?:[^'\\]|\\.|'')*' | "(?:[^"\\]|\\.)*" | `[^`]*`) |
    (?P<ph>%s)                            |
    (?P<lp>\()                            |
    (?P<rp>\))                            |
    (?P<word>[A-Za-z_][\w$]*(?:\.[A-Za-z_`][\w$`]*)*) |
    (?P<num>\d+(?:\.\d+)?)                |
    (?P<op><=|>=|!=|<>|:=|[-+*/<>=!~,.;%$\[\]])
""", re.X)


def lex(text):
    out = []
    i = 0
    while i < len(text):
        m = _TOK.match(text, i)
        if not m:
            raise T('lex', f'cannot tokenise at {text[i:i + 20]!r}')
        i = m.end()
        k = m.lastgroup
        if k is None:
            continue
        out.append((k, m.group(k)))
    return out


def tree(tokens):
    """Bracket matching only."""
    stack = [[]]
    for k, v in tokens:
        if k == 'lp':
            stack.append([])
        elif k == 'rp':
            if len(stack) == 1:
                raise T('brackets', 'unbalanced )')
            g = stack.pop()
            stack[-1].append(g)
        else:
            stack[-1].append((k, v))
    if len(stack) != 1:
        raise T('brackets', 'unbalanced (')
    return stack[0]


def _text(node):
    if isinstance(node, list):
        return '(' + ' '.join(_text(n) for n in node) + ')'
    k, v = node
    if k == 'hole':
        return '{' + v.strip('\x00') + '}'
    return v


def _kw(node, *names):
    return isinstance(node, tuple) and node[0] == 'word' and node[1].upper() in names


def boolify(seq):
    items = []
    chunk = []
    operand_expected = True

    def flush():
        nonlocal chunk
        if not chunk:
            raise T('structure', 'boolean keyword without operand')
        if len(chunk) == 1 and isinstance(chunk[0], list):
            g = chunk[0]
            if g and _kw(g[0], 'SELECT', 'WITH'):
                items.append(['A', _text(g)])
            elif any(isinstance(n, tuple) and n == ('op', ',') for n in g):
                items.append(['A', _text(g)])
            else:
                items.append(['G', boolify(g)])
        elif len(chunk) == 1 and chunk[0][0] == 'hole':
            items.append(['H', chunk[0][1].strip('\x00')])
        else:
            items.append(['A', ' '.join(_text(n) for n in chunk)])
        chunk = []

    for n in seq:
        if _kw(n, 'BETWEEN'):
            raise T('structure', 'BETWEEN .. AND .. is outside the subset')
        if _kw(n, 'AND', 'OR', 'XOR', '&&', '||'):
            if n[1].upper() not in ('AND', 'OR'):
                raise T('structure', f'{n[1]} is outside the subset')
            flush()
            items.append(n[1].upper())
            operand_expected = True
        elif _kw(n, 'NOT') and operand_expected and not chunk:
            items.append('NOT')
        else:
            chunk.append(n)
            operand_expected = False
    flush()
    return items


def items_of(text):
    return boolify(tree(lex(text)))


_END = ('ORDER', 'GROUP', 'LIMIT', 'HAVING', 'FOR', 'LOCK', 'UNION')


def where_of(sql):
    """The WHERE clause text of the row-selecting SELECT: of the first CTE when the statement starts with WITH, else of the
    statement itself, else (no WHERE there) of the only derived table that has one."""
    toks = lex(sql)
    tr = tree(toks)
    if tr and _kw(tr[0], 'WITH'):
        body = next((n for n in tr if isinstance(n, list)), None)
        if body is None:
            raise T('where', 'WITH without body')
        tr = body
    idx = [i for i, n in enumerate(tr) if _kw(n, 'WHERE')]
    if not idx:
        # the rows are selected inside a derived table:  SELECT .. FROM ( SELECT .. WHERE .. GROUP BY .. ) AS t ..
        subs = [n for n in tr if isinstance(n, list) and n and _kw(n[0], 'SELECT') and sum(1 for x in n if _kw(x, 'WHERE')) == 1]
        if len(subs) == 1:
            tr = subs[0]
            idx = [i for i, n in enumerate(tr) if _kw(n, 'WHERE')]
    if len(idx) != 1:
        raise T('where', f'{len(idx)} WHERE keywords at the top level of the row-selecting SELECT')
    rest = tr[idx[0] + 1:]
    end = next((i for i, n in enumerate(rest) if _kw(n, *_END) or n == ('op', ';')), len(rest))
    return rest[:end]


def where_items(sql):
    return boolify(where_of(sql))


# ---------------------------------------------------------------------------------------------------------------- python twin of ListModel.run

def run_items(items, env):
    """Python twin of ListModel.run: left-to-right evaluation with SQL precedence OR < AND < NOT; env: atom text -> bool."""
    o, a, n = False, True, False
    for it in items:
        if it == 'AND':
            pass
        elif it == 'OR':
            o, a, n = (o or a), True, False
        elif it == 'NOT':
            n = not n
        elif it[0] == 'A':
            a, n = (a and (n != bool(env[it[1]]))), False
        elif it[0] == 'G':
            a, n = (a and (n != run_items(it[1], env))), False
        else:
            raise ValueError(it)
    return o or a


def atoms_of(items, acc=None):
    acc = [] if acc is None else acc
    for it in items:
        if isinstance(it, list):
            if it[0] == 'A' and it[1] not in acc:
                acc.append(it[1])
            elif it[0] == 'G':
                atoms_of(it[1], acc)
    return acc


def placeholder_text(items, names):
    """Re-linearise the items with every atom replaced by an identifier (for a real SQL expression parser)."""
    out = []
    for it in items:
        if isinstance(it, str):
            out.append(it)
        elif it[0] == 'A':
            out.append(names[it[1]])
        else:
            out.append('(' + placeholder_text(it[1], names) + ')')
    return ' '.join(out)


def skeleton_of_items(items):
    return items


# ---------------------------------------------------------------------------------------------------------------- Gallina emission

class AtomTable:
    """Atom text -> Z.  The scope atoms have FIXED numbers (the theorems are about them)."""
    FIXED = {
        'jobs.batch_id = %s': 0,
        'batch_updates.committed': 1,
        'jobs.job_group_id = %s': 2,
        '(jobs.batch_id , jobs.job_group_id) IN (SELECT batch_id , job_group_id FROM job_group_self_and_ancestors WHERE batch_id = %s AND ancestor_id = %s)': 3,
        'billing_project_users.`user` = %s': 10,
        'billing_project_users.billing_project = batches.billing_project': 11,
        'job_groups.batch_id = %s': 20,
        'job_group_self_and_ancestors.ancestor_id = %s': 21,
        'job_group_self_and_ancestors.level = 1': 22,
        '`user` = %s': 30,
        'JSON_CONTAINS (users , JSON_QUOTE (%s))': 31,
        'billing_projects.name_cs = %s': 32,
    }

    def __init__(self):
        self.n = dict(self.FIXED)
        self.next = 100

    def get(self, text):
        if text not in self.n:
            self.n[text] = self.next
            self.next += 1
        return self.n[text]


def gallina_items(items, atoms):
    """Item list (possibly with holes) -> Gallina expression of type list item."""
    parts = []
    for it in items:
        if it == 'AND':
            parts.append('[IAnd]')
        elif it == 'OR':
            parts.append('[IOr]')
        elif it == 'NOT':
            parts.append('[INot]')
        elif it[0] == 'A':
            parts.append(f'[IAtom {atoms.get(it[1])}%Z]')
        elif it[0] == 'G':
            parts.append(f'[IGroup {gallina_items(it[1], atoms)}]')
        elif it[0] == 'H':
            parts.append(it[1])
        else:
            raise T('emit', repr(it))
    if not parts:
        return '[]'
    return '(' + ' ++ '.join(parts) + ')'


def gallina_literal(items, atoms):
    """Closed item list -> Gallina list literal (for coq_eval)."""
    out = []
    for it in items:
        if it == 'AND':
            out.append('IAnd')
        elif it == 'OR':
            out.append('IOr')
        elif it == 'NOT':
            out.append('INot')
        elif it[0] == 'A':
            out.append(f'IAtom {atoms.get(it[1])}%Z')
        else:
            out.append(f'IGroup {gallina_literal(it[1], atoms)}')
    return '[' + '; '.join(out) + ']'


# ---------------------------------------------------------------------------------------------------------------- source -> model

def _const_str(node):
    return node.value if isinstance(node, ast.Constant) and isinstance(node.value, str) else None


def template_of(node, env=None):
    """String-valued expression -> template text with \\x00name\\x00 holes, or ('orjoin', template, var)."""
    s = _const_str(node)
    if s is not None:
        return s
    if isinstance(node, ast.JoinedStr):
        out = ''
        for v in node.values:
            if isinstance(v, ast.Constant):
                out += v.value
            elif isinstance(v, ast.FormattedValue) and isinstance(v.value, ast.Name) and v.conversion == -1 and v.format_spec is None:
                out += '\x00' + v.value.id + '\x00'
            else:
                raise T('template', f'unsupported formatted value {ast.dump(v)[:80]}')
        return out
    raise T('template', f'not a string template: {ast.dump(node)[:100]}')


def _is_join(node, sep):
    """`'<sep>'.join(X)` -> X"""
    if (isinstance(node, ast.Call) and isinstance(node.func, ast.Attribute) and node.func.attr == 'join'
            and _const_str(node.func.value) == sep and len(node.args) == 1 and not node.keywords):
        return node.args[0]
    return None


class Builder:
    """Result of translating one builder function."""

    def __init__(self, name):
        self.name = name
        self.init = []          # Gallina conj expressions (always present)
        self.flags = []         # (flag name, [conj exprs when true], [conj exprs when false])
        self.branches = []      # v1: Gallina conj expression per if/elif branch of the term loop (may mention nvals)
        self.negwrap = None     # v1: Gallina expression over `condition`
        self.wrap = None        # v2: Gallina expression over `cond`
        self.branch_notes = []


class ListTranslator:
    def __init__(self, read_repo):
        self.read_repo = read_repo
        self.atoms = AtomTable()
        self.notes = []

    def conj(self, template):
        return gallina_items(items_of(template), self.atoms)

    # -- one builder function -------------------------------------------------------------------------------------------
    def builder(self, path, fname, style):
        src = self.read_repo(path)
        mod = ast.parse(src)
        fn = next((n for n in ast.walk(mod) if isinstance(n, (ast.FunctionDef, ast.AsyncFunctionDef)) and n.name == fname), None)
        if fn is None:
            raise T(fname, f'not found in {path}')
        b = Builder(fname)
        wc = None                  # name of the where-conditions list
        strs = {}                  # local string variables holding condition templates: name -> Gallina conj or ('flag', f, t, e)
        seen_loop = False
        seen_sql = False
        alias = None               # name of a string variable holding 'WHERE ' + the joined conditions
        for st in fn.body:
            # where_conditions = [lit, ...]
            if (isinstance(st, (ast.Assign, ast.AnnAssign)) and isinstance(getattr(st, 'value', None), ast.List)
                    and all(_const_str(e) is not None for e in st.value.elts) and st.value.elts
                    and self._target(st) in ('where_conditions', 'where_conds', 'wheres')):
                if wc is not None:
                    raise T(fname, 'where-conditions list assigned twice')
                wc = self._target(st)
                b.init = [self.conj(_const_str(e)) for e in st.value.elts]
                continue
            if wc is not None and self._mentions(st, wc):
                if self._is_append(st, wc):
                    b.flags.append(('always', [self._appended(st.value.args[0], strs, fname)], None))
                    continue
                if isinstance(st, ast.If) and not st.orelse and all(self._is_append(s, wc) or not self._mentions(s, wc) for s in st.body) \
                        and not seen_loop:
                    apps = [self._appended(s.value.args[0], strs, fname) for s in st.body if self._is_append(s, wc)]
                    b.flags.append((self._flag_name(st.test), apps, []))
                    continue
                if isinstance(st, ast.If) and not seen_loop and self._is_where_alias(st, wc):
                    # if where_conditions: where_condition = f'WHERE {" AND ".join(where_conditions)}'  else: where_condition = ''
                    # (the list literal is never empty, so the else branch is dead)
                    alias = st.body[0].targets[0].id
                    continue
                if isinstance(st, ast.If) and not seen_loop:
                    # if / elif / else chain whose branches only append conditions
                    expr, fl = self._chain(st, wc, strs, fname)
                    b.flags.append(('chain', expr, fl))
                    continue
                if isinstance(st, ast.For) and not seen_loop:
                    seen_loop = True
                    self._loop(b, st, wc, style, fname)
                    continue
                if isinstance(st, ast.Assign) and self._target(st) == 'sql':
                    self._check_sql(st.value, wc, fname)
                    seen_sql = True
                    continue
                raise T(fname, f'line {st.lineno}: unsupported use of {wc}')
            # string variable selected by a flag:  if recursive: jg_cond = lit ... else: jg_cond = lit
            if isinstance(st, ast.If) and st.orelse and wc is not None:
                tv = self._single_str_assign(st.body)
                ev = self._single_str_assign(st.orelse)
                if tv and ev and tv[0] == ev[0]:
                    strs[tv[0]] = ('flag', self._flag_name(st.test), self.conj(tv[1]), self.conj(ev[1]))
                    continue
            if isinstance(st, ast.Assign) and self._target(st) == 'sql' and wc is not None:
                self._check_sql(st.value, wc, fname, alias)
                seen_sql = True
                continue
            if alias is not None and self._mentions(st, alias):
                raise T(fname, f'line {st.lineno}: unsupported use of {alias}')
            if wc is not None and any(isinstance(n, ast.Name) and n.id in strs for n in ast.walk(st)):
                raise T(fname, f'line {st.lineno}: unsupported use of a condition string')
        if wc is None or not seen_sql:
            raise T(fname, 'no where-conditions list / no sql template found')
        if style != 'fixed' and not seen_loop:
            raise T(fname, 'no loop over the search terms found')
        return b

    def _is_where_alias(self, st, wc):
        if not (isinstance(st.test, ast.Name) and st.test.id == wc and len(st.body) == 1 and len(st.orelse) == 1):
            return False
        a, e = st.body[0], st.orelse[0]
        if not (isinstance(a, ast.Assign) and isinstance(e, ast.Assign) and self._target(a) and self._target(a) == self._target(e)):
            return False
        if _const_str(e.value) != '':
            return False
        v = a.value
        if not (isinstance(v, ast.JoinedStr) and len(v.values) == 2 and isinstance(v.values[0], ast.Constant)
                and v.values[0].value == 'WHERE ' and isinstance(v.values[1], ast.FormattedValue)):
            return False
        j = _is_join(v.values[1].value, ' AND ')
        return isinstance(j, ast.Name) and j.id == wc

    def _chain(self, st, wc, strs, fname):
        """if t1: appends.. elif t2: appends.. else: appends..  ->  (Gallina list-of-conjuncts expression, flag names)"""
        def block(stmts):
            out = []
            for s in stmts:
                if self._is_append(s, wc):
                    c = self._appended(s.value.args[0], strs, fname)
                    if isinstance(c, tuple):
                        raise T(fname, f'line {s.lineno}: flag-selected string inside a conditional append')
                    out.append(c)
                elif self._mentions(s, wc):
                    raise T(fname, f'line {s.lineno}: unsupported use of {wc} inside a conditional')
            return '[' + '; '.join(out) + ']'
        name = self._flag_name(st.test)
        flags = [name]
        then = block(st.body)
        if len(st.orelse) == 1 and isinstance(st.orelse[0], ast.If):
            els, fl = self._chain(st.orelse[0], wc, strs, fname)
            flags += [f for f in fl if f not in flags]
        else:
            els = block(st.orelse)
        return f'(if {name} then {then} else {els})', flags

    @staticmethod
    def _target(st):
        t = st.targets[0] if isinstance(st, ast.Assign) and len(st.targets) == 1 else getattr(st, 'target', None)
        return t.id if isinstance(t, ast.Name) else None

    @staticmethod
    def _mentions(st, name):
        return any(isinstance(n, ast.Name) and n.id == name for n in ast.walk(st))

    @staticmethod
    def _is_append(st, wc):
        return (isinstance(st, ast.Expr) and isinstance(st.value, ast.Call) and isinstance(st.value.func, ast.Attribute)
                and st.value.func.attr == 'append' and isinstance(st.value.func.value, ast.Name) and st.value.func.value.id == wc
                and len(st.value.args) == 1)

    def _appended(self, node, strs, fname):
        if isinstance(node, ast.Name):
            if node.id not in strs:
                raise T(fname, f'append of unknown string {node.id}')
            return strs[node.id]
        return self.conj(template_of(node))

    @staticmethod
    def _flag_name(test):
        if isinstance(test, ast.Name):
            return test.id
        if (isinstance(test, ast.Compare) and isinstance(test.left, ast.Name) and len(test.ops) == 1 and isinstance(test.ops[0], ast.IsNot)
                and isinstance(test.comparators[0], ast.Constant) and test.comparators[0].value is None):
            return 'has_' + test.left.id
        raise T('flag', f'unsupported test {ast.dump(test)[:80]}')

    @staticmethod
    def _single_str_assign(body):
        if len(body) == 1 and isinstance(body[0], ast.Assign) and isinstance(body[0].targets[0], ast.Name) and _const_str(body[0].value) is not None:
            return body[0].targets[0].id, _const_str(body[0].value)
        # `jg_cond = lit` followed by argument bookkeeping
        strs = [s for s in body if isinstance(s, ast.Assign) and isinstance(s.targets[0], ast.Name) and _const_str(s.value) is not None]
        if len(strs) == 1 and all(s is strs[0] or isinstance(s, ast.Expr) for s in body):
            return strs[0].targets[0].id, _const_str(strs[0].value)
        return None

    def _check_sql(self, node, wc, fname, alias=None):
        """The statement text must use the conditions only as `WHERE {' AND '.join(wc)}` followed by ORDER BY / GROUP BY / LIMIT."""
        if not isinstance(node, ast.JoinedStr):
            raise T(fname, 'sql is not an f-string')
        vals = node.values
        if alias is not None:
            hits = [i for i, v in enumerate(vals) if isinstance(v, ast.FormattedValue) and self._mentions(v, alias)]
            if len(hits) != 1 or not isinstance(vals[hits[0]].value, ast.Name) or any(
                    isinstance(v, ast.FormattedValue) and self._mentions(v, wc) for v in vals):
                raise T(fname, f'unsupported use of {alias} / {wc} in the sql template')
            i = hits[0]
            before = 'WHERE '
        else:
            hits = [i for i, v in enumerate(vals) if isinstance(v, ast.FormattedValue) and self._mentions(v, wc)]
            if len(hits) != 1:
                raise T(fname, f'{len(hits)} uses of {wc} in the sql template')
            i = hits[0]
            j = _is_join(vals[i].value, ' AND ')
            if not (isinstance(j, ast.Name) and j.id == wc):
                raise T(fname, f"{wc} is not combined with ' AND '.join")
            before = vals[i - 1].value if i > 0 and isinstance(vals[i - 1], ast.Constant) else ''
        after = vals[i + 1].value if i + 1 < len(vals) and isinstance(vals[i + 1], ast.Constant) else ''
        if not re.search(r'\bWHERE\s*$', before):
            raise T(fname, 'the joined conditions are not the whole WHERE clause (text before)')
        if not re.match(r'\s*(ORDER BY|GROUP BY|LIMIT\b|;\s*$)', after):
            raise T(fname, 'the joined conditions are not the whole WHERE clause (text after)')
        for k, v in enumerate(vals):
            if k != i and isinstance(v, ast.FormattedValue):
                raise T(fname, 'another formatted value in the sql template')

    # -- the loop over the search terms -----------------------------------------------------------------------------------
    def _loop(self, b, loop, wc, style, fname):
        body = loop.body
        if style == 'v2':
            # for query in queries: cond, args = query.query(); where_conditions.append(f'({cond})'); where_args += args
            apps = [s for s in body if self._is_append(s, wc)]
            if len(apps) != 1 or any(self._mentions(s, wc) and s is not apps[0] for s in body):
                raise T(fname, 'v2 loop: expected exactly one append')
            tpl = template_of(apps[0].value.args[0])
            holes = re.findall('\x00(\\w+)\x00', tpl)
            if holes != ['cond']:
                raise T(fname, f'v2 loop: template holes {holes}')
            ok = any(isinstance(s, ast.Assign) and isinstance(s.targets[0], ast.Tuple) and s.targets[0].elts[0].id == 'cond'
                     and isinstance(s.value, ast.Call) and isinstance(s.value.func, ast.Attribute) and s.value.func.attr == 'query'
                     for s in body)
            if not ok:
                raise T(fname, 'v2 loop: cond is not the first component of query.query()')
            b.wrap = gallina_items(items_of(tpl), self.atoms)
            return
        # v1
        chain = [s for s in body if isinstance(s, ast.If) and any(self._assigns(x, 'condition') for x in ast.walk(s))]
        if len(chain) != 2:
            raise T(fname, f'v1 loop: expected the term chain and the negation wrapper, found {len(chain)} ifs assigning condition')
        main, neg = chain
        # negation wrapper
        if not (isinstance(neg.test, ast.Name) and neg.test.id == 'negate' and not neg.orelse and len(neg.body) == 1
                and self._assigns(neg.body[0], 'condition')):
            raise T(fname, 'v1 loop: unsupported negation wrapper')
        tpl = template_of(neg.body[0].value)
        if re.findall('\x00(\\w+)\x00', tpl) != ['condition']:
            raise T(fname, 'v1 loop: negation template')
        b.negwrap = gallina_items(items_of(tpl), self.atoms)
        # the chain
        node = main
        while True:
            b.branches.append(self._branch(node.body, fname))
            b.branch_notes.append(ast.unparse(node.test)[:60])
            if len(node.orelse) == 1 and isinstance(node.orelse[0], ast.If):
                node = node.orelse[0]
                continue
            if node.orelse:
                if any(isinstance(x, ast.Raise) for x in node.orelse) and not any(self._assigns(x, 'condition') for s in node.orelse for x in ast.walk(s)):
                    break
                raise T(fname, 'v1 loop: final else must raise')
            break
        # after the wrapper: exactly append(condition)
        apps = [s for s in body if self._is_append(s, wc)]
        if len(apps) != 1 or not (isinstance(apps[0].value.args[0], ast.Name) and apps[0].value.args[0].id == 'condition'):
            raise T(fname, 'v1 loop: expected where_conditions.append(condition)')
        if body.index(apps[0]) < body.index(neg) or body.index(neg) < body.index(main):
            raise T(fname, 'v1 loop: statement order')

    @staticmethod
    def _assigns(st, name):
        return isinstance(st, ast.Assign) and len(st.targets) == 1 and isinstance(st.targets[0], ast.Name) and st.targets[0].id == name

    def _branch(self, stmts, fname):
        """Symbolic value of `condition` at the end of a branch: a Gallina conj expression (may use nvals)."""
        cond = None
        for st in stmts:
            if isinstance(st, ast.If):
                # nested selection on the key (job_id = ...): both alternatives must be translated; model them as one branch each?
                sub = [self._branch(st.body, fname)] + ([self._branch(st.orelse, fname)] if st.orelse else [])
                if any(s is None for s in sub) or len(sub) != 2:
                    if any(self._assigns(x, 'condition') for x in ast.walk(st)):
                        raise T(fname, 'nested if assigning condition on one side only')
                    continue
                cond = ('alt', sub[0], sub[1])
                continue
            if not self._assigns(st, 'condition'):
                if any(self._assigns(x, 'condition') for x in ast.walk(st)):
                    raise T(fname, f'line {st.lineno}: condition assigned in an unsupported statement')
                continue
            v = st.value
            j = _is_join(v, ' OR ')
            if j is not None:
                # ' OR '.join([lit for _ in values])
                if not (isinstance(j, ast.ListComp) and _const_str(j.elt) is not None and len(j.generators) == 1):
                    raise T(fname, 'OR-join of something else than a literal per value')
                cond = f'(or_join {self.conj(_const_str(j.elt))} nvals)'
                continue
            tpl = template_of(v)
            holes = re.findall('\x00(\\w+)\x00', tpl)
            if holes == []:
                cond = self.conj(tpl)
            elif holes == ['condition'] and cond is not None and not isinstance(cond, tuple):
                cond = f'(let condition := {cond} in {gallina_items(items_of(tpl), self.atoms)})'
            else:
                raise T(fname, f'condition template with holes {holes}')
        return cond

    # -- emission ----------------------------------------------------------------------------------------------------------
    def emit_v1(self, b, coqname):
        lines = []
        flat = []
        for br in b.branches:
            if br is None:
                raise T(b.name, 'a branch of the term chain does not assign condition')
            if isinstance(br, tuple):
                flat.extend([br[1], br[2]])
            else:
                flat.append(br)
        lines.append(f'Definition {coqname}_cond (k nvals : nat) : option (list item) :=')
        lines.append('  match k with')
        for i, br in enumerate(flat):
            lines.append(f'  | {i}%nat => Some {br}')
        lines.append('  | _ => None\n  end.')
        lines.append(f'Definition {coqname}_neg (condition : list item) : list item := {b.negwrap}.')
        lines.append(f'Definition {coqname}_nbranches : nat := {len(flat)}.')
        flags, init = self._init_expr(b)
        lines.append(f'Definition {coqname}_init {" ".join(f"({f} : bool)" for f in flags)} : list (list item) := {init}.')
        return '\n'.join(lines), flags, len(flat)

    def emit_v2(self, b, coqname):
        flags, init = self._init_expr(b)
        lines = [f'Definition {coqname}_wrap (cond : list item) : list item := {b.wrap}.',
                 f'Definition {coqname}_init {" ".join(f"({f} : bool)" for f in flags)} : list (list item) := {init}.']
        return '\n'.join(lines), flags

    def emit_fixed(self, b, coqname):
        flags, init = self._init_expr(b)
        return f'Definition {coqname}_init {" ".join(f"({f} : bool)" for f in flags)} : list (list item) := {init}.', flags

    def _init_expr(self, b):
        flags = []
        parts = ['[' + '; '.join(b.init) + ']']
        for name, then, els in b.flags:
            if name == 'chain':
                for f in els:
                    if f not in flags:
                        flags.append(f)
                parts.append(then)
                continue
            for c in then:
                if isinstance(c, tuple):       # ('flag', f, t, e): string chosen by a flag
                    if c[1] not in flags:
                        flags.append(c[1])
            if name != 'always' and name not in flags:
                flags.append(name)

            def ce(c):
                return f'(if {c[1]} then {c[2]} else {c[3]})' if isinstance(c, tuple) else c
            tl = '[' + '; '.join(ce(c) for c in then) + ']'
            if name == 'always':
                parts.append(tl)
            else:
                parts.append(f'(if {name} then {tl} else [])')
        return flags, ' ++ '.join(parts)


BUILDERS = [
    # (coq name, file, function, style)
    ('jobs_v1', 'batch/batch/front_end/query/query_v1.py', 'parse_job_group_jobs_query_v1', 'v1'),
    ('batches_v1', 'batch/batch/front_end/query/query_v1.py', 'parse_list_batches_query_v1', 'v1'),
    ('groups_v1', 'batch/batch/front_end/query/query_v1.py', 'parse_list_job_groups_query_v1', 'fixed'),
    ('jobs_v2', 'batch/batch/front_end/query/query_v2.py', 'parse_job_group_jobs_query_v2', 'v2'),
    ('batches_v2', 'batch/batch/front_end/query/query_v2.py', 'parse_list_batches_query_v2', 'v2'),
    ('completed', 'batch/batch/front_end/front_end.py', 'get_completed_batches_ordered_by_completed_time', 'fixed'),
    ('billing_jobs', 'batch/batch/front_end/front_end.py', '_query_batch_jobs_for_billing', 'fixed'),
    # billing read paths
    ('billing', 'batch/batch/front_end/front_end.py', '_query_billing', 'fixed'),
    ('bp_with_cost', 'batch/batch/utils.py', 'query_billing_projects_with_cost', 'fixed'),
    ('bp_without_cost', 'batch/batch/utils.py', 'query_billing_projects_without_cost', 'fixed'),
]


def translate(read_repo):
    """-> (Gallina text of coq/generated/C14/Lists.v, info dict)."""
    tr = ListTranslator(read_repo)
    out = ['(* GENERATED by harness/translate/c14_lists.py from the query builders of batch/batch/front_end -- do not edit *)',
           'From Coq Require Import List ZArith. From HailV Require Import Routes.ListModel. Import ListNotations.',
           '']
    info = {}
    for coqname, path, fname, style in BUILDERS:
        b = tr.builder(path, fname, style)
        if style == 'v1':
            text, flags, nb = tr.emit_v1(b, coqname)
            info[coqname] = {'flags': flags, 'style': style, 'nbranches': nb, 'branch_tests': b.branch_notes}
        elif style == 'v2':
            text, flags = tr.emit_v2(b, coqname)
            info[coqname] = {'flags': flags, 'style': style}
        else:
            text, flags = tr.emit_fixed(b, coqname)
            info[coqname] = {'flags': flags, 'style': style}
        out.append(f'(* {path} :: {fname} *)')
        out.append(text)
        out.append('')
    out.append('(* atoms *)')
    for t, n in sorted(tr.atoms.n.items(), key=lambda kv: kv[1]):
        out.append(f'(* {n}: {t[:150]} *)')
    info['atoms'] = dict(tr.atoms.n)
    return '\n'.join(out) + '\n', info, tr
