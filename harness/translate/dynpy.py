"""Fail-closed translator for *dynamically typed* straight-line Python over JSON-like values and integers into Gallina in the
option monad (None = the Python operation raises / leaves the modelled fragment).  Used by C15 for
batch/batch/batch_format_version.py and the two region functions of batch/batch/utils.py.  Part of the trusted base.

Target vocabulary: HailV.SpecFormat.Model (jv, bind/`do`, py_get, py_item, py_index, py_truth, py_int, py_len, py_list_comp,
foldM, py_lshift, py_rshift, map_lookup, py_assert).

Sorts: 'jv' (JSON value) | 'Z' | 'bool' | 'key' (a str used as dictionary key, list N) | 'keys' (list of keys) | 'map' (assoc list key -> Z).
Every sub-expression that can raise is bound with `do t <- op;` in Python's left-to-right evaluation order (A-normal form).
Statements: x = e | x op= e | if / elif / else | for x in xs | for k, v in m.items() | assert e | xs.append(e) | return e.
"""
from __future__ import annotations

import ast
from typing import Dict, List, Tuple

from harness.core import TieBroken


class Unsupported(TieBroken):
    def __init__(self, node, why=''):
        ln = getattr(node, 'lineno', '?')
        try:
            txt = ast.unparse(node)[:120]
        except Exception:
            txt = type(node).__name__
        super().__init__('dynpy-translator', f'line {ln}: unsupported {type(node).__name__} `{txt}` {why}')


def strlit(s: str) -> str:
    return '[' + '; '.join(f'{ord(c)}%N' for c in s) + ']'


class DynPy:
    def __init__(self, env: Dict[str, str], self_attrs: Dict[str, Tuple[str, str]] = None):
        self.env = dict(env)                   # python variable -> sort   (Gallina name = python name)
        self.self_attrs = self_attrs or {}     # self.<attr> -> (gallina, sort)
        self.n = 0

    def fresh(self) -> str:
        self.n += 1
        return f't{self.n}'

    # ------------------------------------------------------------------ coercions
    def as_jv(self, v: str, s: str, node) -> str:
        if s == 'jv':
            return v
        if s == 'Z':
            return f'(JInt {v})'
        if s == 'bool':
            return f'(JBool {v})'
        if s == 'key':
            return f'(JStr {v})'
        raise Unsupported(node, f'cannot store sort {s} in a JSON value')

    def truth(self, v: str, s: str, node) -> str:
        if s == 'bool':
            return v
        if s == 'jv':
            return f'(py_truth {v})'
        if s == 'Z':
            return f'(negb ({v} =? 0))'
        raise Unsupported(node, f'truthiness of sort {s}')

    # ------------------------------------------------------------------ expressions: (binds, atom, sort)
    def expr(self, n) -> Tuple[List[Tuple[str, str]], str, str]:
        if isinstance(n, ast.Constant):
            if n.value is None:
                return [], 'JNull', 'jv'
            if isinstance(n.value, bool):
                return [], ('true' if n.value else 'false'), 'bool'
            if isinstance(n.value, int):
                return [], (f'({n.value})' if n.value < 0 else str(n.value)), 'Z'
            if isinstance(n.value, str):
                return [], strlit(n.value), 'key'
            raise Unsupported(n, 'constant')
        if isinstance(n, ast.Name):
            if n.id in self.env:
                return [], n.id, self.env[n.id]
            raise Unsupported(n, 'unknown or not definitely assigned name')
        if isinstance(n, ast.Attribute):
            if isinstance(n.value, ast.Name) and n.value.id == 'self' and n.attr in self.self_attrs:
                g, s = self.self_attrs[n.attr]
                return [], g, s
            raise Unsupported(n, 'attribute')
        if isinstance(n, ast.List):
            binds, items = [], []
            for e in n.elts:
                b, v, s = self.expr(e)
                binds += b
                items.append(self.as_jv(v, s, e))
            return binds, '(JList [' + '; '.join(items) + '])', 'jv'
        if isinstance(n, ast.Dict):
            binds, items = [], []
            for k, e in zip(n.keys, n.values):
                if not (isinstance(k, ast.Constant) and isinstance(k.value, str)):
                    raise Unsupported(n, 'dict key')
                b, v, s = self.expr(e)
                binds += b
                items.append(f'({strlit(k.value)}, {self.as_jv(v, s, e)})')
            return binds, '(JDict [' + '; '.join(items) + '])', 'jv'
        if isinstance(n, ast.ListComp):
            if len(n.generators) != 1 or n.generators[0].ifs or n.generators[0].is_async or not isinstance(n.generators[0].target, ast.Name):
                raise Unsupported(n, 'comprehension form')
            bi, it, sit = self.expr(n.generators[0].iter)
            if sit != 'jv':
                raise Unsupported(n, f'comprehension over sort {sit}')
            var = n.generators[0].target.id
            saved = dict(self.env)
            self.env[var] = 'jv'
            be, ve, se = self.expr(n.elt)
            self.env = saved
            body = self.wrap(be, f'Some {self.as_jv(ve, se, n.elt)}')
            t = self.fresh()
            return bi + [(t, f'py_list_comp (fun {var} => {body}) {it}')], t, 'jv'
        if isinstance(n, ast.Subscript):
            bv, v, sv = self.expr(n.value)
            if sv == 'jv' and isinstance(n.slice, ast.Constant) and isinstance(n.slice.value, str):
                t = self.fresh()
                return bv + [(t, f'py_item {v} {strlit(n.slice.value)}')], t, 'jv'
            if sv == 'jv' and isinstance(n.slice, ast.Constant) and isinstance(n.slice.value, int) and not isinstance(n.slice.value, bool) \
                    and 0 <= n.slice.value < 64:
                t = self.fresh()
                return bv + [(t, f'py_index {v} {n.slice.value}%nat')], t, 'jv'
            if sv == 'map':
                bk, k, sk = self.expr(n.slice)
                if sk == 'key':
                    t = self.fresh()
                    return bv + bk + [(t, f'map_lookup {k} {v}')], t, 'Z'
            raise Unsupported(n, 'subscript')
        if isinstance(n, ast.Call):
            return self.call(n)
        if isinstance(n, ast.Compare):
            if len(n.ops) != 1:
                raise Unsupported(n, 'chained comparison')
            bl, l, sl = self.expr(n.left)
            br, r, sr = self.expr(n.comparators[0])
            ops = {ast.Eq: '=?', ast.Lt: '<?', ast.LtE: '<=?', ast.Gt: '>?', ast.GtE: '>=?'}
            if sl == 'Z' and sr == 'Z' and type(n.ops[0]) in ops:
                return bl + br, f'({l} {ops[type(n.ops[0])]} {r})', 'bool'
            if sl == 'Z' and sr == 'Z' and isinstance(n.ops[0], ast.NotEq):
                return bl + br, f'(negb ({l} =? {r}))', 'bool'
            raise Unsupported(n, f'comparison on sorts {sl},{sr}')
        if isinstance(n, ast.BinOp):
            bl, l, sl = self.expr(n.left)
            br, r, sr = self.expr(n.right)
            if sl == 'Z' and sr == 'Z':
                pure = {ast.Add: '+', ast.Sub: '-', ast.Mult: '*'}
                if type(n.op) in pure:
                    return bl + br, f'({l} {pure[type(n.op)]} {r})', 'Z'
                if isinstance(n.op, ast.BitAnd):
                    return bl + br, f'(Z.land {l} {r})', 'Z'
                if isinstance(n.op, ast.BitOr):
                    return bl + br, f'(Z.lor {l} {r})', 'Z'
                if isinstance(n.op, (ast.LShift, ast.RShift)):
                    t = self.fresh()
                    f = 'py_lshift' if isinstance(n.op, ast.LShift) else 'py_rshift'
                    return bl + br + [(t, f'{f} {l} {r}')], t, 'Z'
            raise Unsupported(n, f'operator on sorts {sl},{sr}')
        if isinstance(n, ast.UnaryOp) and isinstance(n.op, ast.Not):
            b, v, s = self.expr(n.operand)
            return b, f'(negb {self.truth(v, s, n)})', 'bool'
        raise Unsupported(n)

    def call(self, n: ast.Call):
        if n.keywords:
            raise Unsupported(n, 'keyword arguments')
        f = n.func
        if isinstance(f, ast.Attribute) and f.attr == 'get' and len(n.args) in (1, 2):
            bv, v, sv = self.expr(f.value)
            if sv != 'jv' or not (isinstance(n.args[0], ast.Constant) and isinstance(n.args[0].value, str)):
                raise Unsupported(n, '.get form')
            key = strlit(n.args[0].value)
            t = self.fresh()
            if len(n.args) == 1:
                return bv + [(t, f'py_get {v} {key}')], t, 'jv'
            d = n.args[1]
            if isinstance(d, ast.List) and not d.elts:
                dv = '(JList [])'
                bd = []
            else:
                bd, dv0, ds = self.expr(d)
                dv = self.as_jv(dv0, ds, d)
            return bv + bd + [(t, f'py_get_default {v} {key} {dv}')], t, 'jv'
        if isinstance(f, ast.Name) and len(n.args) == 1:
            b, v, s = self.expr(n.args[0])
            if f.id == 'int':
                if s == 'bool':
                    return b, f'(bool_int {v})', 'Z'
                if s == 'Z':
                    return b, v, 'Z'
                if s == 'jv':
                    t = self.fresh()
                    return b + [(t, f'py_int {v}')], t, 'Z'
            if f.id == 'bool':
                return b, self.truth(v, s, n), 'bool'
            if f.id == 'len' and s == 'jv':
                t = self.fresh()
                return b + [(t, f'py_len {v}')], t, 'Z'
        raise Unsupported(n, 'call')

    @staticmethod
    def wrap(binds: List[Tuple[str, str]], tail: str) -> str:
        out = tail
        for name, op in reversed(binds):
            out = f'do {name} <- {op};\n{out}'
        return out

    # ------------------------------------------------------------------ statements
    def assigned(self, stmts) -> List[str]:
        out = []

        def add(x):
            if x not in out:
                out.append(x)
        for s in stmts:
            if isinstance(s, ast.Assign):
                for t in s.targets:
                    if not isinstance(t, ast.Name):
                        raise Unsupported(s, 'assignment target')
                    add(t.id)
            elif isinstance(s, ast.AugAssign):
                if not isinstance(s.target, ast.Name):
                    raise Unsupported(s, 'assignment target')
                add(s.target.id)
            elif isinstance(s, ast.Expr) and isinstance(s.value, ast.Call) and isinstance(s.value.func, ast.Attribute) \
                    and s.value.func.attr == 'append' and isinstance(s.value.func.value, ast.Name):
                add(s.value.func.value.id)
            elif isinstance(s, ast.If):
                for x in self.assigned(s.body) + self.assigned(s.orelse):
                    add(x)
            elif isinstance(s, ast.For):
                for x in self.assigned(s.body):
                    add(x)
        return out

    @staticmethod
    def tup(names):
        return 'tt' if not names else names[0] if len(names) == 1 else '(' + ', '.join(names) + ')'

    @staticmethod
    def pat(names):
        return '_' if not names else names[0] if len(names) == 1 else "'(" + ', '.join(names) + ')'

    def ends_with_return(self, stmts) -> bool:
        if not stmts:
            return False
        last = stmts[-1]
        if isinstance(last, ast.Return):
            return True
        if isinstance(last, ast.If) and last.orelse:
            return self.ends_with_return(last.body) and self.ends_with_return(last.orelse)
        return False

    def block(self, stmts, tail: str, result_sort: str) -> str:
        """Gallina term (option T): `stmts` followed by `tail` (a term that may use the live variables).
        `result_sort` is the sort `return` must produce ('jv', 'Z', 'keys')."""
        if not stmts:
            return tail
        s, rest = stmts[0], stmts[1:]
        if isinstance(s, ast.Expr) and isinstance(s.value, ast.Constant) and isinstance(s.value.value, str):
            return self.block(rest, tail, result_sort)
        if isinstance(s, ast.Assign):
            if len(s.targets) != 1 or not isinstance(s.targets[0], ast.Name):
                raise Unsupported(s, 'assignment form')
            x = s.targets[0].id
            if isinstance(s.value, ast.List) and not s.value.elts and self.empty_list_sort(x) == 'keys':
                b, v, sort = [], '[]', 'keys'
            else:
                b, v, sort = self.expr(s.value)
            if sort == 'key':
                v, sort = self.as_jv(v, sort, s), 'jv'
            self.env[x] = sort
            return self.wrap(b, f'let {x} := {v} in\n{self.block(rest, tail, result_sort)}')
        if isinstance(s, ast.AugAssign):
            if not isinstance(s.target, ast.Name):
                raise Unsupported(s)
            fake = ast.BinOp(left=ast.Name(id=s.target.id, ctx=ast.Load()), op=s.op, right=s.value)
            ast.copy_location(fake, s)
            ast.fix_missing_locations(fake)
            b, v, sort = self.expr(fake)
            if sort != self.env.get(s.target.id):
                raise Unsupported(s, 'augmented assignment changes the sort')
            return self.wrap(b, f'let {s.target.id} := {v} in\n{self.block(rest, tail, result_sort)}')
        if isinstance(s, ast.Expr) and isinstance(s.value, ast.Call) and isinstance(s.value.func, ast.Attribute) \
                and s.value.func.attr == 'append' and isinstance(s.value.func.value, ast.Name) and len(s.value.args) == 1:
            lst = s.value.func.value.id
            b, v, sort = self.expr(s.value.args[0])
            if self.env.get(lst) == 'keys' and sort == 'key':
                return self.wrap(b, f'let {lst} := ({lst} ++ [{v}]) in\n{self.block(rest, tail, result_sort)}')
            raise Unsupported(s, 'append')
        if isinstance(s, ast.Assert):
            b, v, sort = self.expr(s.test)
            return self.wrap(b, f'do _ <- py_assert {self.truth(v, sort, s.test)};\n{self.block(rest, tail, result_sort)}')
        if isinstance(s, ast.Return):
            if rest:
                raise Unsupported(s, 'code after return')
            if s.value is None:
                raise Unsupported(s, 'bare return')
            b, v, sort = self.expr(s.value)
            if result_sort == 'jv':
                v = self.as_jv(v, sort, s)
            elif sort != result_sort:
                raise Unsupported(s, f'returns sort {sort}, expected {result_sort}')
            return self.wrap(b, f'Some {v}')
        if isinstance(s, ast.If):
            b, c, sort = self.expr(s.test)
            cond = self.truth(c, sort, s.test)
            if self.ends_with_return(s.body) and not s.orelse:
                saved = dict(self.env)
                a = self.block(s.body, '(* unreachable *) None', result_sort)
                self.env = saved
                return self.wrap(b, f'if {cond} then (\n{a})\nelse\n{self.block(rest, tail, result_sort)}')
            if self.ends_with_return(s.body) or self.ends_with_return(s.orelse):
                raise Unsupported(s, 'return in one branch of an if/else')
            live = [x for x in self.assigned([s]) if x in self.env]      # variables first defined inside are branch-local
            saved = dict(self.env)
            a = self.block(s.body, f'Some {self.tup(live)}', result_sort)
            env_a = dict(self.env)
            self.env = dict(saved)
            o = self.block(s.orelse, f'Some {self.tup(live)}', result_sort)
            env_o = dict(self.env)
            self.env = dict(saved)
            for x in live:
                if env_a.get(x) != env_o.get(x):
                    raise Unsupported(s, f'variable {x} has sorts {env_a.get(x)}/{env_o.get(x)} after the branches')
                self.env[x] = env_a[x]
            return self.wrap(b, f'do {self.pat(live)} <- (if {cond} then (\n{a})\nelse (\n{o}));\n{self.block(rest, tail, result_sort)}')
        if isinstance(s, ast.For):
            if s.orelse:
                raise Unsupported(s, 'for/else')
            live = [x for x in self.assigned(s.body) if x in self.env]
            saved = dict(self.env)
            if isinstance(s.target, ast.Name):
                b, it, sit = self.expr(s.iter)
                if sit != 'keys':
                    raise Unsupported(s, f'iteration over sort {sit}')
                self.env[s.target.id] = 'key'
                elem_pat = s.target.id
            elif (isinstance(s.target, ast.Tuple) and len(s.target.elts) == 2 and all(isinstance(e, ast.Name) for e in s.target.elts)
                  and isinstance(s.iter, ast.Call) and isinstance(s.iter.func, ast.Attribute) and s.iter.func.attr == 'items' and not s.iter.args):
                b, it, sit = self.expr(s.iter.func.value)
                if sit != 'map':
                    raise Unsupported(s, f'.items() of sort {sit}')
                k, v = s.target.elts[0].id, s.target.elts[1].id
                self.env[k], self.env[v] = 'key', 'Z'
                elem_pat = f"'({k}, {v})"
            else:
                raise Unsupported(s, 'for target')
            body = self.block(s.body, f'Some {self.tup(live)}', result_sort)
            for x in live:
                if self.env.get(x) != saved.get(x):
                    raise Unsupported(s, f'loop changes the sort of {x}')
            self.env = saved
            state_pat = self.pat(live)
            return self.wrap(b, f'do {state_pat} <- foldM (fun {state_pat} {elem_pat} =>\n{body}) {it} {self.tup(live)};\n'
                                f'{self.block(rest, tail, result_sort)}')
        if isinstance(s, ast.Pass):
            return self.block(rest, tail, result_sort)
        raise Unsupported(s)

    def empty_list_sort(self, var: str) -> str:
        return getattr(self, 'list_vars', {}).get(var, 'jv')

    def function(self, fn: ast.FunctionDef, result_sort: str) -> str:
        body = self.block(fn.body, '(* unreachable *) None', result_sort)
        if '(* unreachable *)' in body and not self.ends_with_return(fn.body):
            raise Unsupported(fn, 'a path does not end in return')
        return body
