"""Fail-closed translator (C31, identifier half): hail/python/hail/utils/misc.py :: upper_hex / escape_str / escape_id /
parsable_strings  ->  coq/generated/C31/GenId.v.

What is READ from the source on every run (nothing below is assumed):
  * escape_id's test: the pattern string (inline `re.fullmatch(PAT, s)` / `re.match(PAT, s)` or a module-level
    `NAME = re.compile(PAT)` used as `NAME.fullmatch(s)` / `NAME.match(s)`) and the entry point (-> Regex.mode).  The pattern is
    parsed by the IMPLEMENTATION interpreter's own re._parser (harness/impl/regex_parse.py) and mapped constructor by
    constructor by harness/translate/regex_sre.py; the one extension made here is the category \\w inside a positive set,
    which becomes the ranges  py_word_ranges word_hi  (ASCII part concrete, the part above U+007F a parameter of the theorems);
  * escape_id's two results: `s` itself, and a constant format string with one `{}` around escape_str(s, backticked=CONST);
  * escape_str: the per-character if/elif chain of `sb.write(...)` calls, the rewrite dictionary, the default of `backticked`;
  * upper_hex: must be EXACTLY the two str.format calls below (their meaning is the hand definition IdModel.upper_hex, tied by X);
  * parsable_strings: separator, quotes, brackets.
Anything else raises TieBroken (the check then treats the tie as broken and searches the implementation for a failing name)."""
import ast

from harness.core import TieBroken
from harness.translate import regex_sre

SRC = 'hail/python/hail/utils/misc.py'
WHO = 'escape-id-translator'


def _fail(why):
    raise TieBroken(WHO, why)


def _name(s):
    return '[' + '; '.join(str(ord(c)) for c in s) + ']'


def _funcs(tree):
    out = {}
    for node in tree.body:
        if isinstance(node, ast.FunctionDef):
            if node.name in out:
                _fail(f'{node.name} is defined twice')
            out[node.name] = node
    return out


def _strip_doc(body):
    if body and isinstance(body[0], ast.Expr) and isinstance(body[0].value, ast.Constant) and isinstance(body[0].value.value, str):
        return body[1:]
    return body


def _plain_args(fn, names, defaults):
    a = fn.args
    if a.vararg or a.kwarg or a.kwonlyargs or a.posonlyargs or fn.decorator_list:
        _fail(f'{fn.name}: unexpected signature/decorators')
    if [x.arg for x in a.args] != names:
        _fail(f'{fn.name}: parameters are {[x.arg for x in a.args]}, expected {names}')
    got = [d.value if isinstance(d, ast.Constant) else '<non-constant>' for d in a.defaults]
    if got != defaults:
        _fail(f'{fn.name}: defaults are {got}, expected {defaults}')


# ------------------------------------------------------------------------------------------------ upper_hex

UPPER_HEX_EXPECTED = '''
def upper_hex(n, num_digits=None):
    if num_digits is None:
        return "{0:X}".format(n)
    else:
        return "{0:0{1}X}".format(n, num_digits)
'''


def _check_upper_hex(fn):
    want = ast.parse(UPPER_HEX_EXPECTED).body[0]
    if ast.dump(fn) != ast.dump(want):
        _fail('upper_hex is no longer `"{0:X}".format(n)` / `"{0:0{1}X}".format(n, num_digits)` (its hand definition '
              'IdModel.upper_hex would not describe it)')


# ------------------------------------------------------------------------------------------------ escape_str

class _EscStr:
    """translate the body of `for ch in s:` into a Gallina expression of type `name` (the text written for one character);
    `c` stands for both `ch` and `chNum = ord(ch)`."""

    def __init__(self, sb, ch, chnum, flag, dicts):
        self.sb, self.ch, self.chnum, self.flag, self.dicts = sb, ch, chnum, flag, dicts

    def block(self, stmts, guards):
        parts = [self.stmt(s, guards) for s in stmts]
        if not parts:
            return '[]'
        return parts[0] if len(parts) == 1 else '(' + ' ++ '.join(parts) + ')'

    def stmt(self, s, guards):
        if isinstance(s, ast.If):
            c, g = self.cond(s.test)
            a = self.block(s.body, guards | g)
            b = self.block(s.orelse, guards)
            return f'(if {c} then {a} else {b})'
        if isinstance(s, ast.Expr) and isinstance(s.value, ast.Call) and isinstance(s.value.func, ast.Attribute) \
                and s.value.func.attr == 'write' and isinstance(s.value.func.value, ast.Name) and s.value.func.value.id == self.sb \
                and len(s.value.args) == 1 and not s.value.keywords:
            return self.text(s.value.args[0], guards)
        if isinstance(s, ast.Pass):
            return '[]'
        _fail(f'escape_str line {s.lineno}: unsupported statement `{ast.unparse(s)[:80]}` in the character loop')

    def cond(self, e):
        """-> (Gallina bool, set of dictionaries known to contain ch when it is true)"""
        if isinstance(e, ast.Name) and e.id == self.flag:
            return self.flag, set()
        if isinstance(e, ast.UnaryOp) and isinstance(e.op, ast.Not):
            c, _ = self.cond(e.operand)
            return f'(negb {c})', set()
        if isinstance(e, ast.BoolOp):
            cs = [self.cond(v) for v in e.values]
            op = '&&' if isinstance(e.op, ast.And) else '||'
            g = set().union(*[x[1] for x in cs]) if isinstance(e.op, ast.And) else set()
            return '(' + f' {op} '.join(x[0] for x in cs) + ')', g
        if isinstance(e, ast.Compare) and len(e.ops) == 1:
            l, op, r = e.left, e.ops[0], e.comparators[0]
            if isinstance(l, ast.Name) and l.id == self.chnum and isinstance(r, ast.Constant) and type(r.value) is int and r.value >= 0:
                k = r.value
                tab = {ast.Lt: f'(c <? {k})', ast.LtE: f'(c <=? {k})', ast.Gt: f'({k} <? c)', ast.GtE: f'({k} <=? c)',
                       ast.Eq: f'(c =? {k})', ast.NotEq: f'(negb (c =? {k}))'}
                if type(op) in tab:
                    lb = {ast.Gt: k + 1, ast.GtE: k, ast.Eq: k}.get(type(op))
                    return tab[type(op)], ({('lb', lb)} if lb is not None else set())
            if isinstance(l, ast.Name) and l.id == self.ch and isinstance(r, ast.Constant) and isinstance(r.value, str) \
                    and len(r.value) == 1 and isinstance(op, (ast.Eq, ast.NotEq)):
                t = f'(c =? {ord(r.value)})'
                return (t if isinstance(op, ast.Eq) else f'(negb {t})'), set()
            if isinstance(l, ast.Name) and l.id == self.ch and isinstance(r, ast.Name) and r.id in self.dicts and isinstance(op, ast.In):
                return f'(dict_mem c {r.id})', {r.id}
        _fail(f'escape_str line {e.lineno}: unsupported condition `{ast.unparse(e)[:80]}`')

    def text(self, e, guards):
        if isinstance(e, ast.Constant) and isinstance(e.value, str):
            return _name(e.value)
        if isinstance(e, ast.Name) and e.id == self.ch:
            return '[c]'
        if isinstance(e, ast.BinOp) and isinstance(e.op, ast.Add):
            return f'({self.text(e.left, guards)} ++ {self.text(e.right, guards)})'
        if isinstance(e, ast.Subscript) and isinstance(e.value, ast.Name) and e.value.id in self.dicts \
                and isinstance(e.slice, ast.Name) and e.slice.id == self.ch:
            if e.value.id not in guards:
                _fail(f'escape_str line {e.lineno}: {e.value.id}[ch] outside `if ch in {e.value.id}` (KeyError is not modelled)')
            return f'(dict_get c {e.value.id})'
        if isinstance(e, ast.Call) and isinstance(e.func, ast.Name) and e.func.id == 'upper_hex' and not e.keywords \
                and 1 <= len(e.args) <= 2:
            n = self.num(e.args[0], guards)
            if len(e.args) == 1:
                return f'(upper_hex {n} None)'
            k = e.args[1]
            if isinstance(k, ast.Constant) and type(k.value) is int and 0 <= k.value <= 16:
                return f'(upper_hex {n} (Some {k.value}%nat))'
        _fail(f'escape_str line {e.lineno}: unsupported written text `{ast.unparse(e)[:80]}`')

    def num(self, e, guards):
        """a non-negative integer expression over chNum -> Gallina N.  `chNum - K` only where a guard chNum >= K is in force
        (N subtraction truncates, Python's does not)"""
        if isinstance(e, ast.Name) and e.id == self.chnum:
            return 'c'
        if isinstance(e, ast.Constant) and type(e.value) is int and e.value >= 0:
            return str(e.value)
        if isinstance(e, ast.BinOp):
            r = e.right
            rk = r.value if isinstance(r, ast.Constant) and type(r.value) is int and r.value >= 0 else None
            if isinstance(e.op, ast.Add):
                return f'({self.num(e.left, guards)} + {self.num(e.right, guards)})'
            if isinstance(e.op, ast.Sub) and isinstance(e.left, ast.Name) and e.left.id == self.chnum and rk is not None:
                lb = max([g[1] for g in guards if isinstance(g, tuple) and g[0] == 'lb'], default=0)
                if lb >= rk:
                    return f'(c - {rk})'
                _fail(f'escape_str line {e.lineno}: `{ast.unparse(e)}` without a guard {self.chnum} >= {rk} in force')
            if isinstance(e.op, ast.RShift) and rk is not None:
                return f'(N.shiftr {self.num(e.left, guards)} {rk})'
            if isinstance(e.op, ast.BitAnd) and rk is not None:
                return f'(N.land {self.num(e.left, guards)} {rk})'
        _fail(f'escape_str line {e.lineno}: unsupported integer expression `{ast.unparse(e)[:80]}`')


def _translate_escape_str(fn):
    _plain_args(fn, ['s', 'backticked'], [False])
    body = _strip_doc(fn.body)
    # sb = StringIO()
    if not (body and isinstance(body[0], ast.Assign) and len(body[0].targets) == 1 and isinstance(body[0].targets[0], ast.Name)
            and ast.unparse(body[0].value) == 'StringIO()'):
        _fail('escape_str does not start with `sb = StringIO()`')
    sb = body[0].targets[0].id
    i = 1
    dicts = {}
    while i < len(body) and isinstance(body[i], ast.Assign):
        st = body[i]
        if not (len(st.targets) == 1 and isinstance(st.targets[0], ast.Name) and isinstance(st.value, ast.Dict)):
            _fail(f'escape_str line {st.lineno}: unsupported assignment before the loop')
        items = []
        for k, v in zip(st.value.keys, st.value.values):
            if not (isinstance(k, ast.Constant) and isinstance(k.value, str) and len(k.value) == 1
                    and isinstance(v, ast.Constant) and isinstance(v.value, str)):
                _fail(f'escape_str line {st.lineno}: dictionary entries must be one-character-string -> string constants')
            items.append((ord(k.value), v.value))
        if len({k for k, _ in items}) != len(items):
            _fail(f'escape_str line {st.lineno}: duplicate dictionary key')
        dicts[st.targets[0].id] = items
        i += 1
    if not (i < len(body) and isinstance(body[i], ast.For) and not body[i].orelse and isinstance(body[i].target, ast.Name)
            and isinstance(body[i].iter, ast.Name) and body[i].iter.id == 's'):
        _fail('escape_str: `for ch in s:` not found where expected')
    loop = body[i]
    ch = loop.target.id
    lb = loop.body
    if not (lb and isinstance(lb[0], ast.Assign) and len(lb[0].targets) == 1 and isinstance(lb[0].targets[0], ast.Name)
            and ast.unparse(lb[0].value) == f'ord({ch})'):
        _fail('escape_str: the loop does not start with `chNum = ord(ch)`')
    chnum = lb[0].targets[0].id
    if len({sb, ch, chnum, 'backticked', 's'} | set(dicts)) != 5 + len(dicts):
        _fail('escape_str: variable names clash')
    tail = [ast.unparse(x) for x in body[i + 1:]]
    if len(tail) != 3 or not (isinstance(body[i + 1], ast.Assign) and ast.unparse(body[i + 1].value) == f'{sb}.getvalue()'
                              and tail[1] == f'{sb}.close()' and tail[2] == f'return {ast.unparse(body[i + 1].targets[0])}'):
        _fail(f'escape_str: after the loop expected `x = sb.getvalue(); sb.close(); return x`, found {tail}')
    expr = _EscStr(sb, ch, chnum, 'backticked', dicts).block(lb[1:], set())
    defs = []
    for name, items in dicts.items():
        defs.append(f'Definition {name} : list (N * name) :=\n  [' + '; '.join(f'({k}, {_name(v)})' for k, v in items) + '].')
    defs.append('(* the text written for one character; c is both ch and chNum = ord(ch) *)\n'
                f'Definition escape_str_char (backticked : bool) (c : N) : name :=\n  {expr}.')
    defs.append('Definition escape_str (backticked : bool) (s : name) : name := flat_map (escape_str_char backticked) s.')
    defs.append('Definition escape_str_default_backticked : bool := false.')
    return '\n\n'.join(defs)


# ------------------------------------------------------------------------------------------------ regex with \w

ASCII_WORD = 'py_word_ranges word_hi'


def _tree_to_coq_w(tree):
    parts = [_item_to_coq_w(it) for it in tree]
    if not parts:
        return 'REps'
    acc = parts[-1]
    for p in reversed(parts[:-1]):
        acc = f'(RSeq {p} {acc})'
    return acc


def _item_to_coq_w(it):
    """regex_sre.item_to_coq, plus  CATEGORY_WORD inside a positive set  (recursion re-done here because regex_sre recurses
    into itself; every construct without \\w below this node is delegated unchanged)."""
    op, av = it[0], it[1]
    if op == 'IN' and any(x[0] == 'CATEGORY' for x in av):
        cats = [x for x in av if x[0] == 'CATEGORY']
        rest = [x for x in av if x[0] != 'CATEGORY']
        if any(x[1] != 'CATEGORY_WORD' for x in cats):
            regex_sre._fail(f'category {[x[1] for x in cats]} (only \\w is modelled)')
        neg, rs = regex_sre._set_items(rest)
        if neg:
            regex_sre._fail('\\w inside a negated set')
        return f'(RSet false ({regex_sre._ranges(rs)} ++ {ASCII_WORD}))' if rs else f'(RSet false ({ASCII_WORD}))'
    if op == 'MAX_REPEAT':
        lo, hi, body = av
        b = _tree_to_coq_w(body)
        if lo == 0 and hi == 1:
            return f'(ROpt {b})'
        if lo == 0 and hi == regex_sre.MAXREPEAT:
            return f'(RStar {b})'
        if lo == 1 and hi == regex_sre.MAXREPEAT:
            return f'(RPlus {b})'
        regex_sre._fail(f'unsupported repeat bounds {{{lo},{hi}}}')
    if op == 'SUBPATTERN':
        group, add_flags, del_flags, body = av
        if add_flags or del_flags:
            regex_sre._fail('inline flags in a group')
        b = _tree_to_coq_w(body)
        return b if group is None else f'(RGroup {int(group)} {b})'
    if op == 'BRANCH':
        _, alts = av
        parts = [_tree_to_coq_w(a) for a in alts]
        acc = parts[-1]
        for p in reversed(parts[:-1]):
            acc = f'(RAlt {p} {acc})'
        return acc
    return regex_sre.item_to_coq(it)


def parsed_to_coq_w(parsed):
    if 'error' in parsed:
        regex_sre._fail(f'pattern does not compile: {parsed["error"]}')
    if parsed['flags'] != regex_sre.SRE_FLAG_UNICODE:
        regex_sre._fail(f'pattern carries flags {parsed["flags"]} (only the default UNICODE flag of str patterns is modelled)')
    return _tree_to_coq_w(parsed['tree'])


# ------------------------------------------------------------------------------------------------ escape_id

MODES = {'fullmatch': 'FullMatch', 'match': 'MatchPrefix'}


def _compiled_patterns(tree):
    """module-level NAME = re.compile('<constant>') (assigned exactly once anywhere in the module)"""
    out, assigned = {}, {}
    for node in ast.walk(tree):
        if isinstance(node, (ast.Assign, ast.AugAssign, ast.AnnAssign)):
            tg = node.targets if isinstance(node, ast.Assign) else [node.target]
            for t in tg:
                for n in ast.walk(t):
                    if isinstance(n, ast.Name):
                        assigned[n.id] = assigned.get(n.id, 0) + 1
        elif isinstance(node, ast.Global):
            for n in node.names:
                assigned[n] = assigned.get(n, 0) + 2
    for node in tree.body:
        if isinstance(node, ast.Assign) and len(node.targets) == 1 and isinstance(node.targets[0], ast.Name):
            v = node.value
            if isinstance(v, ast.Call) and ast.unparse(v.func) == 're.compile' and len(v.args) == 1 and not v.keywords \
                    and isinstance(v.args[0], ast.Constant) and isinstance(v.args[0].value, str) and assigned.get(node.targets[0].id) == 1:
                out[node.targets[0].id] = v.args[0].value
    return out


def _regex_test(test, compiled):
    """-> (pattern, entry point)"""
    if not (isinstance(test, ast.Call) and isinstance(test.func, ast.Attribute) and not test.keywords):
        _fail(f'escape_id: the test `{ast.unparse(test)[:80]}` is not a call of match/fullmatch')
    meth, recv, args = test.func.attr, test.func.value, test.args
    if meth not in MODES:
        _fail(f'escape_id: entry point .{meth} is not modelled (match/fullmatch only)')
    if isinstance(recv, ast.Name) and recv.id == 're':
        if len(args) == 2 and isinstance(args[0], ast.Constant) and isinstance(args[0].value, str) and ast.unparse(args[1]) == 's':
            return args[0].value, meth
        _fail('escape_id: re.<entry>(PATTERN, s) with a constant pattern and no flags expected')
    if isinstance(recv, ast.Name) and recv.id in compiled:
        if len(args) == 1 and ast.unparse(args[0]) == 's':
            return compiled[recv.id], meth
        _fail('escape_id: <compiled>.<entry>(s) expected')
    _fail(f'escape_id: cannot resolve the pattern object `{ast.unparse(recv)[:60]}`')


def _translate_escape_id(fn, compiled):
    _plain_args(fn, ['s'], [])
    body = _strip_doc(fn.body)
    if not (len(body) == 1 and isinstance(body[0], ast.If)):
        # also accept  if T: return s  followed by  return X
        if len(body) == 2 and isinstance(body[0], ast.If) and not body[0].orelse and isinstance(body[1], ast.Return):
            test, then, els = body[0].test, body[0].body, [body[1]]
        else:
            _fail('escape_id: body is not `if <test>: return s else: return <quoted>`')
    else:
        test, then, els = body[0].test, body[0].body, body[0].orelse
    if not (len(then) == 1 and isinstance(then[0], ast.Return) and ast.unparse(then[0].value) == 's'):
        _fail('escape_id: the accepting branch does not `return s`')
    if not (len(els) == 1 and isinstance(els[0], ast.Return)):
        _fail('escape_id: the other branch is not a single return')
    pattern, entry = _regex_test(test, compiled)
    r = els[0].value
    if not (isinstance(r, ast.Call) and isinstance(r.func, ast.Attribute) and r.func.attr == 'format' and not r.keywords
            and isinstance(r.func.value, ast.Constant) and isinstance(r.func.value.value, str) and len(r.args) == 1):
        _fail('escape_id: the quoted result is not `"<constant>".format(<one argument>)`')
    fmt = r.func.value.value
    if fmt.count('{}') != 1 or '{' in fmt.replace('{}', '') or '}' in fmt.replace('{}', ''):
        _fail(f'escape_id: format string {fmt!r} is not <prefix>{{}}<suffix>')
    pre, suf = fmt.split('{}')
    a = r.args[0]
    if not (isinstance(a, ast.Call) and isinstance(a.func, ast.Name) and a.func.id == 'escape_str' and a.args
            and ast.unparse(a.args[0]) == 's'):
        _fail('escape_id: the formatted argument is not escape_str(s, ...)')
    flag = False
    if len(a.args) == 2 and not a.keywords:
        fv = a.args[1]
    elif len(a.args) == 1 and len(a.keywords) == 1 and a.keywords[0].arg == 'backticked':
        fv = a.keywords[0].value
    elif len(a.args) == 1 and not a.keywords:
        fv = ast.Constant(False)
    else:
        _fail('escape_id: unsupported arguments of escape_str')
    if not (isinstance(fv, ast.Constant) and isinstance(fv.value, bool)):
        _fail('escape_id: backticked= is not a boolean constant')
    flag = fv.value
    return pattern, entry, pre, suf, flag


def _translate_parsable_strings(fn):
    want = ast.parse('''
def parsable_strings(strs):
    strs = SEP.join(f'Q{escape_str(s)}Q' for s in strs)
    return f"L{strs}R"
''').body[0]
    _plain_args(fn, ['strs'], [])
    body = _strip_doc(fn.body)
    try:
        st, rt = body
        assert len(body) == 2 and isinstance(st, ast.Assign) and ast.unparse(st.targets[0]) == 'strs' and len(st.targets) == 1
        call = st.value
        assert isinstance(call, ast.Call) and isinstance(call.func, ast.Attribute) and call.func.attr == 'join' and not call.keywords
        sep = call.func.value
        assert isinstance(sep, ast.Constant) and isinstance(sep.value, str)
        gen = call.args[0]
        assert len(call.args) == 1 and isinstance(gen, (ast.GeneratorExp, ast.ListComp)) and len(gen.generators) == 1
        g = gen.generators[0]
        assert not g.ifs and not g.is_async and ast.unparse(g.target) == 's' and ast.unparse(g.iter) == 'strs'
        js = gen.elt
        assert isinstance(js, ast.JoinedStr)
        vals = list(js.values)
        ql = vals.pop(0).value if vals and isinstance(vals[0], ast.Constant) else ''
        fv = vals.pop(0)
        qr = vals.pop(0).value if vals and isinstance(vals[0], ast.Constant) else ''
        assert not vals and isinstance(fv, ast.FormattedValue) and fv.conversion == -1 and fv.format_spec is None
        assert ast.unparse(fv.value) == 'escape_str(s)'
        assert isinstance(rt, ast.Return) and isinstance(rt.value, ast.JoinedStr)
        vals = list(rt.value.values)
        bl = vals.pop(0).value if vals and isinstance(vals[0], ast.Constant) else ''
        fv = vals.pop(0)
        br = vals.pop(0).value if vals and isinstance(vals[0], ast.Constant) else ''
        assert not vals and isinstance(fv, ast.FormattedValue) and fv.conversion == -1 and fv.format_spec is None
        assert ast.unparse(fv.value) == 'strs'
    except (AssertionError, ValueError, IndexError):
        _fail('parsable_strings is no longer `strs = SEP.join(f\'Q{escape_str(s)}Q\' for s in strs); return f"L{strs}R"` '
              f'(expected shape: {ast.unparse(want)!r})')
    return sep.value, ql, qr, bl, br


# ------------------------------------------------------------------------------------------------ entry point

def translate(ctx):
    """-> (text of GenId.v, info dict)"""
    src = ctx.read_repo(SRC)
    try:
        tree = ast.parse(src)
    except SyntaxError as e:
        _fail(f'{SRC} does not parse: {e}')
    fns = _funcs(tree)
    for n in ('upper_hex', 'escape_str', 'escape_id', 'parsable_strings'):
        if n not in fns:
            _fail(f'{n} not found in {SRC}')
    _check_upper_hex(fns['upper_hex'])
    esc = _translate_escape_str(fns['escape_str'])
    pattern, entry, pre, suf, flag = _translate_escape_id(fns['escape_id'], _compiled_patterns(tree))
    sep, ql, qr, bl, br = _translate_parsable_strings(fns['parsable_strings'])
    parsed = ctx.run_impl('regex_parse.py', {'patterns': [pattern]}, timeout=60)['parsed'][0]
    regex = parsed_to_coq_w(parsed)
    pat_comment = pattern.replace('(*', '( *').replace('*)', '* )')
    text = f'''(* GENERATED by harness/translate/escape_id.py from {SRC} :: upper_hex, escape_str, escape_id, parsable_strings — do not edit *)
From HailV Require Import Common.Prelude HailValues.Model HailTypes.Model Regex.Regex HailTypes.IdModel.
Open Scope N_scope.

{esc}

(* escape_id: pattern  {pat_comment}   entry point  .{entry}
   word_hi = the ranges of Python's \\w above U+007F (a parameter; see IdModel.py_word_ranges) *)
Definition escape_id_regex (word_hi : list (N * N)) : re :=
  {regex}.
Definition escape_id_mode : mode := {MODES[entry]}.
(* the result when the pattern does not accept s:  {pre!r}.format-prefix, escape_str(s, backticked={flag}), suffix {suf!r} *)
Definition escape_id_quoted (s : name) : name := {_name(pre)} ++ escape_str {"true" if flag else "false"} s ++ {_name(suf)}.

(* parsable_strings *)
Definition parsable_strings (strs : list name) : name :=
  {_name(bl)} ++ join {_name(sep)} (map (fun s => {_name(ql)} ++ escape_str escape_str_default_backticked s ++ {_name(qr)}) strs) ++ {_name(br)}.
'''
    return text, {'pattern': pattern, 'entry': entry, 'quote': [pre, suf], 'backticked': flag}
