"""C30 — translator T for the re-entrancy guard of ci/ci/github.py `WatchedBranch._update`.

Reads the SOURCE of `WatchedBranch.__init__`, `_update`, `notify_github_changed`, `notify_batch_changed`, `update` and emits
their control skeleton as Gallina data (`HailG.C30.GuardGen`), in the statement language of coq/theories/CI/Guard.v:

    self.<flag> = True|False                  -> SSet F b          flags: updating github_changed batch_changed state_changed
    log.<level>(...)                          -> SSkip
    await self.<sub-operation>(...)           -> SAwait C          _update_github _update_batch _heal try_to_merge
    if <cond>: ...   (no else)                -> SIf c [...]
    while <cond>: ... (no else)               -> SWhile c [...]
    try: ... finally: ... (no except / else)  -> STry [...] [...]
    return                                    -> SReturn
    <cond>: self.<flag> | a or b or ...       -> CFlag | COr; any other side-effect-free expression that does not mention a
                                                 flag -> COpaque (its value is chosen by the environment in the model)

`await self._update(...)` is accepted only as the LAST statement of the three notification methods (the model inlines it).
Anything else raises TieBroken (fail closed).  CI/GuardTie.v proves the generated skeletons EQUAL to the hand-written ones the
theorems are about, so a semantic edit of these methods breaks that lemma.

Side conditions of the model, checked on every run over all of ci/ci/*.py (also fail closed):
  * `updating` is written only in `WatchedBranch.__init__` and `WatchedBranch._update`;
  * outside `_update`, the three `*_changed` flags are only ever assigned the constant True (sub-operations set, never clear);
  * no string constant equals a flag name (setattr / __dict__ access);
  * `_update` is called only by the three notification methods.
"""
import ast
import os

from harness.core import TieBroken

FLAGS = {'updating': 'FUpdating', 'github_changed': 'FGithub', 'batch_changed': 'FBatch', 'state_changed': 'FState'}
CALLS = {'_update_github': 'CGithub', '_update_batch': 'CBatch', '_heal': 'CHeal', 'try_to_merge': 'CMerge'}
NOTIFY = ['notify_github_changed', 'notify_batch_changed', 'update']
LOG_METHODS = {'debug', 'info', 'warning', 'error', 'exception'}
SRC = 'ci/ci/github.py'
NAME = 'guard-skeleton'


def _broken(node, why):
    raise TieBroken(NAME, f'{SRC}:{getattr(node, "lineno", "?")}: {why}')


def _self_attr(e):
    return e.attr if isinstance(e, ast.Attribute) and isinstance(e.value, ast.Name) and e.value.id == 'self' else None


def _mentions_flag(e):
    return any(isinstance(n, ast.Attribute) and n.attr in FLAGS for n in ast.walk(e))


def _pure(e):
    ok = (ast.BoolOp, ast.And, ast.Or, ast.UnaryOp, ast.Not, ast.Compare, ast.Is, ast.IsNot, ast.Eq, ast.NotEq, ast.Attribute,
          ast.Name, ast.Constant, ast.Load)
    return all(isinstance(n, ok) for n in ast.walk(e))


def cond(e):
    a = _self_attr(e)
    if a in FLAGS:
        return f'CFlag {FLAGS[a]}'
    if isinstance(e, ast.BoolOp) and isinstance(e.op, ast.Or) and all(_self_attr(v) in FLAGS for v in e.values):
        out = cond(e.values[0])
        for v in e.values[1:]:
            out = f'COr ({out}) ({cond(v)})'
        return out
    if _mentions_flag(e):
        _broken(e, 'condition mixes a guard flag with something else: ' + ast.unparse(e))
    if not _pure(e):
        _broken(e, 'condition with a call / await / assignment: ' + ast.unparse(e))
    return 'COpaque'


def block(stmts, tail_update_ok=False):
    out = []
    for idx, s in enumerate(stmts):
        last = idx == len(stmts) - 1
        if isinstance(s, ast.Assign):
            if len(s.targets) == 1 and _self_attr(s.targets[0]) in FLAGS and isinstance(s.value, ast.Constant) and s.value.value in (True, False) \
                    and isinstance(s.value.value, bool):
                out.append(f'SSet {FLAGS[_self_attr(s.targets[0])]} {"true" if s.value.value else "false"}')
            else:
                _broken(s, 'assignment outside the subset: ' + ast.unparse(s))
        elif isinstance(s, ast.Expr) and isinstance(s.value, ast.Constant) and isinstance(s.value.value, str):
            continue        # docstring
        elif isinstance(s, ast.Expr) and isinstance(s.value, ast.Call) and isinstance(s.value.func, ast.Attribute) \
                and isinstance(s.value.func.value, ast.Name) and s.value.func.value.id == 'log' and s.value.func.attr in LOG_METHODS:
            if any(isinstance(n, (ast.Await, ast.NamedExpr)) for n in ast.walk(s)) or _mentions_flag_assign(s):
                _broken(s, 'log call with an await / assignment')
            out.append('SSkip')
        elif isinstance(s, ast.Expr) and isinstance(s.value, ast.Await) and isinstance(s.value.value, ast.Call) \
                and _self_attr(s.value.value.func) is not None:
            m = _self_attr(s.value.value.func)
            call = s.value.value
            if any(isinstance(n, (ast.Await, ast.NamedExpr, ast.Call)) for a in list(call.args) + [k.value for k in call.keywords] for n in ast.walk(a)):
                _broken(s, 'argument of an awaited sub-operation is not a plain expression')
            if m in CALLS:
                out.append(f'SAwait {CALLS[m]}')
            elif m == '_update' and tail_update_ok and last:
                out.append('@TAIL')
            else:
                _broken(s, f'await of self.{m} is outside the subset')
        elif isinstance(s, ast.If):
            if s.orelse:
                _broken(s, 'if with an else branch')
            out.append(f'SIf ({cond(s.test)}) [{"; ".join(block(s.body))}]')
        elif isinstance(s, ast.While):
            if s.orelse:
                _broken(s, 'while with an else branch')
            out.append(f'SWhile ({cond(s.test)}) [{"; ".join(block(s.body))}]')
        elif isinstance(s, ast.Try):
            if s.handlers or s.orelse or not s.finalbody:
                _broken(s, 'try statement that is not try/finally')
            out.append(f'STry [{"; ".join(block(s.body))}] [{"; ".join(block(s.finalbody))}]')
        elif isinstance(s, ast.Return):
            if s.value is not None:
                _broken(s, 'return with a value')
            out.append('SReturn')
        else:
            _broken(s, f'statement outside the subset ({type(s).__name__}): ' + ast.unparse(s)[:120])
    return out


def _mentions_flag_assign(s):
    return any(isinstance(n, (ast.Assign, ast.AugAssign, ast.AnnAssign)) for n in ast.walk(s))


def _method(cls, name, want_async=True):
    ms = [n for n in cls.body if isinstance(n, (ast.FunctionDef, ast.AsyncFunctionDef)) and n.name == name]
    if len(ms) != 1:
        raise TieBroken(NAME, f'{SRC}: WatchedBranch.{name} defined {len(ms)} times')
    m = ms[0]
    if want_async and not isinstance(m, ast.AsyncFunctionDef):
        _broken(m, f'{name} is not a coroutine function')
    if m.decorator_list:
        _broken(m, f'{name} is decorated')
    return m


def _assign_targets(n):
    if isinstance(n, ast.Assign):
        ts = []
        for t in n.targets:
            ts += list(t.elts) if isinstance(t, (ast.Tuple, ast.List)) else [t]
        return ts, n.value
    if isinstance(n, ast.AnnAssign):
        return [n.target], n.value
    if isinstance(n, ast.AugAssign):
        return [n.target], None
    if isinstance(n, (ast.Delete,)):
        return list(n.targets), None
    if isinstance(n, ast.NamedExpr):
        return [n.target], None
    if isinstance(n, (ast.For, ast.AsyncFor)):
        return [n.target], None
    if isinstance(n, (ast.With, ast.AsyncWith)):
        return [i.optional_vars for i in n.items if i.optional_vars is not None], None
    return [], None


def side_conditions(ctx):
    """Whole-package checks: who writes the flags, who calls _update."""
    ci_dir = os.path.join(ctx.repo, 'ci', 'ci')
    notes = []
    for fn in sorted(os.listdir(ci_dir)):
        if not fn.endswith('.py'):
            continue
        rel = f'ci/ci/{fn}'
        tree = ast.parse(open(os.path.join(ci_dir, fn), encoding='utf-8').read())
        # (enclosing class, enclosing function) of every node
        def visit(node, cls, fun):
            if isinstance(node, ast.ClassDef):
                cls, fun = node.name, None
            elif isinstance(node, (ast.FunctionDef, ast.AsyncFunctionDef)):
                fun = node.name if fun is None else fun    # nested functions count with the outer method
            ts, val = _assign_targets(node)
            for t in ts:
                for a in ast.walk(t):
                    if isinstance(a, ast.Attribute) and a.attr in FLAGS:
                        inside_update = rel == SRC and cls == 'WatchedBranch' and fun == '_update'
                        inside_init = rel == SRC and cls == 'WatchedBranch' and fun == '__init__'
                        is_true = isinstance(val, ast.Constant) and val.value is True
                        if a.attr == 'updating':
                            if not (inside_update or inside_init):
                                raise TieBroken(NAME, f'{rel}:{node.lineno}: `updating` is written outside WatchedBranch._update')
                        elif not (inside_update or inside_init or is_true):
                            raise TieBroken(NAME, f'{rel}:{node.lineno}: `{a.attr}` is assigned something other than True outside _update: '
                                            + ast.unparse(node)[:100])
            if isinstance(node, ast.Constant) and isinstance(node.value, str) and node.value in FLAGS:
                raise TieBroken(NAME, f'{rel}:{node.lineno}: string constant {node.value!r} (indirect access to a guard flag?)')
            if isinstance(node, ast.Attribute) and node.attr == '_update':
                if not (rel == SRC and cls == 'WatchedBranch' and fun in NOTIFY):
                    raise TieBroken(NAME, f'{rel}:{node.lineno}: `_update` is referenced outside the three notification methods')
            for ch in ast.iter_child_nodes(node):
                visit(ch, cls, fun)
        visit(tree, None, None)
        notes.append(rel)
    return notes


def translate(ctx):
    src = ctx.read_repo(SRC)
    tree = ast.parse(src)
    cls = [n for n in tree.body if isinstance(n, ast.ClassDef) and n.name == 'WatchedBranch']
    if len(cls) != 1:
        raise TieBroken(NAME, f'{SRC}: class WatchedBranch defined {len(cls)} times')
    cls = cls[0]
    upd = _method(cls, '_update')
    body = block(upd.body)
    if '@TAIL' in body:
        _broken(upd, '_update calls itself')
    prefixes = {}
    for name in NOTIFY:
        m = _method(cls, name)
        b = block(m.body, tail_update_ok=True)
        if not b or b[-1] != '@TAIL' or '@TAIL' in b[:-1]:
            _broken(m, f'{name} does not end with `await self._update(...)`')
        if any(not x.startswith('SSet ') for x in b[:-1]):
            _broken(m, f'{name} does more than set flags before calling _update')
        prefixes[name] = b[:-1]
    # initial values of the flags
    init = _method(cls, '__init__', want_async=False)
    vals = {}
    for n in ast.walk(init):
        ts, val = _assign_targets(n)
        for t in ts:
            a = _self_attr(t)
            if a in FLAGS:
                if a in vals or not (isinstance(val, ast.Constant) and isinstance(val.value, bool)):
                    _broken(n, f'__init__ initialises {a} in an unexpected way')
                vals[a] = val.value
    if set(vals) != set(FLAGS):
        _broken(init, '__init__ does not initialise all four flags: ' + repr(sorted(vals)))
    side_conditions(ctx)
    b = lambda v: 'true' if v else 'false'  # noqa: E731
    lst = lambda xs: '[' + '; '.join(xs) + ']'  # noqa: E731
    text = ('(* GENERATED by harness/translate/c30_guard.py from ci/ci/github.py (WatchedBranch.__init__, _update, notify_github_changed,\n'
            '   notify_batch_changed, update).  Do not edit. *)\n'
            'From HailV Require Import Common.Prelude CI.Guard.\n\n'
            f'Definition init_flags : flags := mkF {b(vals["updating"])} {b(vals["github_changed"])} {b(vals["batch_changed"])} {b(vals["state_changed"])}.\n\n'
            f'Definition update_body : list stmt :=\n  {lst(body)}.\n\n'
            f'Definition prefix_notify_github_changed : list stmt := {lst(prefixes["notify_github_changed"])}.\n'
            f'Definition prefix_notify_batch_changed : list stmt := {lst(prefixes["notify_batch_changed"])}.\n'
            f'Definition prefix_update : list stmt := {lst(prefixes["update"])}.\n')
    return text, {'update_body': body, 'prefixes': prefixes, 'init': vals}


def generate(ctx):
    text, info = translate(ctx)
    ctx.write_generated('GuardGen.v', text)
    return info
