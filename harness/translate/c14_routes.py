"""C14 translator: batch/batch/front_end/front_end.py  ->  Coq route table (coq/generated/C14/Gen.v).

Fail-closed.  For every route registration it emits verb, path segments, handler name, the guard of every decorator of
the stack, and the guard that DOMINATES every database effect / successful return in the handler body (the owner
filter).  Decorators defined in front_end.py have their wrapper bodies translated to a guard; gear.auth decorators map
to named constants of Routes/Model.v whose semantics are validated against the real decorators by the correspondence.

Guard terms are Python tuples: ('GTrue',) ('GAuthActive',) ('GDev',) ('GIsAuthUser',) ('GMember',) ('GOwner',)
('GAnd', a, b) ('GOr', a, b) ('Ref', coq_name).
"""
import ast
import re

from harness.core import TieBroken

VERBS = {'get': 'GET', 'post': 'POST', 'patch': 'PATCH', 'delete': 'DELETE', 'put': 'PUT', 'head': 'HEAD'}
# imported decorators that only wrap the response / annotate the request (source checked by _check_transparent_import)
TRANSPARENT_IMPORTED = {'add_metadata_to_request': 'batch/batch/utils.py',
                        'web_security_headers': 'web_common/web_common/web_common.py',
                        'web_security_headers_swagger': 'web_common/web_common/web_common.py'}
DB_READ = {'select_and_fetchone', 'execute_and_fetchone', 'select_and_fetchall', 'execute_and_fetchall'}
DB_ANY = DB_READ | {'just_execute', 'execute_insertone', 'execute_update', 'execute_many', 'check_call_procedure'}
OWNER_COL = re.compile(r'(?<![\w.`])(?:(?:batches|job_groups)\.)?`?user`?\s*=\s*%s')
MEMBER_COL = re.compile(r'billing_project_users\.`?user_cs`?\s*=\s*%s')


def T(name, detail):
    return TieBroken('route-translator', f'{name}: {detail}')


def coq_guard(g):
    k = g[0]
    if k in ('GAnd', 'GOr'):
        return f'({k} {coq_guard(g[1])} {coq_guard(g[2])})'
    if k == 'Ref':
        return g[1]
    return k


def coq_str(s):
    if '"' in s or '\\' in s or any(ord(c) > 126 or ord(c) < 32 for c in s):
        raise T('string', f'cannot emit {s!r}')
    return '"' + s + '"'


def segs(path):
    return [p for p in path.split('/') if p != '']


class Translator:
    def __init__(self, src, read_repo):
        self.src = src
        self.read_repo = read_repo
        self.tree = ast.parse(src)
        self.funcs = {n.name: n for n in self.tree.body if isinstance(n, (ast.FunctionDef, ast.AsyncFunctionDef))}
        self.notes = []
        self.local_guards = {}      # decorator name -> guard term
        self.member_ok = None

    # ---------------------------------------------------------------------------------------- membership helper
    def member_evidence(self):
        """_user_can_access(db, batch_id, user) is one SELECT joining batches with billing_project_users, filtered on
        batches.id = batch_id and billing_project_users.user_cs = user, and returns `record is not None`."""
        if self.member_ok is not None:
            return self.member_ok
        fn = self.funcs.get('_user_can_access')
        ok, why = False, ''
        try:
            if fn is None:
                raise ValueError('not defined')
            params = [a.arg for a in fn.args.args]
            body = [s for s in fn.body if not _is_doc(s)]
            if len(params) != 3 or len(body) != 2:
                raise ValueError('unexpected shape')
            a, r = body
            call = a.value.value if isinstance(a, ast.Assign) and isinstance(a.value, ast.Await) else None
            if not (isinstance(call, ast.Call) and isinstance(call.func, ast.Attribute) and call.func.attr in DB_READ
                    and isinstance(call.func.value, ast.Name) and call.func.value.id == params[0]):
                raise ValueError('first statement is not `record = await db.select…(…)`')
            sql = _const_str(call.args[0])
            args = call.args[1]
            if sql is None or not isinstance(args, ast.Tuple):
                raise ValueError('SQL is not a literal / args not a tuple')
            ph = [m.start() for m in re.finditer('%s', sql)]
            m1 = MEMBER_COL.search(sql)
            m0 = re.search(r'(?<![\w.`])(?:batches\.)?`?id`?\s*=\s*%s', sql)
            if not (m1 and m0 and 'billing_project_users' in sql and re.search(r'FROM\s+batches', sql)):
                raise ValueError('SQL lacks the batches x billing_project_users filter')
            if re.search(r'\bOR\b', sql, re.I):
                raise ValueError('SQL contains OR')
            i1, i0 = ph.index(m1.end() - 2), ph.index(m0.end() - 2)
            names = [e.id if isinstance(e, ast.Name) else None for e in args.elts]
            if names[i1] != params[2] or names[i0] != params[1]:
                raise ValueError('placeholders are not bound to (batch_id, user)')
            tgt = a.targets[0].id
            if ast.unparse(r) != f'return {tgt} is not None':
                raise ValueError('does not return `record is not None`')
            ok = True
        except (ValueError, IndexError, AttributeError) as e:
            why = str(e)
        self.member_ok = ok
        if not ok:
            self.notes.append(f'_user_can_access gives no membership evidence: {why}')
        return ok

    # ---------------------------------------------------------------------------------------- decorators
    def decorator_guard(self, d):
        """Guard term of one (non-route) decorator expression."""
        text = ast.unparse(d)
        call = d if isinstance(d, ast.Call) else None
        f = call.func if call else d
        if isinstance(f, ast.Attribute) and isinstance(f.value, ast.Name) and f.value.id == 'auth':
            if call is None:
                raise T('decorator', f'`{text}` must be called')
            if f.attr == 'authenticated_users_only':
                return ('Ref', 'g_authenticated_users_only')
            if f.attr == 'authenticated_developers_only':
                return ('Ref', 'g_authenticated_developers_only')
            raise T('decorator', f'unknown gear.auth decorator `{text}`')
        if isinstance(f, ast.Name):
            if f.id in TRANSPARENT_IMPORTED and call is None:
                self._check_transparent_import(f.id)
                return ('GTrue',)
            if f.id in self.funcs:
                return self.local_decorator(f.id, call is not None)
        raise T('decorator', f'unknown decorator `{text}`')

    def _check_transparent_import(self, name):
        rel = TRANSPARENT_IMPORTED[name]
        src = self.read_repo(rel)
        tree = ast.parse(src)
        fns = {n.name: n for n in tree.body if isinstance(n, ast.FunctionDef)}
        fn = fns.get(name)
        if fn is None:
            raise T('decorator', f'{name} not found in {rel}')
        # either a wrapper itself or `return web_security_header_generator(fun, …)`
        last = fn.body[-1]
        if (isinstance(last, ast.Return) and isinstance(last.value, ast.Call) and isinstance(last.value.func, ast.Name)
                and last.value.func.id in fns and last.value.func.id != name):
            fn = fns[last.value.func.id]
        g = self._wrapper_guard(fn, called=False, where=f'{rel}::{fn.name}')
        if g != ('GTrue',):
            raise T('decorator', f'{name} in {rel} is no longer transparent ({coq_guard(g)})')

    def local_decorator(self, name, called):
        if name in self.local_guards:
            return ('Ref', 'g_' + name)
        g = self._wrapper_guard(self.funcs[name], called, where=name)
        self.local_guards[name] = g
        return ('Ref', 'g_' + name)

    def _wrapper_guard(self, fn, called, where):
        """`def D(fun): [@inner] @wraps(fun) async def wrapped(...): BODY; return wrapped`   (called=False)
           `def D(args): def wrap(fun): <same>; return wrap`                                  (called=True)"""
        body = [s for s in fn.body if not _is_doc(s) and not isinstance(s, ast.Expr)]
        if called:
            if not (len(body) == 2 and isinstance(body[0], ast.FunctionDef) and isinstance(body[1], ast.Return)
                    and isinstance(body[1].value, ast.Name) and body[1].value.id == body[0].name):
                raise T('decorator', f'{where}: not a decorator factory')
            fn = body[0]
            body = [s for s in fn.body if not _is_doc(s) and not isinstance(s, ast.Expr)]
        if not (len(body) == 2 and isinstance(body[0], ast.AsyncFunctionDef) and isinstance(body[1], ast.Return)
                and isinstance(body[1].value, ast.Name) and body[1].value.id == body[0].name and len(fn.args.args) >= 1):
            raise T('decorator', f'{where}: not of the form `async def wrapped…; return wrapped`')
        fun_name = fn.args.args[0].arg
        w = body[0]
        g = ('GTrue',)
        for d in w.decorator_list:
            if isinstance(d, ast.Call) and isinstance(d.func, ast.Name) and d.func.id == 'wraps':
                continue
            g = _and(g, self.decorator_guard(d))
        params = [a.arg for a in w.args.args]
        env = {}
        if len(params) >= 2:
            env[params[1]] = 'USERDATA'
        inner = self._wrapper_body_guard(w.body, fun_name, env, where)
        return _and(g, inner)

    def _wrapper_body_guard(self, stmts, fun_name, env, where):
        g = ('GTrue',)
        stmts = [s for s in stmts if not _is_doc(s)]
        i = 0
        while i < len(stmts):
            s = stmts[i]
            i += 1
            if _calls_fun(s, fun_name):
                if isinstance(s, ast.Try):
                    # try: return await fun(...)  except …: raise …      (error translation only)
                    if not all(_only_raises(h.body) for h in s.handlers):
                        raise T('decorator', f'{where}: except-handler does more than raise')
                    return g
                if isinstance(s, (ast.Return, ast.Assign)) :
                    return g
                if isinstance(s, ast.If):
                    # if COND: return await fun(...)   followed by   raise web.HTTP…
                    if (len(s.body) == 1 and isinstance(s.body[0], ast.Return) and not s.orelse and i < len(stmts)
                            and isinstance(stmts[i], ast.Raise)):
                        return _and(g, self._cond(s.test, env, where))
                raise T('decorator', f'{where}: unsupported call of the wrapped handler at line {s.lineno}')
            if isinstance(s, ast.If) and _only_raises(s.body) and not s.orelse:
                # if not COND: raise web.HTTP…
                t = s.test
                if isinstance(t, ast.UnaryOp) and isinstance(t.op, ast.Not):
                    g = _and(g, self._cond(t.operand, env, where))
                    continue
                raise T('decorator', f'{where}: `if {ast.unparse(t)}: raise` is not of the form `if not COND`')
            if isinstance(s, ast.Assign) and len(s.targets) == 1 and isinstance(s.targets[0], ast.Name):
                v, tgt = s.value, s.targets[0].id
                if isinstance(v, ast.Await):
                    c = v.value
                    if (isinstance(c, ast.Call) and isinstance(c.func, ast.Name) and c.func.id == '_user_can_access'
                            and len(c.args) == 3 and all(isinstance(a, ast.Name) for a in c.args)
                            and env.get(c.args[1].id) == 'BATCHID' and env.get(c.args[2].id) == 'USER'):
                        env[tgt] = ('GMember',) if self.member_evidence() else ('GTrue',)
                        continue
                    raise T('decorator', f'{where}: unsupported await `{ast.unparse(v)[:80]}`')
                u = ast.unparse(v)
                ud = [k for k, val in env.items() if val == 'USERDATA']
                if any(u == f"{k}['username']" for k in ud):
                    env[tgt] = 'USER'
                elif u == "int(request.match_info['batch_id'])":
                    env[tgt] = 'BATCHID'
                elif _has_await(v):
                    raise T('decorator', f'{where}: unsupported await in `{u[:80]}`')
                else:
                    env[tgt] = None
                continue
            if isinstance(s, ast.Expr) and not _has_await(s):
                continue
            if (isinstance(s, (ast.Assign, ast.AugAssign, ast.If)) and not _has_await(s)
                    and not any(isinstance(x, (ast.Raise, ast.Return)) for x in ast.walk(s))):
                continue          # request annotation without control effect
            raise T('decorator', f'{where}: unsupported statement at line {s.lineno}: `{ast.unparse(s)[:80]}`')
        raise T('decorator', f'{where}: wrapper never calls the wrapped handler')

    def _cond(self, t, env, where):
        if isinstance(t, ast.BoolOp):
            parts = [self._cond(v, env, where) for v in t.values]
            out = parts[0]
            for p in parts[1:]:
                out = ('GOr' if isinstance(t.op, ast.Or) else 'GAnd', out, p)
            return out
        if isinstance(t, ast.Name) and isinstance(env.get(t.id), tuple):
            return env[t.id]
        u = ast.unparse(t)
        for k, v in env.items():
            if v == 'USERDATA':
                if u == f"{k}['is_developer'] == 1":
                    return ('GDev',)
                if u == f"{k}['username'] == 'auth'":
                    return ('GIsAuthUser',)
        raise T('decorator', f'{where}: unsupported condition `{u}`')

    # ---------------------------------------------------------------------------------------- owner dominance
    def owner_guard(self, fn):
        """('GOwner',) iff on every path through the handler a SELECT filtered on `user = <caller>` that came back
        non-empty precedes every other database access, every call of a helper that touches the database, every
        spawned task and every non-raising exit.  Otherwise ('GTrue',) and a note saying where the analysis stopped."""
        params = [a.arg for a in fn.args.args]
        env = {}
        if len(params) >= 2:
            env[params[1]] = 'USERDATA'
        ok, why = self._dominates(fn, env, {}, 0)
        if not ok:
            self.notes.append(f'{fn.name}: no dominating owner filter: {why}')
        return ('GOwner',) if ok else ('GTrue',)

    def _dominates(self, fn, env, local_funcs, depth):
        if depth > 6:
            return False, 'helper nesting too deep'
        env = dict(env)
        local_funcs = dict(local_funcs)
        stmts = [s for s in fn.body if not _is_doc(s)]
        i = 0
        while i < len(stmts):
            s = stmts[i]
            i += 1
            where = f'{fn.name}:{s.lineno}'
            if isinstance(s, (ast.FunctionDef, ast.AsyncFunctionDef)):
                local_funcs[s.name] = (s, env)       # closure: sees the environment at call time (approximated below)
                continue
            if isinstance(s, (ast.Assert, ast.Pass)):
                if _has_await(s):
                    return False, f'{where}: await inside assert'
                continue
            if isinstance(s, ast.AnnAssign):
                s = ast.Assign(targets=[s.target], value=s.value, lineno=s.lineno) if s.value is not None else None
                if s is None:
                    continue
            if isinstance(s, ast.Assign):
                v = s.value
                tgt = s.targets[0].id if len(s.targets) == 1 and isinstance(s.targets[0], ast.Name) else None
                if not _has_await(v):
                    if _spawns(v):
                        return False, f'{where}: task spawned before the owner filter'
                    u = ast.unparse(v)
                    if tgt is not None:
                        if any(u == f"{k}['username']" for k, val in env.items() if val == 'USERDATA'):
                            env[tgt] = 'USER'
                        elif (isinstance(v, ast.Dict) and any(_const_str(k) == 'username' and isinstance(val, ast.Name)
                                                               and env.get(val.id) == 'USER' for k, val in zip(v.keys, v.values))):
                            env[tgt] = 'USERDATA'
                        else:
                            env.pop(tgt, None)
                    continue
                if not isinstance(v, ast.Await):
                    return False, f'{where}: await nested in an expression'
                r = self._await(v.value, env, local_funcs, depth, where)
                if r[0] == 'pure':
                    if tgt:
                        env.pop(tgt, None)
                    continue
                if r[0] == 'established':
                    return True, ''
                if r[0] == 'filtered-select':
                    if tgt is None or i >= len(stmts) or not isinstance(stmts[i], ast.If):
                        return False, f'{where}: owner-filtered SELECT is not followed by a test of its result'
                    nxt = stmts[i]
                    t = ast.unparse(nxt.test)
                    if t == f'not {tgt}' and _only_raises(nxt.body) and not nxt.orelse:
                        return True, ''
                    if t == tgt and not nxt.orelse:
                        i += 1          # the positive branch runs only for the owner; keep looking on the other branch
                        continue
                    return False, f'{where}: result of the owner-filtered SELECT is tested by `if {t}`'
                return False, r[1]
            if isinstance(s, ast.Expr):
                v = s.value
                if not _has_await(v):
                    if _spawns(v):
                        return False, f'{where}: task spawned before the owner filter'
                    continue
                if not isinstance(v, ast.Await):
                    return False, f'{where}: await nested in an expression'
                r = self._await(v.value, env, local_funcs, depth, where)
                if r[0] == 'pure':
                    continue
                if r[0] == 'established':
                    return True, ''
                return False, r[1] if r[0] != 'filtered-select' else f'{where}: result of the owner-filtered SELECT is discarded'
            if isinstance(s, ast.Return):
                if isinstance(s.value, ast.Await):
                    r = self._await(s.value.value, env, local_funcs, depth, where)
                    if r[0] == 'established':
                        return True, ''
                    return False, r[1] if r[0] == 'no' else f'{where}: returns before the owner filter'
                return False, f'{where}: returns before the owner filter'
            if isinstance(s, ast.If):
                if _has_await(s.test):
                    return False, f'{where}: await in a condition'
                if _deny_only(s.body) and (not s.orelse or _deny_only(s.orelse)):
                    continue
                return False, f'{where}: conditional code before the owner filter'
            if isinstance(s, ast.Try):
                if any(_has_await(b) for b in s.body) or any(not _only_raises(h.body) for h in s.handlers) or s.finalbody or s.orelse:
                    return False, f'{where}: try-block with awaits / non-raising handlers before the owner filter'
                continue
            if isinstance(s, ast.Raise):
                return True, ''        # this path ends in an error without any effect
            return False, f'{where}: unsupported statement `{type(s).__name__}` before the owner filter'
        return False, f'{fn.name}: end of body reached without an owner filter'

    def _await(self, c, env, local_funcs, depth, where):
        """Classify `await c`: ('pure',) | ('filtered-select',) | ('established',) | ('no', why)."""
        if not isinstance(c, ast.Call):
            return ('no', f'{where}: await of a non-call')
        f = c.func
        if isinstance(f, ast.Name) and f.id == 'json_request':
            return ('pure',)
        if isinstance(f, ast.Attribute) and f.attr in DB_ANY:
            if f.attr not in DB_READ:
                return ('no', f'{where}: database write `{f.attr}` before the owner filter')
            sql = _const_str(c.args[0]) if c.args else None
            if sql is None:
                return ('no', f'{where}: SQL text is not a literal')
            if not sql.strip().upper().startswith('SELECT'):
                return ('no', f'{where}: `{sql.strip()[:40]}` before the owner filter')
            m = OWNER_COL.search(sql)
            if not m or re.search(r'\bOR\b', sql, re.I):
                return ('no', f'{where}: SELECT without `user = %s` filter before the owner filter: `{" ".join(sql.split())[:70]}`')
            ph = [x.start() for x in re.finditer('%s', sql)]
            idx = ph.index(m.end() - 2)
            args = c.args[1] if len(c.args) > 1 else None
            if not (isinstance(args, ast.Tuple) and idx < len(args.elts) and isinstance(args.elts[idx], ast.Name)
                    and env.get(args.elts[idx].id) == 'USER' and len(args.elts) == len(ph)):
                return ('no', f'{where}: the `user = %s` placeholder is not bound to the caller\'s username')
            return ('filtered-select',)
        if isinstance(f, ast.Name) and (f.id in local_funcs or f.id in self.funcs):
            if f.id in local_funcs:
                callee, cenv = local_funcs[f.id]
                new_env = dict(env)                      # closure variables
                new_funcs = local_funcs
                offset = 1 if any(isinstance(d, ast.Call) and isinstance(d.func, ast.Name) and d.func.id == 'transaction'
                                  for d in callee.decorator_list) else 0   # @transaction(db) supplies `tx`
            else:
                callee, new_env, new_funcs, offset = self.funcs[f.id], {}, {}, 0
            params = [a.arg for a in callee.args.args] + [a.arg for a in callee.args.kwonlyargs]
            for k, a in enumerate(c.args):
                if k + offset < len(params) and isinstance(a, ast.Name) and env.get(a.id) in ('USER', 'USERDATA'):
                    new_env[params[k + offset]] = env[a.id]
            for kw in c.keywords:
                if kw.arg and isinstance(kw.value, ast.Name) and env.get(kw.value.id) in ('USER', 'USERDATA'):
                    new_env[kw.arg] = env[kw.value.id]
            ok, why = self._dominates(callee, new_env, new_funcs, depth + 1)
            return ('established',) if ok else ('no', why)
        return ('no', f'{where}: await of `{ast.unparse(f)}` before the owner filter')

    # ---------------------------------------------------------------------------------------- route table
    def routes(self):
        out = []
        handled_defs = set()
        for n in self.tree.body:
            if isinstance(n, (ast.FunctionDef, ast.AsyncFunctionDef)):
                regs, others = [], []
                for d in n.decorator_list:
                    r = _route_decorator(d)
                    if r is not None:
                        if others:
                            raise T('routes', f'{n.name}: route registration below another decorator')
                        regs.append(r)
                    else:
                        others.append(d)
                if not regs:
                    continue
                handled_defs.add(n.name)
                guards = [self.decorator_guard(d) for d in others]
                body = ('GTrue',)
                for verb, path in regs:
                    need_owner = '{batch_id}' in segs(path) and not any(self._mentions_member(g) for g in guards)
                    if need_owner and body == ('GTrue',):
                        body = self.owner_guard(n)
                    out.append(dict(verb=verb, path=path, name=n.name, guards=guards, body=body,
                                    decorators=[ast.unparse(d) for d in others], line=n.lineno))
        # any other use of `routes.` / app.router at module or function level
        run_nodes = {id(x) for x in ast.walk(self.funcs['run'])} if 'run' in self.funcs else set()
        for node in ast.walk(self.tree):
            if isinstance(node, ast.Call):
                u = ast.unparse(node.func)
                if u.startswith('app.') and id(node) not in run_nodes:
                    continue
                if u.startswith('routes.') and u.split('.')[1] not in VERBS:
                    raise T('routes', f'unsupported registration `{ast.unparse(node)[:80]}` (line {node.lineno})')
                if u == 'setup_common_static_routes':
                    wc = self.read_repo('web_common/web_common/web_common.py')
                    m = re.search(r"def setup_common_static_routes\(routes\):.*?routes\.static\('([^']+)'", wc, re.S)
                    if not m or ast.unparse(node.args[0]) != 'routes':
                        raise T('routes', 'setup_common_static_routes no longer registers one static directory')
                    out.append(dict(verb='STATIC', path=m.group(1), name='static', guards=[], body=('GTrue',), decorators=[], line=node.lineno))
                elif re.fullmatch(r'app\.router\.add_(\w+)', u):
                    verb = u.rsplit('_', 1)[1]
                    if verb not in VERBS or len(node.args) != 2 or _const_str(node.args[0]) is None or not isinstance(node.args[1], ast.Name):
                        raise T('routes', f'unsupported registration `{ast.unparse(node)[:80]}`')
                    h = node.args[1].id
                    if h in self.funcs:
                        raise T('routes', f'app.router registration of local handler {h} is not supported')
                    out.append(dict(verb=VERBS[verb], path=_const_str(node.args[0]), name=h, guards=[], body=('GTrue',), decorators=[], line=node.lineno))
                elif u.startswith('app.') and u not in ('app.add_routes', 'app.on_startup.append', 'app.on_cleanup.append'):
                    raise T('routes', f'unsupported application set-up call `{ast.unparse(node)[:80]}`')
                elif u == 'app.add_routes' and ast.unparse(node.args[0]) != 'routes':
                    raise T('routes', 'app.add_routes with another table')
        return out

    def _mentions_member(self, g):
        if g[0] == 'Ref' and g[1].startswith('g_') and g[1][2:] in self.local_guards:
            return self._mentions_member(self.local_guards[g[1][2:]])
        if g[0] in ('GAnd', 'GOr'):
            return self._mentions_member(g[1]) or self._mentions_member(g[2])
        return g[0] == 'GMember'

    def emit(self, rel):
        routes = self.routes()
        lines = [f'(* GENERATED by harness/translate/c14_routes.py from {rel} — do not edit *)',
                 'From Coq Require Import List String.', 'From HailV Require Import Routes.Model.', 'Import ListNotations.',
                 'Open Scope string_scope.', '']
        for note in self.notes:
            lines.append('(* NOTE ' + note.replace('*)', '* )').replace('(*', '( *') + ' *)')
        lines.append('')
        lines.append('(* decorators defined in front_end.py: guard translated from the wrapper body *)')
        for name, g in self.local_guards.items():
            lines.append(f'Definition g_{name} : guard := {coq_guard(g)}.')
        lines.append('')
        lines.append('Definition routes : list route := [')
        items = []
        for r in routes:
            path = '[' + '; '.join(coq_str(s) for s in segs(r['path'])) + ']'
            guards = '[' + '; '.join(coq_guard(g) for g in r['guards']) + ']'
            items.append(f'  mkRoute {r["verb"]} {path} {coq_str(r["name"])} {guards} {coq_guard(r["body"])}')
        lines.append(';\n'.join(items))
        lines.append('].')
        lines.append('')
        lines.append(f'Definition n_routes : nat := {len(routes)}.')
        return '\n'.join(lines) + '\n', routes


def _route_decorator(d):
    if (isinstance(d, ast.Call) and isinstance(d.func, ast.Attribute) and isinstance(d.func.value, ast.Name)
            and d.func.value.id == 'routes'):
        if d.func.attr not in VERBS:
            raise T('routes', f'unsupported route decorator `{ast.unparse(d)}`')
        if len(d.args) != 1 or _const_str(d.args[0]) is None or any(k.arg != 'name' for k in d.keywords):
            raise T('routes', f'unsupported route arguments `{ast.unparse(d)}`')
        return VERBS[d.func.attr], _const_str(d.args[0])
    return None


def _and(a, b):
    if a == ('GTrue',):
        return b
    if b == ('GTrue',):
        return a
    return ('GAnd', a, b)


def _is_doc(s):
    return isinstance(s, ast.Expr) and isinstance(s.value, ast.Constant) and isinstance(s.value.value, str)


def _const_str(n):
    return n.value if isinstance(n, ast.Constant) and isinstance(n.value, str) else None


def _has_await(n):
    return any(isinstance(x, (ast.Await, ast.AsyncFor, ast.AsyncWith)) for x in ast.walk(n))


def _spawns(n):
    return any(isinstance(x, ast.Call) and isinstance(x.func, ast.Attribute) and x.func.attr in ('ensure_future', 'create_task', 'run_in_executor')
               for x in ast.walk(n))


def _only_raises(stmts):
    """log calls / nested `if …: raise` followed by a raise: every path through the block ends in `raise`, nothing else happens"""
    if not stmts:
        return False
    for s in stmts[:-1]:
        if isinstance(s, ast.Expr) and not _has_await(s) and not _spawns(s):
            continue
        if isinstance(s, ast.If) and not _has_await(s.test) and _only_raises(s.body) and not s.orelse:
            continue
        return False
    last = stmts[-1]
    if isinstance(last, ast.Raise):
        return True
    return isinstance(last, ast.If) and not _has_await(last.test) and _only_raises(last.body) and _only_raises(last.orelse)


def _deny_only(stmts):
    return _only_raises(stmts)


def _calls_fun(s, fun_name):
    return any(isinstance(x, ast.Call) and isinstance(x.func, ast.Name) and x.func.id == fun_name for x in ast.walk(s))
