"""Fail-closed translation of CPython `re` parse trees (as produced by the IMPLEMENTATION's interpreter, see
harness/impl/regex_parse.py) into the Gallina type `HailV.Regex.Regex.re`, plus a PyToCoq extension for the handful of
`str` methods the validators use.  Part of the trusted base of C28 and C25.

The parse itself is done by CPython's own `re._parser.parse` — the very front end `re.compile` uses — so the only trusted
step here is the one-to-one mapping  op-tree -> constructor  below.  Anything not listed raises TieBroken.
"""
from __future__ import annotations

import ast
from typing import Any, List, Tuple

from harness.core import TieBroken
from harness.translate.pyast import PyToCoq, Unsupported

MAXREPEAT = 'MAXREPEAT'
SRE_FLAG_UNICODE = 32          # the only flag a plain `re.compile(str_pattern)` carries


def _fail(why: str):
    raise TieBroken('regex-translator', why)


def _set_items(items: List[Any]) -> Tuple[bool, List[Tuple[int, int]]]:
    neg = False
    out = []
    for k, it in enumerate(items):
        op, av = it[0], it[1]
        if op == 'NEGATE':
            if k != 0:
                _fail('NEGATE not first in a set')
            neg = True
        elif op == 'LITERAL':
            out.append((int(av), int(av)))
        elif op == 'RANGE':
            lo, hi = int(av[0]), int(av[1])
            out.append((lo, hi))
        else:
            _fail(f'unsupported set item {op} (categories such as \\d, \\w, \\s are outside the subset)')
    return neg, out


def _ranges(rs) -> str:
    return '[' + '; '.join(f'({lo}, {hi})' for lo, hi in rs) + ']'


def tree_to_coq(tree: List[Any]) -> str:
    """A parsed (sub)pattern = a list of items = their sequence, right-nested; [] is REps; [x] is x."""
    parts = [item_to_coq(it) for it in tree]
    if not parts:
        return 'REps'
    acc = parts[-1]
    for p in reversed(parts[:-1]):
        acc = f'(RSeq {p} {acc})'
    return acc


def item_to_coq(it: List[Any]) -> str:
    op, av = it[0], it[1]
    if op == 'LITERAL':
        return f'(RSet false [({int(av)}, {int(av)})])'
    if op == 'NOT_LITERAL':
        return f'(RSet true [({int(av)}, {int(av)})])'
    if op == 'IN':
        neg, rs = _set_items(av)
        return f'(RSet {"true" if neg else "false"} {_ranges(rs)})'
    if op == 'MAX_REPEAT':
        lo, hi, body = av
        b = tree_to_coq(body)
        if lo == 0 and hi == 1:
            return f'(ROpt {b})'
        if lo == 0 and hi == MAXREPEAT:
            return f'(RStar {b})'
        if lo == 1 and hi == MAXREPEAT:
            return f'(RPlus {b})'
        _fail(f'unsupported repeat bounds {{{lo},{hi}}}')
    if op == 'SUBPATTERN':
        group, add_flags, del_flags, body = av
        if add_flags or del_flags:
            _fail('inline flags in a group')
        b = tree_to_coq(body)
        if group is None:
            return b                          # non-capturing group that survived the parser
        return f'(RGroup {int(group)} {b})'
    if op == 'BRANCH':
        _, alts = av
        parts = [tree_to_coq(a) for a in alts]
        acc = parts[-1]
        for p in reversed(parts[:-1]):
            acc = f'(RAlt {p} {acc})'
        return acc
    if op == 'AT':
        if av == 'AT_BEGINNING':
            return 'RBol'
        if av == 'AT_END':
            return 'REol'
        if av == 'AT_END_STRING':
            return 'REos'
        if av == 'AT_BEGINNING_STRING':
            return 'RBol'                    # \A == ^ without MULTILINE
        _fail(f'unsupported anchor {av}')
    _fail(f'unsupported regex construct {op}')


def parsed_to_coq(parsed: dict) -> str:
    """`parsed` = {'tree': ..., 'flags': int} from regex_parse.py."""
    if 'error' in parsed:
        _fail(f'pattern does not compile: {parsed["error"]}')
    if parsed['flags'] != SRE_FLAG_UNICODE:
        _fail(f'pattern carries flags {parsed["flags"]} (only the default UNICODE flag of str patterns is modelled)')
    return tree_to_coq(parsed['tree'])


# ------------------------------------------------------------------------------------------------
# str-method extension of the Python -> Gallina translator

class StrPyToCoq(PyToCoq):
    """Adds: s.startswith(lit) / s.endswith(lit) / lit in s on 'str' (list N);  all(<bool expr> for c in s) with c of sort
    'char' (one code point, N);  c.isascii() / c.isdigit() / c.islower() on 'char';  c == 'x'."""

    CHAR_PRED = {'isascii': 'py_isascii', 'isdigit': 'py_isdigit', 'islower': 'py_islower'}

    def call(self, n: ast.Call):
        if n.keywords:
            raise Unsupported(n, 'keyword arguments')
        f = n.func
        if isinstance(f, ast.Attribute) and f.attr in ('startswith', 'endswith') and len(n.args) == 1:
            v, s = self.expr(f.value)
            a, sa = self.expr(n.args[0])
            if s == 'str' and sa == 'str':
                return f'(str_{f.attr} {v} {a})', 'bool'
            raise Unsupported(n, f'{f.attr} on sorts {s},{sa}')
        if isinstance(f, ast.Attribute) and f.attr in self.CHAR_PRED and not n.args:
            v, s = self.expr(f.value)
            if s == 'char':
                return f'({self.CHAR_PRED[f.attr]} {v})', 'bool'
            raise Unsupported(n, f'{f.attr} on sort {s} (only single characters are modelled)')
        if isinstance(f, ast.Name) and f.id == 'all' and len(n.args) == 1 and isinstance(n.args[0], ast.GeneratorExp):
            g = n.args[0]
            if len(g.generators) != 1 or g.generators[0].ifs or g.generators[0].is_async \
                    or not isinstance(g.generators[0].target, ast.Name):
                raise Unsupported(n, 'generator form')
            it, sit = self.expr(g.generators[0].iter)
            if sit != 'str':
                raise Unsupported(n, 'all(...) over a non-string')
            var = g.generators[0].target.id
            saved = dict(self.sorts)
            self.sorts[var] = 'char'
            body, sb = self.expr(g.elt)
            self.sorts = saved
            if sb != 'bool':
                raise Unsupported(n, f'all(...) over elements of sort {sb}')
            return f'(forallb (fun {var} => {body}) {it})', 'bool'
        return super().call(n)

    def compare_other(self, op, l, sl, r, sr, n) -> str:
        if isinstance(op, ast.In) and sl == 'str' and sr == 'str':
            return f'(str_contains {l} {r})'
        if isinstance(op, ast.Eq) and sl == 'char' and sr == 'str' and len(n.ops) == 1:
            cmp = n.comparators[0]
            if isinstance(cmp, ast.Constant) and isinstance(cmp.value, str) and len(cmp.value) == 1:
                return f'({l} =? {ord(cmp.value)})'
        raise Unsupported(n, f'comparison on sorts {sl},{sr}')
