"""C12: fail-closed translator for the resource-arithmetic helpers (batch/batch/cloud/**/resource_utils.py and
PoolConfig.convert_requests_to_resources) from Python ast to Gallina.

Sorts:  Z (Python int) | Q (a Python float that is, mathematically, the rational num/den of two integer expressions) |
        bool | optZ (Optional[int]) | tup (tuple of Z)
Float operations are translated to their EXACT rational meaning:
    a / b            -> Q(a, b)             Q(n,d) / c -> Q(n, d*c)         Q(n,d) * c -> Q(n*c, d)
    math.ceil(Q)     -> cdiv n d            int(Q)     -> Z.quot n d        int(Z) -> Z
    math.log2(Q) only inside math.ceil(math.log2(Q)) -> clog2 n d   (least p with 2^p >= n/d)
    2 ** p           -> Q(2^max(0,p), 2^max(0,-p))
The difference between float evaluation and this exact meaning is validated separately by the plug-in (exhaustively over
the finite core-count domain, at boundary points for memory) and listed as an assumption.
`cloud`-dispatching functions are specialised per cloud by constant folding before translation.
A function that can `return None` is translated to an `option`; `v = f(..)` + `if v is None: return None` becomes a bind.
"""
from __future__ import annotations

import ast
import copy
from typing import Dict, List, Optional, Tuple

from harness.core import TieBroken

NAME = 'c12-translator'


def _fail(node, why):
    ln = getattr(node, 'lineno', '?')
    try:
        txt = ast.unparse(node)[:140]
    except Exception:
        txt = type(node).__name__
    raise TieBroken(NAME, f'line {ln}: {why}: `{txt}`')


class Specialise(ast.NodeTransformer):
    """replace given names / attribute chains by constants and fold constant comparisons, ifs and asserts"""

    def __init__(self, consts: Dict[str, object]):
        self.consts = consts

    def visit_Name(self, node):
        if isinstance(node.ctx, ast.Load) and node.id in self.consts:
            return ast.copy_location(ast.Constant(self.consts[node.id]), node)
        return node

    def visit_Attribute(self, node):
        key = ast.unparse(node)
        if key in self.consts:
            return ast.copy_location(ast.Constant(self.consts[key]), node)
        return self.generic_visit(node)

    def visit_Compare(self, node):
        node = self.generic_visit(node)
        if len(node.ops) == 1 and isinstance(node.left, ast.Constant) and isinstance(node.comparators[0], ast.Constant) \
                and isinstance(node.left.value, str) and isinstance(node.comparators[0].value, str):
            if isinstance(node.ops[0], ast.Eq):
                return ast.copy_location(ast.Constant(node.left.value == node.comparators[0].value), node)
            if isinstance(node.ops[0], ast.NotEq):
                return ast.copy_location(ast.Constant(node.left.value != node.comparators[0].value), node)
        return node

    def visit_BinOp(self, node):
        node = self.generic_visit(node)
        if isinstance(node.op, ast.Pow) and isinstance(node.left, ast.Constant) and isinstance(node.right, ast.Constant) \
                and isinstance(node.left.value, int) and isinstance(node.right.value, int) and 0 <= node.right.value <= 64:
            return ast.copy_location(ast.Constant(node.left.value ** node.right.value), node)
        if isinstance(node.op, ast.Mult) and isinstance(node.left, ast.Constant) and isinstance(node.right, ast.Constant) \
                and isinstance(node.left.value, int) and isinstance(node.right.value, int) \
                and not isinstance(node.left.value, bool) and not isinstance(node.right.value, bool):
            return ast.copy_location(ast.Constant(node.left.value * node.right.value), node)
        return node

    def _fold_body(self, stmts):
        out = []
        for s in stmts:
            r = self.visit(s)
            if r is None:
                continue
            if isinstance(r, list):
                out += r
            else:
                out.append(r)
        return out

    def visit_If(self, node):
        node.test = self.visit(node.test)
        if isinstance(node.test, ast.Constant) and isinstance(node.test.value, bool):
            return self._fold_body(node.body if node.test.value else node.orelse)
        node.body = self._fold_body(node.body)
        node.orelse = self._fold_body(node.orelse)
        return node

    def visit_Assert(self, node):
        node.test = self.visit(node.test)
        if isinstance(node.test, ast.Constant) and node.test.value is True:
            return None
        return node

    def visit_FunctionDef(self, node):
        node.body = self._fold_body(node.body)
        return node


class Fn:
    def __init__(self, coq_name: str, params: List[Tuple[str, str]], ret: str, body: str, source: str):
        self.coq_name, self.params, self.ret, self.body, self.source = coq_name, params, ret, body, source

    def render(self) -> str:
        ps = ' '.join(f'({n} : {"Z" if s == "Z" else "bool"})' for n, s in self.params)
        ty = {'Z': 'Z', 'optZ': 'option Z', 'opt_tup3': 'option (Z * Z * Z)', 'bool': 'bool'}[self.ret]
        return f'(* {self.source} *)\nDefinition {self.coq_name} {ps} : {ty} :=\n{self.body}.\n'


class Translator:
    """`known` : python function name -> (coq text, [(param name, sort or None for a dropped argument)], return sort)"""

    def __init__(self, known, int_consts: Dict[str, int]):
        self.known = known
        self.int_consts = int_consts

    # ---------------------------------------------------------------- expressions: returns (text | (num, den), sort)
    def expr(self, n, env):
        if isinstance(n, ast.Constant):
            if isinstance(n.value, bool):
                return ('true' if n.value else 'false'), 'bool'
            if isinstance(n.value, int):
                return (f'({n.value})' if n.value < 0 else str(n.value)), 'Z'
            if n.value is None:
                return 'None', 'none'
            _fail(n, 'unsupported constant')
        if isinstance(n, ast.Name):
            if n.id in env:
                return env[n.id]
            if n.id in self.int_consts:
                return str(self.int_consts[n.id]), 'Z'
            _fail(n, 'unknown name')
        if isinstance(n, ast.Attribute) and ast.unparse(n) in env:
            return env[ast.unparse(n)]
        if isinstance(n, ast.UnaryOp) and isinstance(n.op, ast.USub):
            v, s = self.expr(n.operand, env)
            if s == 'Z':
                return f'(- {v})', 'Z'
            _fail(n, 'unary minus')
        if isinstance(n, ast.BinOp):
            return self.binop(n, env)
        if isinstance(n, ast.Compare) and len(n.ops) == 1:
            l, sl = self.expr(n.left, env)
            r, sr = self.expr(n.comparators[0], env)
            if sl == sr == 'Z':
                op = {ast.Lt: '<?', ast.LtE: '<=?', ast.Gt: '>?', ast.GtE: '>=?', ast.Eq: '=?'}.get(type(n.ops[0]))
                if op:
                    return f'({l} {op} {r})', 'bool'
            _fail(n, 'unsupported comparison')
        if isinstance(n, ast.BoolOp):
            parts = []
            for v in n.values:
                t, s = self.expr(v, env)
                if s != 'bool':
                    _fail(v, 'non-boolean operand')
                parts.append(t)
            return '(' + (' && ' if isinstance(n.op, ast.And) else ' || ').join(parts) + ')', 'bool'
        if isinstance(n, ast.Call):
            return self.call(n, env)
        if isinstance(n, ast.Tuple):
            parts = []
            for e in n.elts:
                t, s = self.expr(e, env)
                if s != 'Z':
                    _fail(e, 'tuple component is not an int')
                parts.append(t)
            return '(' + ', '.join(parts) + ')', f'tup{len(parts)}'
        _fail(n, 'unsupported expression')

    def binop(self, n, env):
        l, sl = self.expr(n.left, env)
        r, sr = self.expr(n.right, env)
        op = type(n.op)
        if sl == sr == 'Z':
            if op in (ast.Add, ast.Sub, ast.Mult):
                return f'({l} {"+" if op is ast.Add else "-" if op is ast.Sub else "*"} {r})', 'Z'
            if op is ast.FloorDiv:
                return f'({l} / {r})', 'Z'
            if op is ast.Div:
                return (l, r), 'Q'
            if op is ast.Pow and l == '2':
                return (f'(2 ^ (Z.max 0 {r}))', f'(2 ^ (Z.max 0 (- {r})))'), 'Q'
        if sl == 'Q' and sr == 'Z':
            if op is ast.Div:
                return (l[0], f'({l[1]} * {r})'), 'Q'
            if op is ast.Mult:
                return (f'({l[0]} * {r})', l[1]), 'Q'
        if sl == 'Z' and sr == 'Q' and op is ast.Mult:
            return (f'({l} * {r[0]})', r[1]), 'Q'
        _fail(n, f'unsupported arithmetic on sorts {sl},{sr}')

    def call(self, n, env):
        f = ast.unparse(n.func)
        if f in ('max', 'min') and len(n.args) == 2 and not n.keywords:
            a, sa = self.expr(n.args[0], env)
            b, sb = self.expr(n.args[1], env)
            if sa == sb == 'Z':
                return f'(Z.{f} {a} {b})', 'Z'
            _fail(n, 'max/min on non-ints')
        if f == 'int' and len(n.args) == 1:
            a, sa = self.expr(n.args[0], env)
            if sa == 'Z':
                return a, 'Z'
            if sa == 'Q':
                return f'(Z.quot {a[0]} {a[1]})', 'Z'
        if f == 'math.ceil' and len(n.args) == 1:
            inner = n.args[0]
            if isinstance(inner, ast.Call) and ast.unparse(inner.func) == 'math.log2' and len(inner.args) == 1:
                a, sa = self.expr(inner.args[0], env)
                if sa == 'Q':
                    return f'(clog2 {a[0]} {a[1]})', 'Z'
                _fail(n, 'log2 of a non-quotient')
            a, sa = self.expr(inner, env)
            if sa == 'Q':
                return f'(cdiv {a[0]} {a[1]})', 'Z'
            if sa == 'Z':
                return a, 'Z'
        if f in self.known:
            coq, plist, ret = self.known[f]
            pnames = [p for p, _ in plist]
            psorts = [q for _, q in plist]
            args = list(n.args)
            for k in n.keywords:
                if k.arg not in pnames or pnames.index(k.arg) != len(args):
                    _fail(n, 'keyword argument out of order')
                args.append(k.value)
            if len(args) != len(psorts):
                _fail(n, 'arity of known function')
            out = []
            for a, ps in zip(args, psorts):
                if ps is None:
                    continue
                t, s = self.expr(a, env)
                if s != ps:
                    _fail(a, f'argument sort {s}, expected {ps}')
                out.append(t)
            return '(' + ' '.join([coq] + out) + ')', ret
        _fail(n, 'unsupported call')

    # ---------------------------------------------------------------- statements
    def block(self, stmts, env, ret_sort):
        if not stmts:
            _fail(ast.Pass(), 'function body falls off the end')
        s, rest = stmts[0], stmts[1:]
        if isinstance(s, ast.Expr) and isinstance(s.value, ast.Constant):
            return self.block(rest, env, ret_sort)
        if isinstance(s, ast.Assign) and len(s.targets) == 1 and isinstance(s.targets[0], ast.Name):
            t = s.targets[0].id
            v, sort = self.expr(s.value, env)
            env = dict(env)
            if sort == 'Q':
                # a float-valued local: kept symbolically as the exact quotient
                env[t] = (v, 'Q')
                return self.block(rest, env, ret_sort)
            if sort == 'optZ':
                # must be followed by `if t is None: return None`
                if rest and isinstance(rest[0], ast.If) and ast.unparse(rest[0].test) == f'{t} is None' and not rest[0].orelse \
                        and len(rest[0].body) == 1 and ast.unparse(rest[0].body[0]) == 'return None':
                    env[t] = (t, 'Z')
                    return f'  match {v} with\n  | None => None\n  | Some {t} =>\n{self.block(rest[1:], env, ret_sort)}\n  end'
                _fail(s, 'optional result not followed by `if x is None: return None`')
            if sort in ('Z', 'bool'):
                env[t] = (t, sort)
                return f'  let {t} := {v} in\n{self.block(rest, env, ret_sort)}'
            _fail(s, f'unsupported assignment of sort {sort}')
        if isinstance(s, ast.If):
            c, cs = self.expr(s.test, env)
            if cs != 'bool':
                _fail(s.test, 'non-boolean condition')
            if s.orelse:
                a = self.block(s.body + rest, env, ret_sort) if not self._returns(s.body) else self.block(s.body, env, ret_sort)
                b = self.block(s.orelse + rest, env, ret_sort) if not self._returns(s.orelse) else self.block(s.orelse, env, ret_sort)
                return f'  if {c} then (\n{a}\n  ) else (\n{b}\n  )'
            if self._returns(s.body):
                return f'  if {c} then (\n{self.block(s.body, env, ret_sort)}\n  ) else (\n{self.block(rest, env, ret_sort)}\n  )'
            _fail(s, 'if without else whose body does not return')
        if isinstance(s, ast.Return):
            if rest:
                _fail(rest[0], 'code after return')
            if s.value is None or (isinstance(s.value, ast.Constant) and s.value.value is None):
                if not ret_sort.startswith('opt'):
                    _fail(s, 'return None in a total function')
                return '  None'
            v, sort = self.expr(s.value, env)
            want = {'optZ': 'Z', 'opt_tup3': 'tup3'}.get(ret_sort, ret_sort)
            if sort == 'optZ' and ret_sort == 'optZ':
                return f'  {v}'
            if sort != want:
                _fail(s, f'returns sort {sort}, expected {want}')
            return f'  Some {v}' if ret_sort.startswith('opt') else f'  {v}'
        if isinstance(s, ast.Assert):
            _fail(s, 'assertion not discharged by specialisation')
        _fail(s, 'unsupported statement')

    def _returns(self, stmts):
        return bool(stmts) and isinstance(stmts[-1], ast.Return)

    def function(self, fn: ast.FunctionDef, coq_name: str, params: List[Tuple[str, Optional[str]]], ret_sort: str,
                 consts: Dict[str, object], source: str, pre_env: Optional[Dict[str, Tuple[object, str]]] = None) -> Fn:
        """params: (python parameter name, sort or None when specialised away)"""
        fn = copy.deepcopy(fn)
        fn = Specialise(consts).visit(fn)
        ast.fix_missing_locations(fn)
        env = dict(pre_env or {})
        for p, s in params:
            if s is not None:
                env[p] = (p, s)
        body = self.block(fn.body, env, ret_sort)
        return Fn(coq_name, [(p, s) for p, s in params if s is not None], ret_sort, body, source)


def find_def(tree: ast.Module, qual: str) -> ast.FunctionDef:
    node = tree
    for part in qual.split('.'):
        for ch in ast.iter_child_nodes(node):
            if isinstance(ch, (ast.FunctionDef, ast.ClassDef)) and ch.name == part:
                node = ch
                break
        else:
            raise TieBroken(NAME, f'{qual} not found')
    if not isinstance(node, ast.FunctionDef):
        raise TieBroken(NAME, f'{qual} is not a function')
    return node


def int_constants(tree: ast.Module) -> Dict[str, int]:
    out = {}
    for s in tree.body:
        if isinstance(s, ast.Assign) and len(s.targets) == 1 and isinstance(s.targets[0], ast.Name):
            try:
                v = eval(compile(ast.Expression(s.value), '<const>', 'eval'), {'__builtins__': {}}, dict(out))
            except Exception:
                continue
            if isinstance(v, int) and not isinstance(v, bool):
                out[s.targets[0].id] = v
    return out
