"""Value semantics: SQL NULL = None, booleans are the integers 0/1, three-valued logic, MySQL comparison/coercion rules
(for the types the batch schema uses: integers, doubles, strings with case-insensitive default collation, dates)."""
import datetime
import math
import re

from .errors import (ER_BAD_NULL, ER_DATA_TOO_LONG, ER_TRUNCATED_WRONG_VALUE, ER_WARN_DATA_OUT_OF_RANGE, MySQLError,
                     Unsupported)

_NUM_PREFIX = re.compile(r'\s*[-+]?(\d+\.?\d*([eE][-+]?\d+)?|\.\d+([eE][-+]?\d+)?)')
_INT_FULL = re.compile(r'\s*[-+]?\d+\s*\Z')
_NUM_FULL = re.compile(r'\s*[-+]?(\d+\.?\d*([eE][-+]?\d+)?|\.\d+([eE][-+]?\d+)?)\s*\Z')
_DATE_RE = re.compile(r'^(\d{4})-(\d{1,2})-(\d{1,2})$')


def str_to_num(s):
    """MySQL string -> number in numeric context: longest numeric prefix, else 0 (a warning in MySQL)."""
    m = _NUM_PREFIX.match(s)
    if not m:
        return 0
    txt = m.group(0).strip()
    try:
        if re.fullmatch(r'[-+]?\d+', txt):
            return int(txt)
        return float(txt)
    except ValueError:
        return 0


def to_num(v):
    if v is None:
        return None
    c = v.__class__
    if c is int or c is float:
        return v
    if c is bool:
        return int(v)
    if c is str:
        return str_to_num(v)
    if c is datetime.date:
        return v.year * 10000 + v.month * 100 + v.day
    raise Unsupported(f'numeric context for {c.__name__}')


def truth(v):
    """SQL truth value of v: None (unknown), True or False."""
    if v is None:
        return None
    c = v.__class__
    if c is int:
        return v != 0
    if c is str:
        return str_to_num(v) != 0
    if c is float:
        return v != 0.0
    if c is bool:
        return v
    return to_num(v) != 0


def parse_date(s):
    m = _DATE_RE.match(s.strip())
    if not m:
        return None
    try:
        return datetime.date(int(m.group(1)), int(m.group(2)), int(m.group(3)))
    except ValueError:
        return None


def compare(a, b, cs=False):
    """Three-way compare of two non-NULL values under MySQL rules; returns -1/0/1."""
    ca = a.__class__
    cb = b.__class__
    if ca is bool:
        a = int(a)
        ca = int
    if cb is bool:
        b = int(b)
        cb = int
    if ca is cb or (ca in (int, float) and cb in (int, float)):
        if ca is str and not cs:
            a = a.casefold()
            b = b.casefold()
        return -1 if a < b else (1 if a > b else 0)
    if ca is datetime.date or cb is datetime.date:
        if ca is str:
            a = parse_date(a)
            if a is None:
                raise Unsupported('comparison of DATE with a non-date string')
        elif cb is str:
            b = parse_date(b)
            if b is None:
                raise Unsupported('comparison of DATE with a non-date string')
        else:
            raise Unsupported('comparison of DATE with a number')
        return -1 if a < b else (1 if a > b else 0)
    # number vs string: compare as doubles
    a = float(to_num(a))
    b = float(to_num(b))
    return -1 if a < b else (1 if a > b else 0)


def sort_key(v):
    """Key for ORDER BY / GROUP BY normalisation (NULL first)."""
    if v is None:
        return (0, 0)
    c = v.__class__
    if c is str:
        return (2, v.casefold())
    if c is datetime.date:
        return (3, v)
    if c is bool:
        return (1, int(v))
    return (1, v)


def group_key(v):
    if v.__class__ is str:
        return v.casefold()
    if v.__class__ is bool:
        return int(v)
    if v.__class__ is float and v == int(v):
        return int(v)
    return v


class Fallback:
    """Sentinel: an index probe whose comparison semantics are not plain equality on the column type -> scan."""


FALLBACK = Fallback()
NOMATCH = Fallback()


def probe_key(ty, v):
    """Normalise probe value v for a hash index on a column of SqlType ty. Returns a hashable, NOMATCH or FALLBACK."""
    if v is None:
        return NOMATCH
    k = ty.kind
    c = v.__class__
    if c is bool:
        v = int(v)
        c = int
    if k == 'int':
        if c is int:
            return v
        if c is float:
            return int(v) if v == int(v) else NOMATCH
        if c is str:
            n = str_to_num(v)
            if n.__class__ is float:
                return int(n) if n == int(n) else NOMATCH
            return n
        return FALLBACK
    if k == 'str' or k == 'enum':
        if c is str:
            return v if ty.cs else v.casefold()
        return FALLBACK
    if k == 'date':
        if c is datetime.date:
            return v
        if c is str:
            d = parse_date(v)
            return d if d is not None else FALLBACK
        return FALLBACK
    return FALLBACK


def stored_key(ty, v):
    """Normalise a stored (already coerced) column value for hash indexes / unique keys."""
    if v.__class__ is str and not ty.cs:
        return v.casefold()
    return v


def coerce(ty, v, what='value', strict=True):
    """Coerce v for storage in a column / variable of SqlType ty (strict sql_mode)."""
    if v is None:
        return None
    k = ty.kind
    c = v.__class__
    if k == 'int':
        if c is bool:
            v = int(v)
        elif c is int:
            pass
        elif c is float:
            if math.isnan(v) or math.isinf(v):
                raise MySQLError(ER_WARN_DATA_OUT_OF_RANGE, f'Out of range value for {what}', '22003')
            v = int(math.floor(v + 0.5)) if v >= 0 else -int(math.floor(-v + 0.5))
        elif c is str:
            if _INT_FULL.match(v):
                v = int(v)
            elif _NUM_FULL.match(v):
                f = float(v)
                v = int(math.floor(f + 0.5)) if f >= 0 else -int(math.floor(-f + 0.5))
            else:
                raise MySQLError(ER_TRUNCATED_WRONG_VALUE, f"Incorrect integer value: '{v}' for {what}", 'HY000')
        else:
            raise Unsupported(f'coercion of {c.__name__} to integer')
        if v < ty.lo or v > ty.hi:
            raise MySQLError(ER_WARN_DATA_OUT_OF_RANGE, f'Out of range value for {what}', '22003')
        return v
    if k == 'str':
        if c is str:
            s = v
        elif c is bool:
            s = str(int(v))
        elif c is int:
            s = str(v)
        elif c is float:
            s = repr(v)
        elif c is datetime.date:
            s = v.isoformat()
        else:
            raise Unsupported(f'coercion of {c.__name__} to string')
        if ty.maxlen is not None and len(s) > ty.maxlen:
            raise MySQLError(ER_DATA_TOO_LONG, f"Data too long for {what}", '22001')
        return s
    if k == 'enum':
        if c is str:
            for e in ty.values:
                if e.casefold() == v.casefold():
                    return e
            raise MySQLError(1265, f"Data truncated for {what}", '01000')
        raise Unsupported('numeric value for ENUM')
    if k == 'double' or k == 'decimal':
        if c is str:
            if not _NUM_FULL.match(v):
                raise MySQLError(ER_TRUNCATED_WRONG_VALUE, f"Incorrect value: '{v}' for {what}", 'HY000')
            return float(v)
        if c in (int, float, bool):
            return float(v) if k == 'double' else v
        raise Unsupported(f'coercion of {c.__name__} to double')
    if k == 'date':
        if c is datetime.date:
            return v
        if c is str:
            d = parse_date(v)
            if d is None:
                raise MySQLError(1292, f"Incorrect date value: '{v}' for {what}", '22007')
            return d
        raise Unsupported(f'coercion of {c.__name__} to DATE')
    if k == 'datetime':
        raise Unsupported('DATETIME/TIMESTAMP values')
    raise Unsupported(f'type {ty.name}')


def not_null_error(col):
    return MySQLError(ER_BAD_NULL, f"Column '{col}' cannot be null", '23000')
