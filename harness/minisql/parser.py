"""Recursive-descent parser for the MySQL subset used by the batch service.  Fail closed (Unsupported)."""
from . import ast as A
from .errors import Unsupported
from .lexer import EOF, NUM, OP, PARAM, QIDENT, STR, UVAR, WORD, tokenize

# words that can never be a bare identifier / alias in the positions where we look for one
RESERVED = {
    'SELECT', 'FROM', 'WHERE', 'GROUP', 'ORDER', 'HAVING', 'LIMIT', 'JOIN', 'INNER', 'LEFT', 'RIGHT', 'CROSS', 'ON', 'AND', 'OR',
    'XOR', 'NOT', 'IN', 'IS', 'NULL', 'TRUE', 'FALSE', 'AS', 'INTO', 'FOR', 'LOCK', 'UNION', 'THEN', 'ELSE', 'ELSEIF', 'END', 'WHEN',
    'CASE', 'EXISTS', 'SET', 'VALUES', 'BY', 'ASC', 'DESC', 'STRAIGHT_JOIN', 'LATERAL', 'USING', 'FORCE', 'USE', 'IGNORE', 'DO',
    'INSERT', 'UPDATE', 'DELETE', 'CALL', 'DECLARE', 'IF', 'LOOP', 'LEAVE', 'OPEN', 'FETCH', 'CLOSE', 'SIGNAL', 'RETURN', 'BEGIN',
    'DISTINCT', 'LIKE', 'BETWEEN', 'DIV', 'MOD', 'NATURAL', 'OUTER', 'WHILE', 'REPEAT', 'ITERATE', 'INTERVAL', 'BINARY', 'COLLATE',
    'DUPLICATE', 'WITH', 'WINDOW', 'OVER', 'PARTITION', 'REGEXP', 'RLIKE', 'OFFSET', 'PROCEDURE', 'FUNCTION', 'TRIGGER', 'CREATE',
    'DROP', 'ALTER', 'TABLE', 'INDEX', 'KEY', 'PRIMARY', 'UNIQUE', 'FOREIGN', 'REFERENCES', 'CONSTRAINT', 'DEFAULT', 'START',
    'COMMIT', 'ROLLBACK', 'EACH', 'ROW', 'SHARE', 'MODE',
}
# reserved words that the schema nevertheless uses as *unquoted* column names after a dot or in contexts we know
AGGREGATES = {'SUM', 'COUNT', 'MAX', 'MIN', 'JSON_OBJECTAGG', 'AVG', 'GROUP_CONCAT', 'JSON_ARRAYAGG', 'BIT_OR', 'BIT_AND'}


class SqlType:
    __slots__ = ('kind', 'lo', 'hi', 'maxlen', 'values', 'cs', 'name')

    def __init__(self, kind, lo=None, hi=None, maxlen=None, values=None, cs=False, name=''):
        self.kind = kind      # 'int' | 'double' | 'str' | 'date' | 'enum' | 'decimal'
        self.lo = lo
        self.hi = hi
        self.maxlen = maxlen
        self.values = values
        self.cs = cs
        self.name = name

    def __repr__(self):
        return f'SqlType({self.name})'


_INT_RANGES = {
    'TINYINT': (-128, 127), 'BOOLEAN': (-128, 127), 'BOOL': (-128, 127), 'SMALLINT': (-32768, 32767),
    'MEDIUMINT': (-8388608, 8388607), 'INT': (-2 ** 31, 2 ** 31 - 1), 'INTEGER': (-2 ** 31, 2 ** 31 - 1),
    'BIGINT': (-2 ** 63, 2 ** 63 - 1), 'SIGNED': (-2 ** 63, 2 ** 63 - 1),
}
_TEXT_LENS = {'TINYTEXT': 255, 'TEXT': 65535, 'MEDIUMTEXT': 2 ** 24 - 1, 'LONGTEXT': 2 ** 32 - 1}


class Parser:
    def __init__(self, sql, with_params=False):
        self.sql = sql
        self.toks, self.nparams = tokenize(sql, with_params)
        self.i = 0

    # ---- token helpers -------------------------------------------------------------------------
    @property
    def t(self):
        return self.toks[self.i]

    def peek(self, k=1):
        j = self.i + k
        return self.toks[j] if j < len(self.toks) else self.toks[-1]

    def fail(self, what):
        t = self.t
        ctx = self.sql[max(0, t.start - 40):t.end + 40].replace('\n', ' ')
        raise Unsupported(f'{what} at token {t.val!r} near: ...{ctx}...')

    def is_kw(self, *kws):
        t = self.t
        return t.kind == WORD and t.up in kws

    def is_kw_at(self, k, *kws):
        t = self.peek(k)
        return t.kind == WORD and t.up in kws

    def accept_kw(self, *kws):
        if self.is_kw(*kws):
            t = self.t
            self.i += 1
            return t.up
        return None

    def expect_kw(self, *kws):
        r = self.accept_kw(*kws)
        if r is None:
            self.fail(f'expected {"/".join(kws)}')
        return r

    def is_op(self, *ops):
        t = self.t
        return t.kind == OP and t.val in ops

    def accept_op(self, *ops):
        if self.is_op(*ops):
            v = self.t.val
            self.i += 1
            return v
        return None

    def expect_op(self, op):
        if not self.accept_op(op):
            self.fail(f'expected {op!r}')

    def ident(self, what='identifier', allow_reserved=False):
        t = self.t
        if t.kind == QIDENT:
            self.i += 1
            return t.val
        if t.kind == WORD and (allow_reserved or t.up not in RESERVED):
            self.i += 1
            return t.val
        self.fail(f'expected {what}')

    def at_end(self):
        return self.t.kind == EOF

    # ---- types -------------------------------------------------------------------------------
    def parse_type(self):
        t = self.t
        if t.kind != WORD:
            self.fail('expected type')
        u = t.up
        self.i += 1
        if u in _INT_RANGES:
            lo, hi = _INT_RANGES[u]
            if self.accept_op('('):
                self._num()
                self.expect_op(')')
            if u == 'SIGNED':
                self.accept_kw('INTEGER', 'INT')
            if self.accept_kw('UNSIGNED'):
                lo, hi = 0, hi - lo
            self.accept_kw('SIGNED')
            self.accept_kw('ZEROFILL')
            return SqlType('int', lo, hi, name=u)
        if u == 'UNSIGNED':
            self.accept_kw('INTEGER', 'INT')
            return SqlType('int', 0, 2 ** 64 - 1, name=u)
        if u in ('VARCHAR', 'CHAR'):
            n = 1
            if self.accept_op('('):
                n = self._num()
                self.expect_op(')')
            ty = SqlType('str', maxlen=n, name=f'{u}({n})')
            self._charset(ty)
            return ty
        if u in _TEXT_LENS:
            ty = SqlType('str', maxlen=_TEXT_LENS[u], name=u)
            self._charset(ty)
            return ty
        if u in ('DOUBLE', 'FLOAT', 'REAL'):
            self.accept_kw('PRECISION')
            if self.accept_op('('):
                self._num()
                if self.accept_op(','):
                    self._num()
                self.expect_op(')')
            return SqlType('double', name=u)
        if u in ('DECIMAL', 'NUMERIC'):
            if self.accept_op('('):
                self._num()
                if self.accept_op(','):
                    self._num()
                self.expect_op(')')
            return SqlType('decimal', name=u)
        if u == 'DATE':
            return SqlType('date', name=u)
        if u in ('TIMESTAMP', 'DATETIME'):
            if self.accept_op('('):
                self._num()
                self.expect_op(')')
            return SqlType('datetime', name=u)
        if u == 'ENUM':
            self.expect_op('(')
            vals = []
            while True:
                if self.t.kind != STR:
                    self.fail('enum value')
                vals.append(self.t.val)
                self.i += 1
                if not self.accept_op(','):
                    break
            self.expect_op(')')
            ty = SqlType('enum', values=vals, name='ENUM')
            self._charset(ty)
            return ty
        if u == 'JSON':
            return SqlType('str', maxlen=2 ** 30, name='JSON')
        self.i -= 1
        self.fail('unsupported type')

    def _charset(self, ty):
        while True:
            if self.accept_kw('CHARACTER'):
                self.expect_kw('SET')
                self.ident(allow_reserved=True)
            elif self.accept_kw('CHARSET'):
                self.ident(allow_reserved=True)
            elif self.is_kw('COLLATE'):
                self.i += 1
                c = self.ident(allow_reserved=True)
                ty.cs = c.lower().endswith('_cs') or c.lower().endswith('_bin')
            else:
                return

    def _num(self):
        t = self.t
        if t.kind != NUM:
            self.fail('expected number')
        self.i += 1
        return t.val

    # ---- expressions ---------------------------------------------------------------------------
    def parse_expr(self):
        return self.p_assign()

    def p_assign(self):
        # @x := expr  (lowest precedence, right associative)
        if self.t.kind == UVAR and self.peek().kind == OP and self.peek().val == ':=':
            name = self.t.val
            self.i += 2
            return A.Assign(name, self.p_assign())
        return self.p_or()

    def p_or(self):
        e = self.p_xor()
        while True:
            if self.accept_kw('OR') or self.accept_op('||'):
                e = A.Binary('OR', e, self.p_xor())
            else:
                return e

    def p_xor(self):
        e = self.p_and()
        while self.accept_kw('XOR'):
            e = A.Binary('XOR', e, self.p_and())
        return e

    def p_and(self):
        e = self.p_not()
        while True:
            if self.accept_kw('AND') or self.accept_op('&&'):
                e = A.Binary('AND', e, self.p_not())
            else:
                return e

    def p_not(self):
        if self.accept_kw('NOT'):
            return A.Unary('NOT', self.p_not())
        return self.p_cmp()

    def p_cmp(self):
        e = self.p_bitor()
        while True:
            t = self.t
            if t.kind == OP and t.val in ('=', '<=>', '>=', '>', '<=', '<', '<>', '!='):
                self.i += 1
                op = '!=' if t.val == '<>' else t.val
                if self.is_kw('ALL', 'ANY', 'SOME'):
                    self.fail('quantified comparison')
                e = A.Binary(op, e, self.p_bitor())
                continue
            if t.kind == WORD and t.up == 'IS':
                self.i += 1
                neg = bool(self.accept_kw('NOT'))
                if self.accept_kw('NULL'):
                    e = A.IsNull(e, neg)
                elif self.accept_kw('TRUE'):
                    e = A.IsBool(e, True, neg)
                elif self.accept_kw('FALSE'):
                    e = A.IsBool(e, False, neg)
                else:
                    self.fail('IS what?')
                continue
            neg = False
            if t.kind == WORD and t.up == 'NOT' and self.is_kw_at(1, 'IN', 'LIKE', 'BETWEEN'):
                self.i += 1
                neg = True
                t = self.t
            if t.kind == WORD and t.up == 'IN':
                self.i += 1
                self.expect_op('(')
                if self.is_kw('SELECT'):
                    sel = self.parse_select()
                    self.expect_op(')')
                    e = A.InSub(e, sel, neg)
                else:
                    items = [self.parse_expr()]
                    while self.accept_op(','):
                        items.append(self.parse_expr())
                    self.expect_op(')')
                    e = A.InList(e, items, neg)
                continue
            if t.kind == WORD and t.up == 'LIKE':
                self.i += 1
                pat = self.p_bitor()
                if self.is_kw('ESCAPE'):
                    self.fail('LIKE ... ESCAPE')
                e = A.Like(e, pat, neg)
                continue
            if t.kind == WORD and t.up == 'BETWEEN':
                self.i += 1
                lo = self.p_bitor()
                self.expect_kw('AND')
                hi = self.p_bitor()
                e = A.Between(e, lo, hi, neg)
                continue
            if t.kind == WORD and t.up in ('REGEXP', 'RLIKE', 'SOUNDS', 'MEMBER'):
                self.fail('unsupported predicate')
            return e

    def p_bitor(self):
        e = self.p_add()
        if self.is_op('|', '&', '<<', '>>'):
            self.fail('bit operators')
        return e

    def p_add(self):
        e = self.p_mul()
        while True:
            op = self.accept_op('+', '-')
            if not op:
                return e
            if self.is_kw('INTERVAL'):
                self.fail('INTERVAL arithmetic')
            e = A.Binary(op, e, self.p_mul())

    def p_mul(self):
        e = self.p_unary()
        while True:
            op = self.accept_op('*', '/', '%')
            if not op:
                kw = self.accept_kw('DIV', 'MOD')
                if not kw:
                    return e
                op = kw
            if op == '%':
                op = 'MOD'
            e = A.Binary(op, e, self.p_unary())

    def p_unary(self):
        if self.is_op('^'):
            self.fail('^ operator')
        if self.accept_op('-'):
            return A.Unary('-', self.p_unary())
        if self.accept_op('+'):
            return self.p_unary()
        if self.accept_op('!'):
            return A.Unary('NOT', self.p_unary())
        if self.is_op('~'):
            self.fail('~ operator')
        if self.is_kw('BINARY'):
            self.fail('BINARY operator')
        e = self.p_primary()
        if self.is_kw('COLLATE'):
            self.fail('COLLATE in expression')
        return e

    def p_primary(self):
        t = self.t
        k = t.kind
        if k == NUM:
            self.i += 1
            return A.Lit(t.val)
        if k == STR:
            self.i += 1
            v = t.val
            # adjacent string literals concatenate
            while self.t.kind == STR:
                v += self.t.val
                self.i += 1
            return A.Lit(v)
        if k == PARAM:
            self.i += 1
            return A.Param(t.val)
        if k == UVAR:
            self.i += 1
            return A.UserVar(t.val)
        if k == OP and t.val == '(':
            self.i += 1
            if self.is_kw('SELECT'):
                sel = self.parse_select()
                self.expect_op(')')
                return A.Subquery(sel)
            e = self.parse_expr()
            if self.is_op(','):
                self.fail('row constructor')
            self.expect_op(')')
            return e
        if k == OP and t.val == '*':
            self.i += 1
            return A.Star(None)
        if k == QIDENT:
            return self._ident_chain()
        if k == WORD:
            u = t.up
            if u == 'NULL':
                self.i += 1
                return A.Lit(None)
            if u == 'TRUE':
                self.i += 1
                return A.Lit(1)
            if u == 'FALSE':
                self.i += 1
                return A.Lit(0)
            if u == 'EXISTS':
                self.i += 1
                self.expect_op('(')
                sel = self.parse_select()
                self.expect_op(')')
                return A.Exists(sel)
            if u == 'CASE':
                return self._case()
            if u == 'CAST':
                self.i += 1
                self.expect_op('(')
                e = self.parse_expr()
                self.expect_kw('AS')
                ty = self.parse_type()
                self.expect_op(')')
                return A.Cast(e, ty)
            if u == 'VALUES' and self.peek().kind == OP and self.peek().val == '(':
                self.i += 2
                c = self.ident('column', allow_reserved=True)
                self.expect_op(')')
                return A.ValuesRef(c)
            if u in ('INTERVAL', 'CONVERT', 'MATCH', 'ROW', 'DEFAULT'):
                self.fail(f'{u} expression')
            nxt = self.peek()
            if nxt.kind == OP and nxt.val == '(':
                return self._func()
            if u in ('CURRENT_TIMESTAMP', 'CURRENT_DATE', 'UTC_DATE', 'UTC_TIMESTAMP', 'NOW') and not (nxt.kind == OP and nxt.val == '.'):
                self.i += 1
                return A.Func(u, [], False, False)
            if u in RESERVED and u not in ('IF', 'KEY', 'ROW', 'MODE', 'SHARE', 'INDEX', 'DEFAULT', 'START', 'COMMIT', 'ROLLBACK', 'USE', 'IGNORE', 'FORCE', 'DO', 'LEFT', 'RIGHT'):
                self.fail('unexpected keyword in expression')
            return self._ident_chain()
        self.fail('unexpected token in expression')

    def _ident_chain(self):
        # name | tbl.name | tbl.* | db.tbl.name (unsupported)
        t = self.t
        first = t.val
        self.i += 1
        if self.is_op('.'):
            self.i += 1
            if self.accept_op('*'):
                return A.Star(first)
            t2 = self.t
            if t2.kind not in (WORD, QIDENT):
                self.fail('expected column after dot')
            self.i += 1
            if self.is_op('.'):
                self.fail('db.table.column reference')
            return A.Col(first, t2.val)
        return A.Col(None, first)

    def _case(self):
        self.expect_kw('CASE')
        operand = None
        if not self.is_kw('WHEN'):
            operand = self.parse_expr()
        whens = []
        while self.accept_kw('WHEN'):
            c = self.parse_expr()
            self.expect_kw('THEN')
            v = self.parse_expr()
            whens.append((c, v))
        else_ = None
        if self.accept_kw('ELSE'):
            else_ = self.parse_expr()
        self.expect_kw('END')
        if not whens:
            self.fail('CASE without WHEN')
        return A.Case(operand, whens, else_)

    def _func(self):
        name = self.t.up
        self.i += 1
        self.expect_op('(')
        distinct = False
        star = False
        args = []
        if name in AGGREGATES and self.accept_kw('DISTINCT'):
            distinct = True
        if name == 'COUNT' and self.is_op('*'):
            self.i += 1
            star = True
        elif not self.is_op(')'):
            args.append(self.parse_expr())
            while self.accept_op(','):
                args.append(self.parse_expr())
            if self.is_kw('ORDER', 'SEPARATOR', 'USING', 'AS'):
                self.fail(f'{name}(... modifiers)')
        self.expect_op(')')
        if self.is_kw('OVER'):
            self.fail('window functions')
        return A.Func(name, args, distinct, star)

    # ---- SELECT --------------------------------------------------------------------------------
    def parse_select(self):
        self.expect_kw('SELECT')
        distinct = False
        while True:
            if self.accept_kw('DISTINCT'):
                distinct = True
            elif self.accept_kw('ALL'):
                pass
            elif self.is_kw('SQL_CALC_FOUND_ROWS', 'HIGH_PRIORITY', 'SQL_NO_CACHE', 'STRAIGHT_JOIN', 'DISTINCTROW'):
                self.fail('select modifier')
            else:
                break
        items = []
        while True:
            start = self.t.start
            e = self.parse_expr()
            end = self.toks[self.i - 1].end
            alias = None
            if self.accept_kw('AS'):
                if self.t.kind == STR:
                    alias = self.t.val
                    self.i += 1
                else:
                    alias = self.ident('alias', allow_reserved=True)
            elif self.t.kind == QIDENT or (self.t.kind == WORD and self.t.up not in RESERVED):
                alias = self.ident('alias')
            items.append(A.SelectItem(e, alias, self.sql[start:end]))
            if not self.accept_op(','):
                break
        into = None
        if self.is_kw('INTO'):
            into = self._into()
        from_ = None
        where = None
        group_by = []
        having = None
        order_by = []
        limit = None
        offset = None
        if self.accept_kw('FROM'):
            from_ = self.parse_from()
        if self.accept_kw('WHERE'):
            where = self.parse_expr()
        if self.accept_kw('GROUP'):
            self.expect_kw('BY')
            group_by.append(self.parse_expr())
            while self.accept_op(','):
                group_by.append(self.parse_expr())
            if self.is_kw('WITH'):
                self.fail('WITH ROLLUP')
        if self.accept_kw('HAVING'):
            having = self.parse_expr()
        if self.is_kw('WINDOW'):
            self.fail('WINDOW clause')
        if self.accept_kw('ORDER'):
            self.expect_kw('BY')
            order_by = self._order_list()
        if self.accept_kw('LIMIT'):
            limit = self._limit_val()
            if self.accept_op(','):
                offset = limit
                limit = self._limit_val()
            elif self.accept_kw('OFFSET'):
                offset = self._limit_val()
        lock = None
        while True:
            if self.is_kw('INTO'):
                if into is not None:
                    self.fail('two INTO clauses')
                into = self._into()
            else:
                mode = self._locking()
                if not mode:
                    break
                if mode == 'update' or lock is None:
                    lock = mode
        if self.is_kw('UNION', 'INTERSECT', 'EXCEPT'):
            self.fail('set operations')
        return A.Select(distinct, items, into, from_, where, group_by, having, order_by, limit, offset, lock)

    def _limit_val(self):
        t = self.t
        if t.kind == NUM and isinstance(t.val, int):
            self.i += 1
            return A.Lit(t.val)
        if t.kind == PARAM:
            self.i += 1
            return A.Param(t.val)
        if t.kind == WORD and t.up not in RESERVED:
            self.i += 1
            return A.Col(None, t.val)
        self.fail('LIMIT value')

    def _order_list(self):
        out = []
        while True:
            e = self.parse_expr()
            desc = False
            if self.accept_kw('DESC'):
                desc = True
            else:
                self.accept_kw('ASC')
            out.append((e, desc))
            if not self.accept_op(','):
                return out

    def _into(self):
        self.expect_kw('INTO')
        if self.is_kw('OUTFILE', 'DUMPFILE'):
            self.fail('INTO OUTFILE')
        targets = []
        while True:
            t = self.t
            if t.kind == UVAR:
                self.i += 1
                targets.append(('uvar', t.val))
            else:
                targets.append(('var', self.ident('variable')))
            if not self.accept_op(','):
                return targets

    def _locking(self):
        """FOR UPDATE | FOR SHARE | LOCK IN SHARE MODE [OF ..] [NOWAIT|SKIP LOCKED]: parsed; no effect on execution (recorded in
        Select.lock).  Returns 'update' | 'share' | False."""
        if self.is_kw('FOR') and self.is_kw_at(1, 'UPDATE', 'SHARE'):
            mode = 'update' if self.is_kw_at(1, 'UPDATE') else 'share'
            self.i += 2
            if self.accept_kw('OF'):
                self.ident()
                while self.accept_op(','):
                    self.ident()
            if self.accept_kw('NOWAIT'):
                pass
            elif self.is_kw('SKIP'):
                self.fail('SKIP LOCKED changes results')
            return mode
        if self.is_kw('LOCK') and self.is_kw_at(1, 'IN'):
            self.i += 2
            self.expect_kw('SHARE')
            self.expect_kw('MODE')
            return 'share'
        return False

    def parse_from(self):
        left = self._table_factor()
        while True:
            if self.accept_op(','):
                right = self._table_factor()
                left = A.Join(left, right, 'inner', None)
                continue
            kind = None
            if self.accept_kw('INNER') or self.accept_kw('CROSS'):
                self.expect_kw('JOIN')
                kind = 'inner'
            elif self.accept_kw('JOIN') or self.accept_kw('STRAIGHT_JOIN'):
                kind = 'inner'
            elif self.accept_kw('LEFT'):
                self.accept_kw('OUTER')
                self.expect_kw('JOIN')
                kind = 'left'
            elif self.is_kw('RIGHT', 'NATURAL', 'FULL'):
                self.fail('join type')
            if kind is None:
                return left
            right = self._table_factor()
            on = None
            if self.is_kw('ON') and not self.is_kw_at(1, 'DUPLICATE'):
                self.i += 1
                on = self.parse_expr()
            elif self.is_kw('USING'):
                self.fail('JOIN ... USING')
            if kind == 'left' and on is None:
                self.fail('LEFT JOIN without ON')
            left = A.Join(left, right, kind, on)

    def _table_factor(self):
        lateral = bool(self.accept_kw('LATERAL'))
        if self.accept_op('('):
            if not self.is_kw('SELECT'):
                self.fail('parenthesised join')
            sel = self.parse_select()
            self.expect_op(')')
            self.accept_kw('AS')
            alias = self.ident('derived table alias')
            if self.is_op('('):
                self.fail('derived table column list')
            return A.Derived(sel, alias, lateral)
        if lateral:
            self.fail('LATERAL without subquery')
        name = self.ident('table name')
        if self.is_op('.'):
            self.fail('db.table')
        alias = None
        if self.accept_kw('AS'):
            alias = self.ident('alias')
        elif self.t.kind == QIDENT or (self.t.kind == WORD and self.t.up not in RESERVED and self.t.up not in ('PARTITION',)):
            alias = self.ident('alias')
        # index hints: parsed and ignored (they do not change results, only plans)
        while self.is_kw('FORCE', 'USE', 'IGNORE') and self.is_kw_at(1, 'INDEX', 'KEY'):
            self.i += 2
            if self.accept_kw('FOR'):
                self.fail('index hint FOR clause')
            self.expect_op('(')
            if not self.is_op(')'):
                self.ident('index name', allow_reserved=True)
                while self.accept_op(','):
                    self.ident('index name', allow_reserved=True)
            self.expect_op(')')
        return A.TableRef(name, alias)

    # ---- DML -----------------------------------------------------------------------------------
    def parse_insert(self):
        self.expect_kw('INSERT')
        ignore = False
        if self.is_kw('LOW_PRIORITY', 'DELAYED', 'HIGH_PRIORITY'):
            self.fail('insert modifier')
        if self.accept_kw('IGNORE'):
            ignore = True
        self.accept_kw('INTO')
        table = self.ident('table')
        cols = None
        if self.is_op('(') and not self.is_kw_at(1, 'SELECT'):
            self.i += 1
            cols = [self.ident('column', allow_reserved=True)]
            while self.accept_op(','):
                cols.append(self.ident('column', allow_reserved=True))
            self.expect_op(')')
        rows = None
        select = None
        if self.accept_kw('VALUES', 'VALUE'):
            rows = []
            while True:
                self.expect_op('(')
                row = []
                if not self.is_op(')'):
                    row.append(self._insert_value())
                    while self.accept_op(','):
                        row.append(self._insert_value())
                self.expect_op(')')
                rows.append(row)
                if not self.accept_op(','):
                    break
            if self.is_kw('AS'):
                self.fail('INSERT ... VALUES ... AS alias')
        elif self.is_kw('SELECT'):
            select = self.parse_select()
        elif self.is_op('(') and self.is_kw_at(1, 'SELECT'):
            self.i += 1
            select = self.parse_select()
            self.expect_op(')')
        elif self.is_kw('SET'):
            self.fail('INSERT ... SET')
        else:
            self.fail('INSERT source')
        odku = None
        if self.accept_kw('ON'):
            self.expect_kw('DUPLICATE')
            self.expect_kw('KEY')
            self.expect_kw('UPDATE')
            odku = []
            while True:
                c = self._colref()
                self.expect_op('=')
                odku.append((c, self.parse_expr()))
                if not self.accept_op(','):
                    break
        return A.Insert(table, cols, rows, select, odku, ignore)

    def _insert_value(self):
        if self.is_kw('DEFAULT') and not (self.peek().kind == OP and self.peek().val == '('):
            self.fail('DEFAULT in VALUES')
        return self.parse_expr()

    def _colref(self):
        e = self._ident_chain() if self.t.kind in (WORD, QIDENT) else self.fail('column reference')
        if not isinstance(e, A.Col):
            self.fail('column reference')
        return e

    def parse_update(self):
        self.expect_kw('UPDATE')
        if self.is_kw('LOW_PRIORITY', 'IGNORE'):
            self.fail('update modifier')
        from_ = self.parse_from()
        self.expect_kw('SET')
        sets = []
        while True:
            c = self._colref()
            self.expect_op('=')
            sets.append((c, self.parse_expr()))
            if not self.accept_op(','):
                break
        where = None
        if self.accept_kw('WHERE'):
            where = self.parse_expr()
        if self.is_kw('ORDER', 'LIMIT'):
            self.fail('UPDATE ... ORDER BY/LIMIT')
        return A.Update(from_, sets, where)

    def parse_delete(self):
        self.expect_kw('DELETE')
        if self.is_kw('LOW_PRIORITY', 'QUICK', 'IGNORE'):
            self.fail('delete modifier')
        self.expect_kw('FROM')
        table = self.ident('table')
        alias = None
        if self.accept_kw('AS'):
            alias = self.ident('alias')
        if self.is_op(',') or self.is_kw('USING', 'JOIN', 'INNER', 'LEFT'):
            self.fail('multi-table DELETE')
        where = None
        if self.accept_kw('WHERE'):
            where = self.parse_expr()
        if self.is_kw('ORDER', 'LIMIT'):
            self.fail('DELETE ... ORDER BY/LIMIT')
        return A.Delete(table, alias, where)

    def parse_call(self):
        self.expect_kw('CALL')
        name = self.ident('procedure name')
        args = []
        if self.accept_op('('):
            if not self.is_op(')'):
                args.append(self.parse_expr())
                while self.accept_op(','):
                    args.append(self.parse_expr())
            self.expect_op(')')
        return A.Call(name, args)

    def parse_set(self):
        self.expect_kw('SET')
        if self.is_kw('GLOBAL', 'SESSION', 'TRANSACTION', 'NAMES', 'CHARACTER', 'PERSIST', 'LOCAL'):
            self.fail('SET <scope>')
        assigns = []
        while True:
            t = self.t
            if t.kind == UVAR:
                self.i += 1
                target = ('uvar', t.val)
            else:
                first = self.ident('variable', allow_reserved=False)
                if self.accept_op('.'):
                    col = self.ident('column', allow_reserved=True)
                    if first.upper() != 'NEW':
                        self.fail('SET x.y where x is not NEW')
                    target = ('new', col)
                else:
                    target = ('var', first)
            if not (self.accept_op('=') or self.accept_op(':=')):
                self.fail('expected = in SET')
            assigns.append((target, self.parse_expr()))
            if not self.accept_op(','):
                break
        return A.SetStmt(assigns)

    # ---- statements ---------------------------------------------------------------------------
    def parse_statement(self, in_routine=False):
        t = self.t
        if t.kind != WORD:
            if t.kind == OP and t.val == '(' and self.is_kw_at(1, 'SELECT'):
                self.fail('parenthesised top-level select')
            self.fail('expected statement')
        u = t.up
        if u == 'SELECT':
            return self.parse_select()
        if u == 'INSERT':
            return self.parse_insert()
        if u == 'UPDATE':
            return self.parse_update()
        if u == 'DELETE':
            return self.parse_delete()
        if u == 'CALL':
            return self.parse_call()
        if u == 'SET':
            return self.parse_set()
        if u == 'START':
            self.i += 1
            self.expect_kw('TRANSACTION')
            ro = False
            if self.accept_kw('READ'):
                if self.accept_kw('ONLY'):
                    ro = True
                else:
                    self.expect_kw('WRITE')
            if self.is_kw('WITH'):
                self.fail('START TRANSACTION WITH CONSISTENT SNAPSHOT')
            return A.StartTx(ro)
        if u == 'BEGIN' and not in_routine:
            self.i += 1
            self.accept_kw('WORK')
            return A.StartTx(False)
        if u == 'COMMIT':
            self.i += 1
            self.accept_kw('WORK')
            if self.is_kw('AND', 'RELEASE', 'NO'):
                self.fail('COMMIT modifiers')
            return A.Commit()
        if u == 'ROLLBACK':
            self.i += 1
            self.accept_kw('WORK')
            if self.is_kw('TO', 'AND', 'RELEASE', 'NO'):
                self.fail('ROLLBACK TO SAVEPOINT / modifiers')
            return A.Rollback()
        if in_routine:
            return self._routine_statement()
        self.fail('unsupported statement')

    def _routine_statement(self):
        t = self.t
        u = t.up
        if u == 'BEGIN':
            return self._block(None)
        if u == 'DECLARE':
            return self._declare()
        if u == 'IF':
            return self._if()
        if u == 'LOOP':
            return self._loop(None)
        if u == 'WHILE':
            return self._while(None)
        if u in ('REPEAT', 'CASE'):
            self.fail(f'{u} statement')
        if u == 'LEAVE':
            self.i += 1
            return A.Leave(self.ident('label'))
        if u == 'ITERATE':
            self.i += 1
            return A.Iterate(self.ident('label'))
        if u == 'OPEN':
            self.i += 1
            return A.Open(self.ident('cursor'))
        if u == 'CLOSE':
            self.i += 1
            return A.Close(self.ident('cursor'))
        if u == 'FETCH':
            self.i += 1
            if self.accept_kw('NEXT'):
                self.expect_kw('FROM')
            else:
                self.accept_kw('FROM')
            cur = self.ident('cursor')
            self.expect_kw('INTO')
            targets = [self.ident('variable')]
            while self.accept_op(','):
                targets.append(self.ident('variable'))
            return A.Fetch(cur, targets)
        if u == 'SIGNAL':
            self.i += 1
            self.expect_kw('SQLSTATE')
            self.accept_kw('VALUE')
            if self.t.kind != STR:
                self.fail('SQLSTATE literal')
            state = self.t.val
            self.i += 1
            items = {}
            if self.accept_kw('SET'):
                while True:
                    k = self.ident('signal item', allow_reserved=True).upper()
                    self.expect_op('=')
                    items[k] = self.parse_expr()
                    if not self.accept_op(','):
                        break
            return A.Signal(state, items)
        if u == 'RETURN':
            self.i += 1
            return A.Return(self.parse_expr())
        if u in ('RESIGNAL', 'PREPARE', 'EXECUTE', 'DEALLOCATE', 'GET'):
            self.fail(f'{u} statement')
        # label?
        self.fail('unsupported routine statement')

    def _stmt_list(self, *terminators):
        body = []
        while True:
            if self.at_end():
                self.fail('unexpected end of routine body')
            if self.is_kw(*terminators):
                return body
            body.append(self._labelled_or_statement())
            if not self.accept_op(';'):
                if self.is_kw(*terminators):
                    return body
                self.fail('expected ;')

    def _labelled_or_statement(self):
        t = self.t
        nxt = self.peek()
        if t.kind in (WORD, QIDENT) and nxt.kind == OP and nxt.val == ':' and (t.kind == QIDENT or t.up not in RESERVED):
            lab = t.val
            self.i += 2
            if self.is_kw('LOOP'):
                return self._loop(lab)
            if self.is_kw('BEGIN'):
                return self._block(lab)
            if self.is_kw('WHILE'):
                return self._while(lab)
            self.fail('label on unsupported construct')
        return self.parse_statement(in_routine=True)

    def _block(self, label):
        self.expect_kw('BEGIN')
        body = self._stmt_list('END')
        self.expect_kw('END')
        if label is not None and self.t.kind in (WORD, QIDENT) and self.t.val.lower() == label.lower():
            self.i += 1
        return A.Block(label, body)

    def _declare(self):
        self.expect_kw('DECLARE')
        if self.is_kw('CONTINUE', 'EXIT', 'UNDO'):
            action = self.t.up
            self.i += 1
            self.expect_kw('HANDLER')
            self.expect_kw('FOR')
            if self.accept_kw('NOT'):
                self.expect_kw('FOUND')
                cond = 'NOT FOUND'
            else:
                self.fail('handler condition other than NOT FOUND')
            if self.is_op(','):
                self.fail('multiple handler conditions')
            if action != 'CONTINUE':
                self.fail(f'{action} handler')
            stmt = self.parse_statement(in_routine=True)
            return A.DeclareHandler(action, cond, stmt)
        names = [self.ident('variable')]
        if self.accept_kw('CURSOR'):
            self.expect_kw('FOR')
            sel = self.parse_select()
            return A.DeclareCursor(names[0], sel)
        if self.is_kw('CONDITION'):
            self.fail('DECLARE CONDITION')
        while self.accept_op(','):
            names.append(self.ident('variable'))
        ty = self.parse_type()
        default = None
        if self.accept_kw('DEFAULT'):
            default = self.parse_expr()
        return A.Declare(names, ty, default)

    def _if(self):
        self.expect_kw('IF')
        branches = []
        cond = self.parse_expr()
        self.expect_kw('THEN')
        body = self._stmt_list('ELSEIF', 'ELSE', 'END')
        branches.append((cond, body))
        else_ = None
        while True:
            if self.accept_kw('ELSEIF'):
                cond = self.parse_expr()
                self.expect_kw('THEN')
                body = self._stmt_list('ELSEIF', 'ELSE', 'END')
                branches.append((cond, body))
            elif self.accept_kw('ELSE'):
                else_ = self._stmt_list('END')
            else:
                break
        self.expect_kw('END')
        self.expect_kw('IF')
        return A.If(branches, else_)

    def _loop(self, label):
        self.expect_kw('LOOP')
        body = self._stmt_list('END')
        self.expect_kw('END')
        self.expect_kw('LOOP')
        if label is not None and self.t.kind in (WORD, QIDENT) and self.t.val.lower() == label.lower():
            self.i += 1
        return A.Loop(label, body)

    def _while(self, label):
        self.expect_kw('WHILE')
        cond = self.parse_expr()
        self.expect_kw('DO')
        body = self._stmt_list('END')
        self.expect_kw('END')
        self.expect_kw('WHILE')
        if label is not None and self.t.kind in (WORD, QIDENT) and self.t.val.lower() == label.lower():
            self.i += 1
        return A.While(label, cond, body)

    # ---- CREATE PROCEDURE / FUNCTION / TRIGGER -------------------------------------------------
    def parse_create_routine(self):
        start = self.t.start
        self.expect_kw('CREATE')
        if self.is_kw('DEFINER', 'OR'):
            self.fail('CREATE modifiers')
        kind = self.expect_kw('PROCEDURE', 'FUNCTION', 'TRIGGER')
        if self.accept_kw('IF'):
            self.expect_kw('NOT')
            self.expect_kw('EXISTS')
        name = self.ident('routine name')
        params = []
        returns = None
        timing = event = table = None
        if kind == 'TRIGGER':
            timing = self.expect_kw('BEFORE', 'AFTER')
            event = self.expect_kw('INSERT', 'UPDATE', 'DELETE')
            self.expect_kw('ON')
            table = self.ident('table')
            self.expect_kw('FOR')
            self.expect_kw('EACH')
            self.expect_kw('ROW')
            if self.is_kw('FOLLOWS', 'PRECEDES'):
                self.fail('trigger ordering')
        else:
            self.expect_op('(')
            if not self.is_op(')'):
                while True:
                    mode = 'IN'
                    if kind == 'PROCEDURE':
                        m = self.accept_kw('IN', 'OUT', 'INOUT')
                        if m:
                            mode = m
                    pname = self.ident('parameter name')
                    ty = self.parse_type()
                    params.append((mode, pname, ty))
                    if not self.accept_op(','):
                        break
            self.expect_op(')')
            if kind == 'FUNCTION':
                self.expect_kw('RETURNS')
                returns = self.parse_type()
            # characteristics
            while True:
                if self.accept_kw('DETERMINISTIC'):
                    continue
                if self.is_kw('NOT') and self.is_kw_at(1, 'DETERMINISTIC'):
                    self.i += 2
                    continue
                if self.is_kw('READS', 'MODIFIES'):
                    self.i += 1
                    self.expect_kw('SQL')
                    self.expect_kw('DATA')
                    continue
                if self.is_kw('CONTAINS'):
                    self.i += 1
                    self.expect_kw('SQL')
                    continue
                if self.is_kw('NO') and self.is_kw_at(1, 'SQL'):
                    self.i += 2
                    continue
                if self.is_kw('SQL') and self.is_kw_at(1, 'SECURITY'):
                    self.i += 3
                    continue
                if self.is_kw('COMMENT', 'LANGUAGE'):
                    self.fail('routine characteristic')
                break
        body = self._labelled_or_statement()
        end = self.toks[self.i - 1].end
        return A.CreateRoutine(kind, name, params, returns, body, timing, event, table, self.sql[start:end])


def parse_statements(sql, with_params=False, in_routine=False):
    """Parse `stmt (; stmt)* [;]`.  Returns (list of AST, nparams)."""
    p = Parser(sql, with_params)
    out = []
    while not p.at_end():
        if p.accept_op(';'):
            continue
        if p.is_kw('CREATE') and p.is_kw_at(1, 'PROCEDURE', 'FUNCTION', 'TRIGGER'):
            out.append(p.parse_create_routine())
        else:
            out.append(p.parse_statement(in_routine=in_routine))
        if not p.at_end() and not p.accept_op(';'):
            p.fail('expected ; or end of statement')
    return out, p.nparams
