"""Schema loader: table DDL from batch/sql/estimated-current.sql + later ALTER/CREATE TABLE in migrations, and the LIVE
stored routines / triggers / functions = last CREATE in numeric migration order honouring DROP (estimated-current.sql is
stale for routines and is never used for them).  Everything is recomputed from the files of `$VERIF_REPO` on every load.
"""
import os
import re

from . import ast as A
from .errors import Unsupported
from .lexer import NUM, OP, STR, WORD, split_script
from .parser import Parser, SqlType

_MIG_RE = re.compile(r'^(\d+)([a-z]?)-.*\.sql$')


def repo_root():
    return os.environ.get('VERIF_REPO', '/repo')


class Column:
    __slots__ = ('name', 'type', 'nullable', 'default', 'has_default', 'auto_inc', 'idx')

    def __init__(self, name, type_, nullable=True, default=None, has_default=False, auto_inc=False):
        self.name = name
        self.type = type_
        self.nullable = nullable
        self.default = default
        self.has_default = has_default
        self.auto_inc = auto_inc
        self.idx = -1

    def __repr__(self):
        return f'Column({self.name} {self.type.name}{"" if self.nullable else " NOT NULL"})'


class TableDef:
    def __init__(self, name):
        self.name = name
        self.columns = []
        self.pk = None            # tuple of column names
        self.uniques = []         # list of (keyname, tuple of column names)   (excluding the primary key)
        self.fks = []             # list of (cols, ref_table, ref_cols, on_delete)

    def col(self, name):
        for c in self.columns:
            if c.name.lower() == name.lower():
                return c
        return None


class RoutineDef:
    def __init__(self, kind, name, ast, source_file):
        self.kind = kind
        self.name = name
        self.ast = ast
        self.source_file = source_file


class Schema:
    def __init__(self):
        self.tables = {}          # lower name -> TableDef
        self.routines = {}        # (KIND, lower name) -> RoutineDef     kinds PROCEDURE/FUNCTION/TRIGGER
        self.routine_sources = {}  # name -> file  (the computed live map; reported in evidence)
        self.ddl_floor = None     # highest migration whose ADD COLUMNs are all present in estimated-current.sql
        self.applied_alters = []  # [(file, statement head)]
        self.repo = None

    def triggers_for(self, table, timing, event):
        out = []
        for (k, _n), r in self.routines.items():
            if k == 'TRIGGER' and r.ast.table.lower() == table.lower() and r.ast.timing == timing and r.ast.event == event:
                out.append(r)
        if len(out) > 1:
            raise Unsupported(f'several {timing} {event} triggers on {table}')
        return out[0] if out else None


# ------------------------------------------------------------------------------------------------------------------
# DDL parsing (on top of the expression/statement parser's token helpers)
# ------------------------------------------------------------------------------------------------------------------

def _paren_cols(p):
    p.expect_op('(')
    cols = []
    while True:
        cols.append(p.ident('column', allow_reserved=True))
        if p.accept_op('('):      # prefix length  value(256)
            p._num()
            p.expect_op(')')
        p.accept_kw('ASC', 'DESC')
        if not p.accept_op(','):
            break
    p.expect_op(')')
    return tuple(cols)


def _literal_default(p):
    t = p.t
    if t.kind == NUM:
        p.i += 1
        return t.val
    if t.kind == STR:
        p.i += 1
        return t.val
    if t.kind == OP and t.val == '-' and p.peek().kind == NUM:
        p.i += 2
        return -p.toks[p.i - 1].val
    if t.kind == WORD:
        if t.up == 'NULL':
            p.i += 1
            return None
        if t.up == 'TRUE':
            p.i += 1
            return 1
        if t.up == 'FALSE':
            p.i += 1
            return 0
        if t.up in ('CURRENT_TIMESTAMP', 'NOW'):
            p.i += 1
            if p.accept_op('('):
                p.expect_op(')')
            return ('CURRENT_TIMESTAMP',)
    p.fail('unsupported DEFAULT')


def _column_def(p, tdef_for_keys):
    name = p.ident('column name', allow_reserved=True)
    ty = p.parse_type()
    col = Column(name, ty)
    while True:
        if p.is_kw('NOT') and p.is_kw_at(1, 'NULL'):
            p.i += 2
            col.nullable = False
        elif p.accept_kw('NULL'):
            col.nullable = True
        elif p.accept_kw('DEFAULT'):
            col.default = _literal_default(p)
            col.has_default = True
        elif p.accept_kw('AUTO_INCREMENT'):
            col.auto_inc = True
        elif p.is_kw('UNIQUE'):
            p.i += 1
            p.accept_kw('KEY')
            tdef_for_keys.uniques.append((name, (name,)))
        elif p.is_kw('PRIMARY') and p.is_kw_at(1, 'KEY') and not (p.peek(2).kind == OP and p.peek(2).val == '('):
            p.i += 2
            tdef_for_keys.pk = (name,)
            col.nullable = False
        elif p.accept_kw('KEY'):
            tdef_for_keys.pk = (name,)
            col.nullable = False
        elif p.is_kw('COLLATE'):
            p.i += 1
            c = p.ident(allow_reserved=True)
            ty.cs = c.lower().endswith('_cs') or c.lower().endswith('_bin')
        elif p.accept_kw('COMMENT'):
            if p.t.kind != STR:
                p.fail('COMMENT string')
            p.i += 1
        elif p.is_kw('ON') and p.is_kw_at(1, 'UPDATE'):
            p.i += 2
            p.expect_kw('CURRENT_TIMESTAMP')
        elif p.is_kw('GENERATED', 'AS', 'CHECK', 'REFERENCES', 'VIRTUAL', 'STORED'):
            p.fail('unsupported column attribute')
        else:
            break
    if not col.has_default and col.nullable:
        col.default = None
        col.has_default = True      # implicit DEFAULT NULL
    return col


def _fk(p, tdef):
    # after FOREIGN KEY
    if p.t.kind in (WORD,) and not p.is_op('(') and p.t.up not in ('',) and not (p.t.kind == OP):
        # optional index name
        if not p.is_op('('):
            p.ident('fk index name', allow_reserved=True)
    cols = _paren_cols(p)
    p.expect_kw('REFERENCES')
    ref = p.ident('referenced table')
    rcols = _paren_cols(p)
    on_delete = 'RESTRICT'
    while p.is_kw('ON'):
        p.i += 1
        which = p.expect_kw('DELETE', 'UPDATE')
        if p.accept_kw('CASCADE'):
            act = 'CASCADE'
        elif p.accept_kw('RESTRICT'):
            act = 'RESTRICT'
        elif p.accept_kw('SET'):
            p.expect_kw('NULL')
            act = 'SET NULL'
        elif p.accept_kw('NO'):
            p.expect_kw('ACTION')
            act = 'RESTRICT'
        else:
            p.fail('FK action')
        if which == 'DELETE':
            on_delete = act
    tdef.fks.append((cols, ref, rcols, on_delete))


def parse_create_table(sql):
    p = Parser(sql)
    p.expect_kw('CREATE')
    if p.is_kw('TEMPORARY'):
        p.fail('temporary table')
    p.expect_kw('TABLE')
    if p.accept_kw('IF'):
        p.expect_kw('NOT')
        p.expect_kw('EXISTS')
    t = TableDef(p.ident('table name'))
    if p.is_kw('LIKE', 'AS', 'SELECT'):
        p.fail('CREATE TABLE ... LIKE/AS')
    p.expect_op('(')
    while True:
        if p.is_kw('PRIMARY') and p.is_kw_at(1, 'KEY'):
            p.i += 2
            t.pk = _paren_cols(p)
        elif p.is_kw('UNIQUE'):
            p.i += 1
            p.accept_kw('KEY', 'INDEX')
            kname = None
            if not p.is_op('('):
                kname = p.ident('key name', allow_reserved=True)
            cols = _paren_cols(p)
            t.uniques.append((kname or cols[0], cols))
        elif p.is_kw('KEY', 'INDEX', 'FULLTEXT', 'SPATIAL'):
            p.i += 1
            p.accept_kw('KEY', 'INDEX')
            if not p.is_op('('):
                p.ident('key name', allow_reserved=True)
            _paren_cols(p)
        elif p.is_kw('CONSTRAINT'):
            p.i += 1
            if not p.is_kw('FOREIGN', 'PRIMARY', 'UNIQUE', 'CHECK'):
                p.ident('constraint name', allow_reserved=True)
            continue
        elif p.is_kw('FOREIGN'):
            p.i += 1
            p.expect_kw('KEY')
            _fk(p, t)
        elif p.is_kw('CHECK'):
            p.fail('CHECK constraint')
        else:
            t.columns.append(_column_def(p, t))
            # estimated-current.sql has a missing comma before PRIMARY KEY in `attempt_resources`; tolerate exactly that
            if p.is_kw('PRIMARY') and p.is_kw_at(1, 'KEY') and p.peek(2).kind == OP and p.peek(2).val == '(':
                continue
        if p.accept_op(','):
            continue
        break
    p.expect_op(')')
    # table options: ignored (ENGINE = InnoDB, charset ...)
    while not p.at_end() and not p.is_op(';'):
        p.i += 1
    _finish_table(t)
    return t


def _finish_table(t):
    for i, c in enumerate(t.columns):
        c.idx = i
    if t.pk:
        for cn in t.pk:
            c = t.col(cn)
            if c is None:
                raise Unsupported(f'primary key column {cn} missing in {t.name}')
            c.nullable = False
            if c.default is None and not c.auto_inc:
                c.has_default = False
    seen = set()
    for c in t.columns:
        if c.name.lower() in seen:
            raise Unsupported(f'duplicate column {c.name} in {t.name}')
        seen.add(c.name.lower())
        if c.auto_inc and not ((t.pk and t.pk[0].lower() == c.name.lower()) or any(u[1][0].lower() == c.name.lower() for u in t.uniques)):
            raise Unsupported(f'AUTO_INCREMENT column {c.name} is not a key in {t.name}')


def apply_alter_table(schema, sql, source):
    p = Parser(sql)
    p.expect_kw('ALTER')
    p.expect_kw('TABLE')
    name = p.ident('table name')
    t = schema.tables.get(name.lower())
    if t is None:
        raise Unsupported(f'{source}: ALTER TABLE on unknown table {name}')
    while True:
        if p.accept_kw('ADD'):
            if p.is_kw('FOREIGN') or p.is_kw('CONSTRAINT'):
                if p.accept_kw('CONSTRAINT'):
                    if not p.is_kw('FOREIGN'):
                        p.ident('constraint name', allow_reserved=True)
                p.expect_kw('FOREIGN')
                p.expect_kw('KEY')
                before = len(t.fks)
                _fk(p, t)
                new = t.fks[before:]
                del t.fks[before:]
                for fk in new:
                    if fk not in t.fks:
                        t.fks.append(fk)
            elif p.is_kw('PRIMARY'):
                p.i += 1
                p.expect_kw('KEY')
                t.pk = _paren_cols(p)
            elif p.is_kw('UNIQUE'):
                p.i += 1
                p.accept_kw('KEY', 'INDEX')
                kname = None
                if not p.is_op('('):
                    kname = p.ident('key name', allow_reserved=True)
                cols = _paren_cols(p)
                if (kname or cols[0], cols) not in t.uniques:
                    t.uniques.append((kname or cols[0], cols))
            elif p.is_kw('INDEX', 'KEY'):
                p.i += 1
                if not p.is_op('('):
                    p.ident('key name', allow_reserved=True)
                _paren_cols(p)
            else:
                p.accept_kw('COLUMN')
                col = _column_def(p, t)
                if p.accept_kw('FIRST'):
                    pass
                elif p.accept_kw('AFTER'):
                    p.ident('column', allow_reserved=True)
                if t.col(col.name) is None:      # idempotent: estimated-current.sql may already contain it
                    t.columns.append(col)
        elif p.accept_kw('DROP'):
            if p.accept_kw('PRIMARY'):
                p.expect_kw('KEY')
                t.pk = None
            elif p.accept_kw('INDEX', 'KEY'):
                k = p.ident('index name', allow_reserved=True)
                t.uniques = [u for u in t.uniques if u[0].lower() != k.lower()]
            elif p.accept_kw('FOREIGN'):
                p.expect_kw('KEY')
                p.ident('fk name', allow_reserved=True)
                raise Unsupported(f'{source}: DROP FOREIGN KEY (cannot map constraint name to definition)')
            else:
                p.accept_kw('COLUMN')
                cn = p.ident('column', allow_reserved=True)
                t.columns = [c for c in t.columns if c.name.lower() != cn.lower()]
        elif p.accept_kw('MODIFY'):
            p.accept_kw('COLUMN')
            col = _column_def(p, t)
            old = t.col(col.name)
            if old is None:
                raise Unsupported(f'{source}: MODIFY of unknown column {col.name}')
            t.columns[t.columns.index(old)] = col
        elif p.is_kw('ALGORITHM', 'LOCK'):
            p.i += 1
            p.accept_op('=')
            p.ident('option value', allow_reserved=True)
        else:
            p.fail(f'{source}: unsupported ALTER TABLE action')
        if not p.accept_op(','):
            break
    if not p.at_end() and not p.is_op(';'):
        p.fail(f'{source}: trailing ALTER TABLE text')
    _finish_table(t)


_ADD_COL_RE = re.compile(r'(?is)\bALTER\s+TABLE\s+`?(\w+)`?\s+.*?\bADD\s+(?:COLUMN\s+)?`?(\w+)`?')
_HEAD_RE = re.compile(r'(?is)^\s*(CREATE|DROP|ALTER|RENAME)\s+(TABLE|PROCEDURE|FUNCTION|TRIGGER|INDEX|UNIQUE\s+INDEX)\b')
_ROUTINE_RE = re.compile(r'(?is)^\s*(CREATE|DROP)\s+(PROCEDURE|FUNCTION|TRIGGER)\s+(?:IF\s+(?:NOT\s+)?EXISTS\s+)?`?(\w+)`?')


def _migration_files(sqldir):
    files = []
    for f in os.listdir(sqldir):
        m = _MIG_RE.match(f)
        if m:
            files.append(((int(m.group(1)), m.group(2)), f))
    files.sort()
    return files


def _sub_statements(chunk):
    """A `$$`-delimited chunk may hold `DROP ...; CREATE ...` (the client sends it as one multi-statement).  Split the
    leading simple statements off; the CREATE routine body keeps its inner semicolons."""
    out = []
    rest = chunk.strip()
    while True:
        m = _ROUTINE_RE.match(rest)
        if m and m.group(1).upper() == 'CREATE':
            out.append(rest)
            return out
        # simple statement: up to the first ';' outside quotes
        parts = split_script(rest)
        if len(parts) <= 1:
            if rest:
                out.append(rest)
            return out
        first = parts[0]
        out.append(first)
        idx = rest.index(first) + len(first)
        rest = rest[idx:].lstrip()
        if rest.startswith(';'):
            rest = rest[1:].lstrip()
        if not rest:
            return out


def load_schema(repo=None):
    repo = repo or repo_root()
    sqldir = os.path.join(repo, 'batch', 'sql')
    schema = Schema()
    schema.repo = repo

    # 1. tables from estimated-current.sql
    est = open(os.path.join(sqldir, 'estimated-current.sql')).read()
    for chunk in split_script(est):
        for st in _sub_statements(chunk):
            m = _HEAD_RE.match(st)
            if not m:
                continue
            verb, obj = m.group(1).upper(), re.sub(r'\s+', ' ', m.group(2).upper())
            if verb == 'CREATE' and obj == 'TABLE':
                t = parse_create_table(st)
                schema.tables[t.name.lower()] = t
            elif verb == 'ALTER' and obj == 'TABLE':
                apply_alter_table(schema, st, 'estimated-current.sql')
            # DROP TABLE IF EXISTS x; CREATE TABLE x -> the CREATE wins; routines in this file are ignored (stale)

    # 2. migrations in numeric order: routine map from all of them; table DDL only from those above the floor
    files = _migration_files(sqldir)
    per_file = []
    for key, f in files:
        text = open(os.path.join(sqldir, f)).read()
        stmts = []
        for chunk in split_script(text):
            stmts.extend(_sub_statements(chunk))
        per_file.append((key, f, stmts))

    def add_cols_present(stmts):
        found = False
        for st in stmts:
            if not re.match(r'(?is)^\s*ALTER\s+TABLE', st):
                continue
            for m in re.finditer(r'(?is)\bADD\s+(?:COLUMN\s+)`?(\w+)`?', st):
                tm = re.match(r'(?is)^\s*ALTER\s+TABLE\s+`?(\w+)`?', st)
                t = schema.tables.get(tm.group(1).lower())
                found = True
                if t is None or t.col(m.group(1)) is None:
                    return False
        return found

    floor = None
    for key, f, stmts in reversed(per_file):
        if add_cols_present(stmts):
            floor = key
            break
    schema.ddl_floor = floor

    for key, f, stmts in per_file:
        for st in stmts:
            m = _ROUTINE_RE.match(st)
            if m:
                verb, kind, name = m.group(1).upper(), m.group(2).upper(), m.group(3)
                k = (kind, name.lower())
                if verb == 'DROP':
                    schema.routines.pop(k, None)
                else:
                    schema.routines[k] = (f, st)      # parsed lazily below (only live ones need to be in the subset)
                continue
            if floor is not None and key <= floor:
                continue
            m = _HEAD_RE.match(st)
            if not m:
                continue
            verb, obj = m.group(1).upper(), re.sub(r'\s+', ' ', m.group(2).upper())
            if obj == 'TABLE':
                if verb == 'CREATE':
                    t = parse_create_table(st)
                    schema.tables[t.name.lower()] = t
                    schema.applied_alters.append((f, st[:80]))
                elif verb == 'ALTER':
                    apply_alter_table(schema, st, f)
                    schema.applied_alters.append((f, re.sub(r'\s+', ' ', st)[:120]))
                elif verb == 'DROP':
                    tm = re.match(r'(?is)^\s*DROP\s+TABLE\s+(?:IF\s+EXISTS\s+)?`?(\w+)`?', st)
                    schema.tables.pop(tm.group(1).lower(), None)
                    schema.applied_alters.append((f, st[:80]))
                else:
                    raise Unsupported(f'{f}: {verb} TABLE')

    # 3. parse the live routines
    live = {}
    for k, (f, st) in schema.routines.items():
        from .parser import parse_statements
        try:
            asts, _ = parse_statements(st)
        except Unsupported as e:
            raise Unsupported(f'live routine {k[1]} ({f}): {e}') from e
        if len(asts) != 1 or not isinstance(asts[0], A.CreateRoutine):
            raise Unsupported(f'{f}: could not isolate CREATE {k[0]} {k[1]}')
        live[k] = RoutineDef(k[0], asts[0].name, asts[0], f)
        schema.routine_sources[f'{k[0].lower()} {k[1]}'] = f
    schema.routines = live
    for t in schema.tables.values():
        for cols, ref, rcols, _od in t.fks:
            if ref.lower() not in schema.tables:
                raise Unsupported(f'foreign key of {t.name} references unknown table {ref}')
    return schema


def schema_from_text(text):
    """Build a Schema from one script (CREATE TABLE / ALTER TABLE / CREATE|DROP PROCEDURE|FUNCTION|TRIGGER, DELIMITER aware).
    Used by the unit tests; same code paths as load_schema."""
    from .parser import parse_statements
    schema = Schema()
    raw = {}
    for chunk in split_script(text):
        for st in _sub_statements(chunk):
            m = _ROUTINE_RE.match(st)
            if m:
                verb, kind, name = m.group(1).upper(), m.group(2).upper(), m.group(3)
                if verb == 'DROP':
                    raw.pop((kind, name.lower()), None)
                else:
                    raw[(kind, name.lower())] = st
                continue
            m = _HEAD_RE.match(st)
            if not m:
                raise Unsupported(f'schema_from_text: {st[:40]!r}')
            verb, obj = m.group(1).upper(), re.sub(r'\s+', ' ', m.group(2).upper())
            if verb == 'CREATE' and obj == 'TABLE':
                t = parse_create_table(st)
                schema.tables[t.name.lower()] = t
            elif verb == 'ALTER' and obj == 'TABLE':
                apply_alter_table(schema, st, '<text>')
            elif obj in ('INDEX', 'UNIQUE INDEX'):
                pass
            else:
                raise Unsupported(f'schema_from_text: {verb} {obj}')
    for k, st in raw.items():
        asts, _ = parse_statements(st)
        schema.routines[k] = RoutineDef(k[0], asts[0].name, asts[0], '<text>')
        schema.routine_sources[f'{k[0].lower()} {k[1]}'] = '<text>'
    return schema
