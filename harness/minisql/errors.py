"""Errors raised by minisql.

`MySQLError` mirrors a server-side error (code + message + sqlstate); the fake DB layer maps the code to the
pymysql exception class the real driver would raise.  `Unsupported` is the FAIL-CLOSED signal: a construct
outside the implemented subset.  It deliberately does NOT derive from MySQLError so that no handler written
for database errors can swallow it.
"""


class Unsupported(Exception):
    """SQL construct (or schema feature) outside the implemented subset. Never guess: abort."""


class MySQLError(Exception):
    def __init__(self, code, msg, sqlstate='HY000'):
        super().__init__(code, msg)
        self.code = code
        self.msg = msg
        self.sqlstate = sqlstate

    def __str__(self):
        return f'({self.code}, {self.msg!r})'


# codes used
ER_DUP_ENTRY = 1062
ER_BAD_NULL = 1048
ER_NO_DEFAULT = 1364
ER_TOO_MANY_ROWS = 1172
ER_SUBQUERY_NO_1_ROW = 1242
ER_SIGNAL = 1644
ER_NON_UNIQ = 1052
ER_BAD_FIELD = 1054
ER_NO_SUCH_TABLE = 1146
ER_SP_DOES_NOT_EXIST = 1305
ER_NO_REFERENCED_ROW_2 = 1452
ER_ROW_IS_REFERENCED_2 = 1451
ER_WARN_DATA_OUT_OF_RANGE = 1264
ER_TRUNCATED_WRONG_VALUE = 1366
ER_DATA_TOO_LONG = 1406
ER_CANT_EXECUTE_IN_READ_ONLY = 1792
ER_SP_WRONG_NO_OF_ARGS = 1318
ER_OPERAND_COLUMNS = 1241
ER_SP_CURSOR_NOT_OPEN = 1326
ER_WRONG_VALUE_COUNT = 1136
ER_PARSE = 1064


def dup_entry(key_repr, key_name):
    return MySQLError(ER_DUP_ENTRY, f"Duplicate entry '{key_repr}' for key '{key_name}'", '23000')
