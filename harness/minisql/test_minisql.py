"""Unit tests of minisql: one test (at least) per semantic point the batch-service SQL depends on.
Run:  cd /verif/harness && /venv/bin/python -m pytest minisql/test_minisql.py -q
"""
import datetime
import os
import sys

import pytest

sys.path.insert(0, os.path.dirname(os.path.dirname(os.path.abspath(__file__))))

from minisql import Engine, MySQLError, Unsupported  # noqa: E402
from minisql.schema import load_schema, schema_from_text  # noqa: E402

DDL = r"""
CREATE TABLE t (
  id INT NOT NULL,
  grp INT,
  v BIGINT DEFAULT 0,
  name VARCHAR(20),
  flag BOOLEAN NOT NULL DEFAULT FALSE,
  PRIMARY KEY (id)
) ENGINE = InnoDB;
CREATE TABLE u (
  k VARCHAR(10) NOT NULL,
  tok INT NOT NULL,
  n INT NOT NULL DEFAULT 0,
  m BIGINT NOT NULL DEFAULT 0,
  PRIMARY KEY (k, tok)
) ENGINE = InnoDB;
CREATE TABLE au (
  id BIGINT NOT NULL AUTO_INCREMENT,
  x INT,
  PRIMARY KEY (id)
) ENGINE = InnoDB;
CREATE TABLE log (
  seq BIGINT NOT NULL AUTO_INCREMENT,
  what VARCHAR(40),
  a INT, b INT,
  PRIMARY KEY (seq)
) ENGINE = InnoDB;
CREATE TABLE child (
  id INT NOT NULL,
  t_id INT,
  PRIMARY KEY (id),
  FOREIGN KEY (t_id) REFERENCES t(id) ON DELETE CASCADE
) ENGINE = InnoDB;
CREATE TABLE cs (
  name VARCHAR(20) NOT NULL,
  name_cs VARCHAR(20) NOT NULL COLLATE utf8mb4_0900_as_cs,
  PRIMARY KEY (name)
) ENGINE = InnoDB;

DELIMITER $$

CREATE TRIGGER t_before_update BEFORE UPDATE ON t
FOR EACH ROW
BEGIN
  IF NEW.v < 0 THEN
    SET NEW.v = OLD.v;
  END IF;
END $$

CREATE TRIGGER t_after_update AFTER UPDATE ON t
FOR EACH ROW
BEGIN
  INSERT INTO log (what, a, b) VALUES ('upd', OLD.v, NEW.v);
END $$

CREATE TRIGGER child_before_insert BEFORE INSERT ON child
FOR EACH ROW
BEGIN
  IF NEW.id = 666 THEN
    SIGNAL SQLSTATE '45000' SET MESSAGE_TEXT = "no way";
  END IF;
END $$

CREATE TRIGGER au_after_insert AFTER INSERT ON au
FOR EACH ROW
BEGIN
  INSERT INTO log (what, a, b) VALUES ('ins', NEW.id, NEW.x);
END $$

CREATE FUNCTION two_rows (g INT)
RETURNS BOOLEAN NOT DETERMINISTIC
RETURN (SELECT flag FROM t WHERE grp = g) $$

CREATE FUNCTION shadow (id INT)
RETURNS INT NOT DETERMINISTIC
RETURN (SELECT v FROM t WHERE t.id = id) $$

CREATE PROCEDURE get_v (IN in_id INT, OUT out_v BIGINT)
BEGIN
  SET out_v = IFNULL(out_v, -7);
  SELECT v INTO out_v FROM t WHERE id = in_id;
END $$

CREATE PROCEDURE into_many ()
BEGIN
  DECLARE x INT DEFAULT 5;
  SELECT v INTO x FROM t;
  SELECT x AS x;
END $$

CREATE PROCEDURE caller (IN in_id INT)
BEGIN
  DECLARE r BIGINT DEFAULT 99;
  CALL get_v(in_id, r);
  SELECT r AS r, ROW_COUNT() AS rc;
END $$

CREATE PROCEDURE walk (IN g INT)
BEGIN
  DECLARE cur_id INT;
  DECLARE total BIGINT DEFAULT 0;
  DECLARE probe INT DEFAULT 42;
  DECLARE done BOOLEAN DEFAULT FALSE;
  DECLARE c CURSOR FOR SELECT id FROM t WHERE grp = g ORDER BY id ASC;
  DECLARE CONTINUE HANDLER FOR NOT FOUND SET done = TRUE;
  OPEN c;
  the_loop: LOOP
    FETCH c INTO cur_id;
    IF done THEN
      LEAVE the_loop;
    END IF;
    SET total = total + cur_id;
  END LOOP;
  CLOSE c;
  SET done = FALSE;
  SELECT v INTO probe FROM t WHERE id = -1;
  SELECT total AS total, done AS handler_fired, probe AS probe;
END $$

CREATE PROCEDURE txproc (IN in_id INT, IN fail BOOLEAN)
BEGIN
  START TRANSACTION;
  UPDATE t SET v = v + 100 WHERE id = in_id;
  IF fail THEN
    ROLLBACK;
    SELECT 1 AS rc;
  ELSE
    COMMIT;
    SELECT 0 AS rc;
  END IF;
END $$

CREATE PROCEDURE rc_demo (IN in_k VARCHAR(10))
BEGIN
  DECLARE r1 INT;
  DECLARE r2 INT;
  DECLARE r3 INT;
  INSERT INTO u (k, tok, n) VALUES (in_k, 0, 1) ON DUPLICATE KEY UPDATE n = n + 1;
  SET r1 = ROW_COUNT();
  INSERT INTO u (k, tok, n) VALUES (in_k, 0, 1) ON DUPLICATE KEY UPDATE n = n + 1;
  SET r2 = ROW_COUNT();
  INSERT INTO u (k, tok, n) VALUES (in_k, 0, 1) ON DUPLICATE KEY UPDATE k = k;
  SET r3 = ROW_COUNT();
  SELECT r1, r2, r3;
END $$

DELIMITER ;
"""


@pytest.fixture()
def eng():
    e = Engine(schema=schema_from_text(DDL), seed=3)
    s = e.connect()
    for i, (g, v, n, f) in enumerate([(1, 10, 'a', 0), (1, 20, 'B', 1), (2, None, None, 0), (None, 5, 'd', 1)], start=1):
        s.execute('INSERT INTO t (id, grp, v, name, flag) VALUES (%s, %s, %s, %s, %s)', (i, g, v, n, f))
    s.commit()
    e.s = s
    return e


def q(e, sql, args=None):
    r = e.s.execute(sql, args)
    return r.rows


def one(e, sql, args=None):
    rows = q(e, sql, args)
    assert len(rows) == 1
    return list(rows[0].values())[0] if len(rows[0]) == 1 else rows[0]


def err(e, sql, args=None):
    with pytest.raises(MySQLError) as ei:
        e.s.execute(sql, args)
    return ei.value.code


# ---- three-valued logic / NULL propagation / booleans as integers -----------------------------------------------------
def test_three_valued_logic(eng):
    assert one(eng, 'SELECT NULL AND 0') == 0
    assert one(eng, 'SELECT NULL AND 1') is None
    assert one(eng, 'SELECT NULL OR 1') == 1
    assert one(eng, 'SELECT NULL OR 0') is None
    assert one(eng, 'SELECT NOT NULL') is None
    assert one(eng, 'SELECT NULL = NULL') is None
    assert one(eng, 'SELECT NULL <=> NULL') == 1
    assert one(eng, 'SELECT 1 IN (2, NULL)') is None
    assert one(eng, 'SELECT 1 IN (1, NULL)') == 1
    assert one(eng, 'SELECT 1 NOT IN (2, NULL)') is None
    assert one(eng, 'SELECT NULL IS NULL') == 1
    assert one(eng, 'SELECT 1 + NULL') is None
    assert one(eng, 'SELECT GREATEST(1, NULL)') is None
    assert one(eng, 'SELECT COALESCE(NULL, NULL, 3)') == 3
    assert one(eng, 'SELECT IF(NULL, 1, 2)') == 2
    # WHERE keeps only TRUE rows: the row with grp NULL matches neither grp = 1 nor NOT (grp = 1)
    assert one(eng, 'SELECT COUNT(*) FROM t WHERE grp = 1') == 2
    assert one(eng, 'SELECT COUNT(*) FROM t WHERE NOT (grp = 1)') == 1


def test_booleans_are_integers(eng):
    assert one(eng, "SELECT (1 = 1) + (2 > 1) + ('a' = 'b')") == 2
    assert one(eng, "SELECT -1 * (3 = 3) * (NOT 0)") == -1
    assert one(eng, "SELECT SUM(name IN ('a', 'b')) FROM t") == 2       # NULL name contributes NULL -> ignored by SUM
    assert one(eng, "SELECT SUM(v > 5) FROM t") == 2
    assert one(eng, "SELECT COALESCE(SUM(v), 0) FROM t WHERE id > 100") == 0
    assert one(eng, "SELECT CAST(COALESCE(SUM(v), 0) AS SIGNED) FROM t") == 35


def test_string_comparison_is_case_insensitive_unless_cs_collation(eng):
    assert one(eng, "SELECT 'Ready' = 'ready'") == 1
    assert one(eng, "SELECT COUNT(*) FROM t WHERE name = 'b'") == 1
    eng.s.execute("INSERT INTO cs (name, name_cs) VALUES ('Abc', 'Abc')")
    assert one(eng, "SELECT COUNT(*) FROM cs WHERE name = 'abc'") == 1
    assert one(eng, "SELECT COUNT(*) FROM cs WHERE name_cs = 'abc'") == 0
    assert one(eng, "SELECT COUNT(*) FROM cs WHERE name_cs = 'Abc'") == 1
    assert err(eng, "INSERT INTO cs (name, name_cs) VALUES ('ABC', 'x')") == 1062
    assert one(eng, "SELECT '10' = 10") == 1      # number vs string: numeric comparison
    assert one(eng, "SELECT COUNT(*) FROM t WHERE id = '2'") == 1


# ---- SELECT ... INTO ---------------------------------------------------------------------------------------------------
def test_select_into_zero_rows_keeps_variables_and_fires_handler(eng):
    r = one(eng, 'CALL walk(1)')
    assert r == {'total': 3, 'handler_fired': 1, 'probe': 42}
    # no handler declared: NOT FOUND is a warning, OUT variable keeps the value assigned before
    assert one(eng, 'CALL caller(12345)')['r'] == -7


def test_select_into_more_than_one_row_is_error_1172(eng):
    assert err(eng, 'CALL into_many()') == 1172


def test_out_parameter_starts_null_and_is_copied_back(eng):
    assert one(eng, 'CALL caller(2)')['r'] == 20


# ---- scalar subquery cardinality -----------------------------------------------------------------------------------------
def test_scalar_subquery_more_than_one_row_is_error_1242(eng):
    assert err(eng, 'SELECT (SELECT v FROM t WHERE grp = 1)') == 1242
    assert one(eng, 'SELECT (SELECT v FROM t WHERE grp = 77)') is None
    assert one(eng, 'SELECT two_rows(2)') == 0
    assert err(eng, 'SELECT two_rows(1)') == 1242
    assert err(eng, 'SELECT (SELECT id, v FROM t WHERE id = 1)') == 1241


def test_lateral_join_multiplies_rows_into_1242(eng):
    sql = """SELECT (SELECT a.v FROM t AS a LEFT JOIN LATERAL (SELECT 1 AS hit FROM t AS b WHERE b.grp = a.grp) AS c ON TRUE
                     WHERE a.id = %s) AS x"""
    assert one(eng, sql, (3,)) is None     # grp 2: exactly one lateral row, v is NULL
    assert err(eng, sql, (1,)) == 1242     # grp 1: two lateral rows -> outer row duplicated


def test_routine_parameter_shadows_column(eng):
    # `WHERE t.id = id`: the unqualified id is the PARAMETER (MySQL: local variables take precedence over columns)
    assert one(eng, 'SELECT shadow(2)') == 20


# ---- unique keys, statement atomicity ------------------------------------------------------------------------------------
def test_duplicate_key_is_1062_and_statement_atomic(eng):
    assert err(eng, "INSERT INTO t (id, grp) VALUES (50, 1), (51, 1), (1, 1)") == 1062
    assert one(eng, 'SELECT COUNT(*) FROM t WHERE id >= 50') == 0
    # trigger side effects of the failed statement are undone as well
    eng.s.execute('INSERT INTO au (x) VALUES (1)')
    n = one(eng, 'SELECT COUNT(*) FROM log')
    assert err(eng, 'UPDATE t SET id = id + 1 WHERE id <= 2') == 1062     # 1 -> 2 collides
    assert one(eng, 'SELECT COUNT(*) FROM log') == n
    assert one(eng, 'SELECT v FROM t WHERE id = 1') == 10


def test_on_duplicate_key_update_values_and_row_count(eng):
    assert one(eng, "CALL rc_demo('k')") == {'r1': 1, 'r2': 2, 'r3': 0}
    eng.s.execute("INSERT INTO u (k, tok, n, m) VALUES ('z', 1, 5, 7) ON DUPLICATE KEY UPDATE n = n + VALUES(n), m = m + VALUES(m)")
    eng.s.execute("INSERT INTO u (k, tok, n, m) VALUES ('z', 1, 5, 7) ON DUPLICATE KEY UPDATE n = n + VALUES(n), m = m + VALUES(m)")
    assert one(eng, "SELECT n, m FROM u WHERE k = 'z'") == {'n': 10, 'm': 14}
    r = eng.s.execute("INSERT INTO u (k, tok, n) VALUES ('q', 0, 1), ('q', 0, 2), ('q', 1, 3) ON DUPLICATE KEY UPDATE n = n + VALUES(n)")
    assert r.rowcount == 1 + 2 + 1
    assert one(eng, "SELECT SUM(n) FROM u WHERE k = 'q'") == 6


def test_user_variables_in_select_list_are_visible_to_the_rows_own_odku(eng):
    eng.s.execute("INSERT INTO u (k, tok, n) VALUES ('g1', 0, 100), ('g2', 0, 200)")
    # per group the select assigns @s, the ON DUPLICATE KEY UPDATE of THAT row reads it
    eng.s.execute("""INSERT INTO u (k, tok, n)
                     SELECT CONCAT('g', grp), 0, -1 * (@s := COALESCE(SUM(v), 0)) FROM t WHERE grp IS NOT NULL GROUP BY grp
                     ON DUPLICATE KEY UPDATE n = n - @s""")
    assert one(eng, "SELECT n FROM u WHERE k = 'g1'") == 70
    assert one(eng, "SELECT n FROM u WHERE k = 'g2'") == 200


def test_insert_select_reading_its_own_target_is_buffered(eng):
    eng.s.execute('INSERT INTO au (x) SELECT x FROM au')       # empty: nothing, no endless loop
    eng.s.execute('INSERT INTO au (x) VALUES (1), (2)')
    eng.s.execute('INSERT INTO au (x) SELECT x + 10 FROM au')
    assert [r['x'] for r in q(eng, 'SELECT x FROM au ORDER BY id')] == [1, 2, 11, 12]


# ---- triggers ---------------------------------------------------------------------------------------------------------------
def test_before_trigger_set_new_and_after_trigger_per_row(eng):
    r = eng.s.execute('UPDATE t SET v = v - 15 WHERE grp = 1')       # row 1: 10-15 < 0 -> clamped back to 10 ; row 2: 20 -> 5
    assert r.rowcount == 1                                             # only changed rows are counted
    assert [x['v'] for x in q(eng, 'SELECT v FROM t WHERE grp = 1 ORDER BY id')] == [10, 5]
    # ... but the AFTER trigger fired for BOTH matched rows
    assert [(x['a'], x['b']) for x in q(eng, 'SELECT a, b FROM log ORDER BY seq')] == [(10, 10), (20, 5)]


def test_after_insert_trigger_fires_for_each_row_of_insert_select(eng):
    eng.s.execute('INSERT INTO au (x) SELECT id FROM t ORDER BY id')
    assert [(x['a'], x['b']) for x in q(eng, "SELECT a, b FROM log WHERE what = 'ins' ORDER BY seq")] == [(1, 1), (2, 2), (3, 3), (4, 4)]


def test_signal_is_error_1644_with_message(eng):
    with pytest.raises(MySQLError) as ei:
        eng.s.execute('INSERT INTO child (id, t_id) VALUES (666, 1)')
    assert ei.value.code == 1644 and ei.value.msg == 'no way' and ei.value.sqlstate == '45000'


def test_multi_table_update_with_join_and_derived_table(eng):
    eng.s.execute("INSERT INTO u (k, tok, n) VALUES ('1', 0, 0), ('2', 0, 0)")
    eng.s.execute("""UPDATE u INNER JOIN (SELECT grp, COALESCE(SUM(v), 0) AS s, COUNT(*) AS c FROM t GROUP BY grp) AS d ON u.k = d.grp
                     SET u.n = d.c, u.m = d.s""")
    assert q(eng, 'SELECT k, n, m FROM u ORDER BY k') == [{'k': '1', 'n': 2, 'm': 30}, {'k': '2', 'n': 1, 'm': 0}]
    # single-table UPDATE: assignments left to right, later ones see earlier ones
    eng.s.execute("UPDATE u SET n = n + 1, m = n * 10 WHERE k = '1'")
    assert one(eng, "SELECT n, m FROM u WHERE k = '1'") == {'n': 3, 'm': 30}
    # LEFT JOIN target rows that are NULL-extended are skipped
    eng.s.execute("UPDATE t LEFT JOIN child ON child.t_id = t.id SET t.name = 'x', child.t_id = t.id WHERE t.id = 4")
    assert one(eng, 'SELECT name FROM t WHERE id = 4') == 'x'


# ---- foreign keys -----------------------------------------------------------------------------------------------------------
def test_foreign_keys(eng):
    assert err(eng, 'INSERT INTO child (id, t_id) VALUES (1, 999)') == 1452
    eng.s.execute('INSERT INTO child (id, t_id) VALUES (1, NULL)')
    eng.s.execute('INSERT INTO child (id, t_id) VALUES (2, 3)')
    with pytest.raises(Unsupported):
        eng.s.execute('DELETE FROM t WHERE id = 3')          # would cascade: not implemented -> fail closed
    eng.s.execute('DELETE FROM t WHERE id = 4')
    assert one(eng, 'SELECT COUNT(*) FROM t') == 3


# ---- transactions ------------------------------------------------------------------------------------------------------------
def test_transactions_and_nested_start_transaction(eng):
    s = eng.s
    s.execute('START TRANSACTION')
    s.execute('UPDATE t SET v = 1000 WHERE id = 1')
    s.rollback()
    assert one(eng, 'SELECT v FROM t WHERE id = 1') == 10
    # a procedure's START TRANSACTION implicitly commits what the caller had open; its ROLLBACK only undoes its own part
    s.execute('START TRANSACTION')
    s.execute('UPDATE t SET v = 11 WHERE id = 1')
    assert one(eng, 'CALL txproc(2, TRUE)') == 1
    s.rollback()
    assert one(eng, 'SELECT v FROM t WHERE id = 1') == 11        # committed by the implicit commit
    assert one(eng, 'SELECT v FROM t WHERE id = 2') == 20        # rolled back inside the procedure
    assert one(eng, 'CALL txproc(2, FALSE)') == 0
    s.rollback()
    assert one(eng, 'SELECT v FROM t WHERE id = 2') == 120
    s.execute('START TRANSACTION READ ONLY')
    assert err(eng, 'UPDATE t SET v = 0') == 1792
    s.rollback()


def test_auto_increment_and_lastrowid(eng):
    r = eng.s.execute('INSERT INTO au (x) VALUES (7)')
    assert r.lastrowid == 1
    r = eng.s.execute('INSERT INTO au (x) VALUES (8), (9)')
    assert r.lastrowid == 2 and r.rowcount == 2


# ---- query features -------------------------------------------------------------------------------------------------------------
def test_group_by_having_order_limit_distinct(eng):
    rows = q(eng, 'SELECT grp, COUNT(*) AS n, CAST(COALESCE(SUM(v), 0) AS SIGNED) AS s FROM t GROUP BY grp HAVING n >= 1 ORDER BY s DESC, grp LIMIT 2')
    assert rows == [{'grp': 1, 'n': 2, 's': 30}, {'grp': None, 'n': 1, 's': 5}]
    assert [r['grp'] for r in q(eng, 'SELECT DISTINCT grp FROM t ORDER BY grp')] == [None, 1, 2]
    assert [r['id'] for r in q(eng, 'SELECT id FROM t ORDER BY -grp DESC, id')] == [1, 2, 3, 4]   # "NULLs last" idiom of pool.py
    assert one(eng, "SELECT JSON_OBJECTAGG(name, v) FROM t WHERE name IS NOT NULL AND grp = 1") == '{"a": 10, "B": 20}'
    assert one(eng, 'SELECT COUNT(child.id) FROM t LEFT JOIN child ON child.t_id = t.id') == 0
    assert one(eng, 'SELECT EXISTS (SELECT 1 FROM t WHERE grp = 2), EXISTS (SELECT 1 FROM t WHERE grp = 3)') == \
        {'EXISTS (SELECT 1 FROM t WHERE grp = 2)': 1, 'EXISTS (SELECT 1 FROM t WHERE grp = 3)': 0}
    assert one(eng, 'SELECT COUNT(*) FROM t FORCE INDEX(whatever) STRAIGHT_JOIN child ON child.t_id = t.id FOR UPDATE') == 0
    assert one(eng, 'SELECT COUNT(*) FROM t WHERE id = 1 LOCK IN SHARE MODE') == 1
    assert one(eng, 'SELECT COUNT(*) FROM t WHERE id = 1 FOR SHARE') == 1


def test_ambiguous_and_unknown_columns(eng):
    assert err(eng, 'SELECT id FROM t JOIN child ON child.t_id = t.id') == 1052
    assert err(eng, 'SELECT nope FROM t') == 1054


def test_rand_is_seeded_and_utc_date_is_virtual(eng):
    a = [one(eng, 'SELECT FLOOR(RAND() * 1000)') for _ in range(5)]
    eng.reset(3)
    eng.s = eng.connect()
    b = [one(eng, 'SELECT FLOOR(RAND() * 1000)') for _ in range(5)]
    assert a == b
    eng.now_msec = 3 * 86400000 + 5
    assert one(eng, 'SELECT CAST(UTC_DATE() AS DATE)') == datetime.date(1970, 1, 4)


def test_parameters(eng):
    assert one(eng, 'SELECT %s + %s', (1, 2)) == 3
    assert one(eng, "SELECT 'a%%b'", ()) == 'a%b'
    assert one(eng, "SELECT 10 %% 3", ()) == 1
    assert one(eng, "SELECT 'a%b'") == 'a%b'        # args=None: no formatting at all
    with pytest.raises(Unsupported):
        eng.s.execute("SELECT '%s'", (1,))
    with pytest.raises(TypeError):
        eng.s.execute('SELECT %s', (1, 2))


@pytest.mark.parametrize('sql', [
    'SELECT 1 UNION SELECT 2',
    'SELECT id FROM t WHERE id BETWEEN 1 AND 2 FOR UPDATE SKIP LOCKED',
    'SELECT ROW_NUMBER() OVER (ORDER BY id) FROM t',
    'SELECT * FROM t NATURAL JOIN child',
    'WITH x AS (SELECT 1) SELECT * FROM x',
    'SELECT id FROM t WHERE name REGEXP "a"',
    'REPLACE INTO t (id) VALUES (1)',
    'DELETE t FROM t JOIN child ON child.t_id = t.id',
    'UPDATE t SET v = 1 ORDER BY id LIMIT 1',
    'SELECT @@autocommit',
    'SET autocommit = 0',
    'SELECT id FROM t GROUP BY 1',
    'SELECT SUBSTRING_INDEX(name, "a", 1) FROM t',
    'SELECT v + INTERVAL 1 DAY FROM t',
])
def test_fail_closed(eng, sql):
    with pytest.raises(Unsupported):
        eng.s.execute(sql)


# ---- the real schema -------------------------------------------------------------------------------------------------------------
def test_live_routine_map_is_last_create_in_migration_order():
    s = load_schema()
    src = s.routine_sources
    # every live routine comes from a numbered migration, never from the stale estimated-current.sql
    assert all(f[0].isdigit() for f in src.values())
    # spot checks that hold for the tree as of migration 119/120 (a new migration redefining one of them must change this map)
    import re
    sqldir = os.path.join(s.repo, 'batch', 'sql')
    for name, f in src.items():
        kind, n = name.split()
        later = [g for g in os.listdir(sqldir) if re.match(r'\d+', g) and g.endswith('.sql') and
                 (int(re.match(r'\d+', g).group()), g) > (int(re.match(r'\d+', f).group()), f)]
        for g in later:
            txt = open(os.path.join(sqldir, g)).read()
            assert not re.search(rf'(?i)CREATE\s+{kind}\s+`?{n}`?\b', txt), (name, f, g)
    assert 'n_max_attempts' in [c.name for c in s.tables['jobs'].columns]        # ALTER TABLE of migration 118 applied
    assert s.tables['batch_updates'].pk == ('batch_id', 'update_id', 'start_job_group_id', 'start_job_id')


def test_all_live_routines_compile():
    e = Engine(seed=0)
    for (kind, name) in list(e.schema.routines):
        e.compiled(kind, name)


def test_insert_ignore_skips_duplicate_rows(eng):
    r = eng.s.execute("INSERT IGNORE INTO u (k, tok, n) VALUES ('g', 0, 1), ('g', 0, 2), ('g', 1, 3)")
    assert r.rowcount == 2
    assert one(eng, "SELECT SUM(n) FROM u WHERE k = 'g'") == 4
